"""standard specification functions of the contract language (beyond the special forms old/implies/...)

Element interface vocabulary (DESIGN 2.3): the denotations of a user element are uninterpreted functions
  el_call : Obj V -> V            el_run : Obj Lst_V -> Lst_V
  el_fill : Obj St V -> St        el_compute / el_request : Obj St -> Lst_V
Recursive specification functions are emitted as `define-fun-rec` (z3 and cvc5 unfold them on demand)."""
from .smt import T, TRUE, FALSE, I, AND, OR, NOT, EQ, CMP, ITE, ADD, SUB
from .sym import Num, Bool, Opaque, Ref, View, Tup, Str, LstCell, IterCell, NoneV


def U(msg):
    from .interp import Unsupported
    return Unsupported(msg)


def lst_term(ip, st, v, sort=None):
    """Lst term of a list-like value (term identity is kept where the value carries one)"""
    if isinstance(v, Ref) and isinstance(st.heap[v.cid], LstCell):
        return ip.deref(st, v)
    if isinstance(v, View) and getattr(v, "term", None) is not None:
        return v.term
    if isinstance(v, Ref) and isinstance(st.heap[v.cid], IterCell):
        from .calls import flow_remaining_term
        return flow_remaining_term(ip, st, v)
    from .calls import materialise
    view = ip.as_view(st, v)
    if sort is None:
        from .builtins_ import sv_lst_sort
        if view.items is not None and not view.items:
            raise U("element sort of an empty sequence is not known here")
        sort = sv_lst_sort(ip, view.get(I(0)))
    return materialise(ip, st, view, sort)


def obj_term(v):
    if isinstance(v, Opaque) and v.sort == "Obj":
        return v.t
    raise U("element expected, got %r" % (v,))


def v_term(ip, v):
    v = ip.to_yield_value(None, v)
    if isinstance(v, Opaque) and v.sort == "V":
        return v.t
    raise U("flow value expected, got %r" % (v,))


def st_term(v):
    if isinstance(v, Opaque) and v.sort == "St":
        return v.t
    raise U("element state expected, got %r" % (v,))


def sp_el_call(ip, st, pos, kws):
    f = ip.reg.ufun("el_call", ["Obj", "V"], "V")
    return Opaque(T("(%s %s %s)" % (f, obj_term(pos[0]).s, v_term(ip, pos[1]).s), "V"))


def sp_el_run(ip, st, pos, kws):
    reg = ip.reg
    sort = reg.lst("V")
    f = reg.ufun("el_run", ["Obj", sort], sort)
    t = T("(%s %s %s)" % (f, obj_term(pos[0]).s, lst_term(ip, st, pos[1], sort).s), sort)
    return ip.lst_view(t)


def sp_el_source(ip, st, pos, kws):
    reg = ip.reg
    sort = reg.lst("V")
    f = reg.ufun("el_source", ["Obj"], sort)
    return ip.lst_view(T("(%s %s)" % (f, obj_term(pos[0]).s), sort))


def sp_elstate(ip, st, pos, kws):
    from .calls import elem_state
    return Opaque(elem_state(ip, st, pos[0]))


def sp_el_fill(ip, st, pos, kws):
    f = ip.reg.ufun("el_fill", ["Obj", "St", "V"], "St")
    return Opaque(T("(%s %s %s %s)" % (f, obj_term(pos[0]).s, st_term(pos[1]).s, v_term(ip, pos[2]).s), "St"))


def sp_el_fill_stops(ip, st, pos, kws):
    """el_fill_stops(el, s, v): the element's own fill(v) in state s signals LenaStopFill"""
    f = ip.reg.ufun("el_fill_stops", ["Obj", "St", "V"], "Bool")
    return Bool(T("(%s %s %s %s)" % (f, obj_term(pos[0]).s, st_term(pos[1]).s, v_term(ip, pos[2]).s), "Bool"))


def sp_el_compute(ip, st, pos, kws):
    reg = ip.reg
    f = reg.ufun("el_compute", ["Obj", "St"], reg.lst("V"))
    return ip.lst_view(T("(%s %s %s)" % (f, obj_term(pos[0]).s, st_term(pos[1]).s), reg.lst("V")))


def sp_el_request(ip, st, pos, kws):
    reg = ip.reg
    f = reg.ufun("el_request", ["Obj", "St"], reg.lst("V"))
    return ip.lst_view(T("(%s %s %s)" % (f, obj_term(pos[0]).s, st_term(pos[1]).s), reg.lst("V")))


def sp_el_request_state(ip, st, pos, kws):
    g = ip.reg.ufun("el_request_state", ["Obj", "St"], "St")
    return Opaque(T("(%s %s %s)" % (g, obj_term(pos[0]).s, st_term(pos[1]).s), "St"))


def sp_el_reset(ip, st, pos, kws):
    g = ip.reg.ufun("el_reset", ["Obj"], "St")
    return Opaque(T("(%s %s)" % (g, obj_term(pos[0]).s), "St"))


def sp_fold_fill(ip, st, pos, kws):
    """fold_fill(el, s, xs, n): state of el after filling xs[0..n) starting from s (left fold of el_fill)"""
    reg = ip.reg
    sort = reg.lst("V")
    reg.ufun("el_fill", ["Obj", "St", "V"], "St")
    reg.fun_decl("fold_fill",
                 "(define-fun-rec fold_fill ((e Obj) (s St) (xs %s) (n Int)) St "
                 "(ite (<= n 0) s (el_fill e (fold_fill e s xs (- n 1)) (select (arr_%s xs) (- n 1)))))" % (sort, sort))
    xs = lst_term(ip, st, pos[2], sort)
    return Opaque(T("(fold_fill %s %s %s %s)" % (obj_term(pos[0]).s, st_term(pos[1]).s, xs.s, ip.num(pos[3]).s), "St"))


def sp_seq_run(ip, st, pos, kws):
    """seq_run(els, xs, n): content after passing xs through run of els[0..n) from left to right"""
    reg = ip.reg
    sort = reg.lst("V")
    osort = reg.lst("Obj")
    reg.ufun("el_run", ["Obj", sort], sort)
    reg.fun_decl("seq_run",
                 "(define-fun-rec seq_run ((es %s) (xs %s) (n Int)) %s "
                 "(ite (<= n 0) xs (el_run (select (arr_%s es) (- n 1)) (seq_run es xs (- n 1)))))" % (osort, sort, sort, osort))
    es = lst_term(ip, st, pos[0], osort)
    xs = lst_term(ip, st, pos[1], sort)
    return ip.lst_view(T("(seq_run %s %s %s)" % (es.s, xs.s, ip.num(pos[2]).s), sort))


def sp_getter_of(ip, st, pos, kws):
    """getter_of(var, v): var.getter(v) for an abstract variable object"""
    f = ip.reg.ufun("el_m_getter", ["Obj", "V"], "V")
    return Opaque(T("(%s %s %s)" % (f, obj_term(pos[0]).s, v_term(ip, pos[1]).s), "V"))


def sp_compose_getters(ip, st, pos, kws):
    """compose_getters(vars, v, n): vars[n-1].getter(... vars[0].getter(v) ...)"""
    reg = ip.reg
    osort = reg.lst("Obj")
    reg.ufun("el_m_getter", ["Obj", "V"], "V")
    reg.fun_decl("compose_getters",
                 "(define-fun-rec compose_getters ((vs %s) (v V) (n Int)) V "
                 "(ite (<= n 0) v (el_m_getter (select (arr_%s vs) (- n 1)) (compose_getters vs v (- n 1)))))" % (osort, osort))
    vs = lst_term(ip, st, pos[0], osort)
    return Opaque(T("(compose_getters %s %s %s)" % (vs.s, v_term(ip, pos[1]).s, ip.num(pos[2]).s), "V"))


def sp_el_call_raises(ip, st, pos, kws):
    f = ip.reg.ufun("el_call_raises", ["Obj", "V"], "Bool")
    return Bool(T("(%s %s %s)" % (f, obj_term(pos[0]).s, v_term(ip, pos[1]).s), "Bool"))


def sp_same(ip, st, pos, kws):
    """same(a, b): the two sequences are the same list term (stronger than ==; what uninterpreted denotations need)"""
    a, b = pos
    if isinstance(a, Opaque) and isinstance(b, Opaque):
        return Bool(EQ(a.t, b.t))
    try:
        ta = lst_term(ip, st, a)
        tb = lst_term(ip, st, b, ta.sort)
    except Exception:
        tb = lst_term(ip, st, b)
        ta = lst_term(ip, st, a, tb.sort)
    return Bool(EQ(ta, tb))


def sp_has_run(ip, st, pos, kws):
    from .builtins_ import has_attr, is_callable
    from .sym import Fun
    v = pos[0]
    return Bool(AND(has_attr(ip, st, v, "run"), is_callable(ip, st, Fun("elem-method", elem=v, name="run"))))


def _key(ip, v):
    if isinstance(v, Str):
        return ip.reg.key(v.s)
    if isinstance(v, Opaque) and v.sort == "Key":
        return v.t
    raise U("attribute name expected, got %r" % (v,))


def sp_method(ip, st, pos, kws):
    """method(el, name): the bound method `el.<name>` of an abstract element"""
    from .sym import Fun
    name = pos[1].s if isinstance(pos[1], Str) else None
    return Fun("elem-method", elem=pos[0], name=name, key=_key(ip, pos[1]))


def sp_callable_m(ip, st, pos, kws):
    """callable_m(el, name): el has an attribute <name> and it is callable"""
    from .builtins_ import obj_preds
    obj_preds(ip)
    return Bool(T("(callable_attr %s %s)" % (obj_term(pos[0]).s, _key(ip, pos[1]).s), "Bool"))


def sp_has_attr(ip, st, pos, kws):
    from .builtins_ import has_attr
    return Bool(has_attr(ip, st, pos[0], pos[1].s))


def sp_class_method(ip, st, pos, kws):
    """class_method(obj, name): the method <name> as defined by the class of obj (not an instance attribute)"""
    from .sym import Fun, ObjCell
    v = pos[0]
    if not (isinstance(v, Ref) and isinstance(st.heap[v.cid], ObjCell)):
        raise U("class_method of %r" % (v,))
    k = ip.contracts.find_method(st.heap[v.cid].cls, pos[1].s)
    if k is None:
        raise U("class_method: no contract for %s.%s" % (st.heap[v.cid].cls, pos[1].s))
    return Fun("bound", contract=k, self_ref=v, name=pos[1].s)


def sp_is_instance_of(ip, st, pos, kws):
    """is_instance_of(v, 'ClassName'): isinstance test against a repository class (abstract predicate for elements)"""
    from .builtins_ import isinstance_
    from .sym import Fun
    return Bool(isinstance_(ip, st, pos[0], Fun("class", name=pos[1].s, mod=None)))


def register(ix):
    for name, fn in [("class_method", sp_class_method), ("is_instance_of", sp_is_instance_of)]:
        ix.spec_names[name] = fn
    for name, fn in [("method", sp_method), ("callable_m", sp_callable_m), ("has_attr", sp_has_attr)]:
        ix.spec_names[name] = fn
    for name, fn in [("el_call", sp_el_call), ("el_run", sp_el_run), ("el_source", sp_el_source), ("elstate", sp_elstate),
                     ("el_fill", sp_el_fill), ("el_fill_stops", sp_el_fill_stops), ("el_compute", sp_el_compute), ("el_request", sp_el_request),
                     ("el_request_state", sp_el_request_state), ("el_reset", sp_el_reset),
                     ("fold_fill", sp_fold_fill), ("seq_run", sp_seq_run), ("same", sp_same), ("has_run", sp_has_run),
                     ("getter_of", sp_getter_of), ("el_call_raises", sp_el_call_raises), ("compose_getters", sp_compose_getters)]:
        ix.spec_names[name] = fn
