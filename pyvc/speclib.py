"""standard specification functions of the contract language (beyond the special forms old/implies/...)"""


def register(ix):
    pass
