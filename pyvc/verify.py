"""Driver: one function + its contract -> verification conditions."""
import ast
import traceback

from .smt import (T, TRUE, FALSE, I, NOT, AND, OR, IMP, EQ, CMP, Registry)
from .sym import (Num, Bool, NoneV, NONE, Str, Opaque, Tup, Ref, View, Fun, ExcV, Sentinel,
                  LstCell, PyListCell, ValCell, PyDictCell, ObjCell, IterCell, State)
from .interp import Interp, Unsupported, VC
from .contracts import find_function
from .calls import eval_spec, conform, Mismatch
from .stmts import exec_block


class Unit(object):
    """verification unit: one contract case of one function"""

    def __init__(self, contract, case):
        self.contract, self.case = contract, case
        self.reg = None
        self.vcs = []
        self.assumptions = set()
        self.error = None          # out-of-subset / checker error text
        self.error_kind = None     # 'out-of-subset' | 'stale-contract' | 'crash'
        self.src_sha = None
        self.lines = None
        self.params = {}           # name -> SV at entry (for model concretisation)
        self.entry = None
        self.ip = None
        self.n_paths = 0
        self.shape = None          # names assigned per loop (staleness of loop specifications, see cli.handle_failed)
        self.norm = None           # ordered locals + hash of the position-normalised AST (pyvc/alpha.py)
        self.renamed = None        # {old: new} when the contract text was renamed to follow renamed locals


_FN_NORM = None


def _fn_norm_ledger():
    """per function: ordered locals and the hash of the position-normalised AST of the text the contract was proved for
    (written by `./check --update-ledger` into contracts/ledger.json under "_fn_norm")"""
    global _FN_NORM
    if _FN_NORM is None:
        import json
        import os
        p = os.path.join(os.path.dirname(os.path.dirname(os.path.abspath(__file__))), "contracts", "ledger.json")
        try:
            _FN_NORM = json.load(open(p)).get("_fn_norm", {})
        except (IOError, OSError, ValueError):
            _FN_NORM = {}
    return _FN_NORM


def loop_shape(fnnode):
    """per loop of the function (source order): the names its body (and its `for` target) assigns.  Loop invariants name
    loop-carried locals; a contract whose loops now assign OTHER names was written for another text of the function."""
    loops = [n for n in ast.walk(fnnode) if isinstance(n, (ast.For, ast.While))]
    loops.sort(key=lambda n: (n.lineno, n.col_offset))
    out = []
    for lp in loops:
        names = {x.id for x in ast.walk(lp) if isinstance(x, ast.Name) and isinstance(x.ctx, ast.Store)}
        out.append(sorted(names))
    return out


def number_loops(fnnode):
    loops = [n for n in ast.walk(fnnode) if isinstance(n, (ast.For, ast.While))]
    loops.sort(key=lambda n: (n.lineno, n.col_offset))
    return {id(n): k for k, n in enumerate(loops)}


def same_sv(ip, st_a, a, st_b, b):
    """Bool term: value a (in state a) equals value b (in state b); used by the frame check"""
    if a is b:
        return TRUE
    if isinstance(a, Num) and isinstance(b, Num):
        return EQ(a.t, b.t)
    if isinstance(a, Bool) and isinstance(b, Bool):
        return EQ(a.t, b.t)
    if isinstance(a, Opaque) and isinstance(b, Opaque) and a.sort == b.sort:
        return EQ(a.t, b.t)
    if isinstance(a, NoneV) and isinstance(b, NoneV):
        return TRUE
    if isinstance(a, Str) and isinstance(b, Str):
        return TRUE if a.s == b.s else FALSE
    if isinstance(a, Sentinel) and isinstance(b, Sentinel):
        return TRUE if a.name == b.name else FALSE
    if isinstance(a, Tup) and isinstance(b, Tup) and len(a.items) == len(b.items):
        return AND(*[same_sv(ip, st_a, x, st_b, y) for x, y in zip(a.items, b.items)])
    if isinstance(a, Ref) and isinstance(b, Ref):
        if a.cid != b.cid or a.path != b.path:
            return FALSE
        return TRUE      # same object; its content is compared by the cell walk
    if isinstance(a, Fun) and isinstance(b, Fun):
        return TRUE if a is b or (a.kind == b.kind and a.__dict__.get("name") == b.__dict__.get("name")) else FALSE
    if isinstance(a, View) and isinstance(b, View):
        ta, tb = getattr(a, "term", None), getattr(b, "term", None)
        if ta is not None and tb is not None and ta.sort == tb.sort:
            return EQ(ta, tb)
    return FALSE


def frame_check(ip, case, entry, final, tag):
    """every heap cell reachable from the parameters that is not named in `modifies` is unchanged"""
    allowed_fields, allowed_cells = set(), set()
    from .calls import places_of
    if "$fs" in final.notes and "fs" not in case.modifies:
        a, b = entry.notes.get("$fs"), final.notes.get("$fs")
        if a is not None and b is not None and a.s != b.s:
            ip.emit("frame", "frame: the file system is untouched%s" % tag, final, EQ(a, b))
    for m in case.modifies:
        if m == "fs":
            continue
        try:
            kind, base, field = places_of(ip, entry, entry.env, m)
        except Exception:
            continue
        if kind == "field" and isinstance(base, Ref):
            allowed_fields.add((base.cid, field))
            cur = entry.heap[base.cid].fields.get(field)
            if isinstance(cur, Ref):
                allowed_cells.add(cur.cid)
        elif isinstance(base, Ref):
            allowed_cells.add(base.cid)
    if case.generator and "out" in final.env and isinstance(final.env["out"], Ref):
        allowed_cells.add(final.env["out"].cid)
    for m in (case.ghost.get("suspended_changes") or ()):
        # fields that OTHER code may re-bind while the generator is suspended (stmts.suspend_havoc): not this function's frame
        try:
            kind, base, field = places_of(ip, entry, entry.env, m)
        except Exception:
            continue
        if kind == "field" and isinstance(base, Ref):
            allowed_fields.add((base.cid, field))
    seen = set()
    todo = [v for k, v in entry.env.items()]
    while todo:
        v = todo.pop()
        if isinstance(v, Tup):
            todo += v.items
            continue
        if not isinstance(v, Ref) or v.cid in seen:
            continue
        seen.add(v.cid)
        c0, c1 = entry.heap.get(v.cid), final.heap.get(v.cid)
        if c0 is None or c1 is None:
            continue
        if isinstance(c0, ObjCell):
            for f, x in c0.fields.items():
                todo.append(x)
                if (v.cid, f) in allowed_fields:
                    continue
                y = c1.fields.get(f)
                if y is None:
                    ip.emit("frame", "frame %s.%s%s" % (c0.cls, f, tag), final, FALSE)
                    continue
                g = same_sv(ip, entry, x, final, y)
                if g.s != "true":
                    ip.emit("frame", "frame %s.%s%s" % (c0.cls, f, tag), final, g)
            for f in c1.fields:
                if f not in c0.fields and (v.cid, f) not in allowed_fields:
                    ip.emit("frame", "frame new field %s.%s%s" % (c0.cls, f, tag), final, FALSE)
        elif isinstance(c0, LstCell):
            if v.cid in allowed_cells or c0.term.s == c1.term.s:
                continue
            ip.emit("frame", "frame list %s%s" % (v.cid, tag), final, EQ(c0.term, c1.term))
        elif isinstance(c0, ValCell):
            if v.cid in allowed_cells or c0.term.s == c1.term.s:
                continue
            ip.emit("frame", "frame dict %s%s" % (v.cid, tag), final, EQ(c0.term, c1.term))
        elif type(c0).__name__ == "KeyMapCell":
            if v.cid in allowed_cells or (c0.has.s == c1.has.s and c0.val.s == c1.val.s):
                continue
            ip.emit("frame", "frame dict of lists %s%s" % (v.cid, tag), final, AND(EQ(c0.has, c1.has), EQ(c0.val, c1.val)))
        elif isinstance(c0, IterCell):
            if v.cid in allowed_cells or c0.cursor.s == c1.cursor.s:
                continue
            ip.emit("frame", "frame iterator %s not advanced%s" % (c0.name or v.cid, tag), final, EQ(c0.cursor, c1.cursor))
        elif isinstance(c0, PyListCell):
            todo += c0.items
            if v.cid in allowed_cells:
                continue
            if len(c0.items) != len(c1.items):
                ip.emit("frame", "frame list %s%s" % (v.cid, tag), final, FALSE)
            else:
                g = AND(*[same_sv(ip, entry, x, final, y) for x, y in zip(c0.items, c1.items)])
                if g.s != "true":
                    ip.emit("frame", "frame list %s%s" % (v.cid, tag), final, g)


def build_unit(contract, case, contracts, world):
    u = Unit(contract, case)
    reg = Registry()
    u.reg = reg
    # Contract(ghost={"prune_defs": True}): function DEFINITIONS (define-fun / define-fun-rec) that a query does not use are
    # left out of its script (Registry.script): a definition is a conservative extension, dropping an unused one cannot
    # turn a satisfiable query unsatisfiable
    reg.prune_defs = bool(case.ghost.get("prune_defs"))
    # Contract(ghost={"opaque_defs": [name, ..]}): these defined functions are only DECLARED in the scripts of this unit (their
    # defining equations are withheld from the solver): fewer hypotheses, so whatever is proved holds with the definition too
    reg.opaque_defs = set(case.ghost.get("opaque_defs") or ())
    try:
        modctx = world.modctx(contract.file)
        u.src_sha = modctx.sha
        fnnode = find_function(modctx.tree, contract.qual)
        u.lines = (fnnode.lineno, fnnode.end_lineno)
    except (KeyError, IOError, OSError, SyntaxError) as e:
        u.error, u.error_kind = "function not found: %s" % e, "stale-contract"
        return u
    # a pure renaming of locals since the contract was proved: the contract text follows it (pyvc/alpha.py)
    try:
        from .alpha import norm, rename_map, renamed_case
        order, nsha = norm(fnnode)
        u.norm = {"locals": order, "sha": nsha}
        m = rename_map(_fn_norm_ledger().get("%s:%s" % (contract.file, contract.qual)), u.norm)
        if m:
            case = renamed_case(case, m, getattr(contracts, "spec_names", ()))
            u.case, u.renamed = case, m
    except RecursionError:
        pass
    ip = Interp(reg, modctx, contracts, case, world)
    u.ip = ip
    ip.loop_ids = number_loops(fnnode)
    ip.cur_fn = fnnode
    u.shape = loop_shape(fnnode)
    try:
        st = State()
        argnames = [a.arg for a in fnnode.args.args] + ([fnnode.args.vararg.arg] if fnnode.args.vararg else []) \
            + [a.arg for a in fnnode.args.kwonlyargs] + ([fnnode.args.kwarg.arg] if fnnode.args.kwarg else [])
        for p, ty in case.params.items():
            if p not in argnames and not p.startswith("_ghost_"):
                u.error, u.error_kind = "contract names parameter %s, the function has %s" % (p, argnames), "stale-contract"
                return u
            st.env[p] = ip.make(ty, p, st)
        for p, ty in case.closure.items():
            st.env[p] = ip.make(ty, p, st)          # variables of the enclosing function a nested def refers to
        def _parent_is_class():
            # (a class may have a lower-case name: `histogram.add` is a method, not a nested def)
            try:
                return isinstance(find_function(modctx.tree, contract.qual.rsplit(".", 1)[0]), ast.ClassDef)
            except KeyError:
                return False
        if "." in contract.qual and not contract.qual.split(".")[-2][:1].isupper() and fnnode.name not in st.env \
                and not _parent_is_class():
            # a nested def can call itself by its name (bound in the enclosing function's scope): through its contract
            st.env[fnnode.name] = Fun("contract", contract=contract)
        for p in argnames:
            if p not in st.env:
                u.error, u.error_kind = "parameter %s of the function has no type in the contract" % p, "stale-contract"
                return u
        u.params = dict(st.env)
        # object invariant of self
        selfv = st.env.get(argnames[0]) if argnames else None
        if case.closure and "self" in case.closure:
            selfv = st.env["self"]
        cls_inv = []
        if isinstance(selfv, Ref) and isinstance(st.heap[selfv.cid], ObjCell) and not contract.qual.endswith("__init__"):
            cs = contracts.classes.get(st.heap[selfv.cid].cls)
            if cs:
                cls_inv = cs.invariant
                for inv in cs.invariant:
                    st.assume(eval_spec(ip, st, {"self": selfv}, inv))
        # objects handed in as (components of) other parameters and typed with a class view: the view's invariant is part
        # of the typing of the input (a precondition of this unit; call sites owe it for directly typed parameters)
        def _typed_objects(v, depth=0):
            from .sym import Tup as _Tup, PyListCell as _PL
            if depth > 3:
                return
            if isinstance(v, Ref) and not v.path:
                cell = st.heap.get(v.cid)
                if isinstance(cell, ObjCell):
                    yield v
                elif isinstance(cell, _PL):
                    for x in cell.items:
                        for y in _typed_objects(x, depth + 1):
                            yield y
            elif isinstance(v, _Tup):
                for x in v.items:
                    for y in _typed_objects(x, depth + 1):
                        yield y
        if not contract.qual.endswith("__init__") or True:
            for pname, pv in list(u.params.items()):
                if pv is selfv:
                    continue
                for ov in _typed_objects(pv):
                    if isinstance(selfv, Ref) and ov.cid == selfv.cid:
                        continue
                    csv_ = contracts.classes.get(st.heap[ov.cid].cls)
                    if csv_ is not None and csv_.invariant:
                        for inv in csv_.invariant:
                            st.assume(eval_spec(ip, st, {"self": ov}, inv))
                        ip.assumptions.add("typing precondition: an object handed in as (part of) parameter `%s` of %s satisfies "
                                           "the invariant of its view %s" % (pname, case.name, csv_.name))
        if case.ghost.get("fs"):
            from .lib import fs_init
            fs_init(ip, st)
        if case.ghost.get("elstate"):
            from .calls import elem_state
            reg.need("Obj")
            reg.need("St")
            st.env["$elst"] = Opaque(reg.new("elst", "(Array Obj St)"))
        for r in case.requires:
            st.assume(eval_spec(ip, st, st.env, r))
        entry = st.copy()
        ip.entry = entry
        ip.oldst = entry
        u.entry = entry
        # vacuity guard: the precondition must be satisfiable (expected status: sat)
        ip.vcs.append(VC("cover requires", "cover", list(entry.pc), FALSE, ""))
        if case.generator and case.yields == "Any":
            # finitely many yields of values of any kind: the yielded values are kept as they are
            st.env["out"] = ip.new_cell(st, PyListCell([]))
        elif case.generator and case.yields.strip().startswith("Tuple["):
            from .histlib import struct_new          # tuples of a declared shape: one ghost list per component
            st.env["out"] = ip.new_cell(st, struct_new(ip, st, case.yields, "out0", empty=True))
        elif case.generator:
            sort = ip.lst_sort(case.yields)
            empty = reg.new("out0", sort)
            st.assume(EQ(reg.l_len(empty), I(0)))
            st.env["out"] = ip.new_cell(st, LstCell(empty))
        outcomes = exec_block(ip, fnnode.body, st)
        u.n_paths = len(outcomes)
        for kind, s2, payload in outcomes:
            if kind in ("next", "return"):
                res = payload if kind == "return" else NONE
                check_normal_exit(ip, case, entry, s2, res, selfv, cls_inv, contracts)
            elif kind == "raise":
                check_exceptional_exit(ip, case, entry, s2, payload)
            else:
                raise Unsupported("break/continue outside loop")
        # canary: `ensures False` on the normal exits must be refuted (contradictory hypotheses otherwise)
        normal = [(k, s2) for k, s2, _ in outcomes if k in ("next", "return")]
        if any(str(cond).strip() == "True" for cond in case.raises.values()):
            # the contract says the function ALWAYS raises: every normal exit is proved infeasible (obligation `normal exit
            # implies not (raises ... condition)`), so contradictory hypotheses there are what is claimed, not a defect
            normal = []
        # (some symbolic paths are infeasible by themselves; at least one normal exit must be feasible)
        for kx, (_, sx) in enumerate(normal[:8]):
            ip.vcs.append(VC("canary ensures False#%d" % kx, "canary", list(sx.pc), FALSE, sx.trace))
    except Unsupported as e:
        u.error, u.error_kind = str(e), "out-of-subset"
    except RecursionError as e:
        u.error, u.error_kind = "recursion limit in the front end", "out-of-subset"
    except Exception as e:
        u.error, u.error_kind = "%s: %s\n%s" % (type(e).__name__, e, traceback.format_exc()[-1500:]), "crash"
    u.vcs = ip.vcs
    u.assumptions = ip.assumptions
    return u


def check_normal_exit(ip, case, entry, st, res, selfv, cls_inv, contracts):
    env = dict(entry.env)
    if case.generator:
        env["out"] = st.env["out"]
        env["result"] = NONE
    elif case.result is not None:
        try:
            env["result"] = conform(ip, st, res, case.result)
        except (Mismatch, Unsupported):
            # (a value that cannot even be converted to the declared type -- e.g. a list of lists for Lst[Real] -- does
            # not have it: the obligation is provable only if this path is infeasible)
            ip.emit("post", "result has declared type %s" % case.result, st, FALSE, {"got": repr(res)})
            return
    else:
        if not isinstance(res, NoneV):
            ip.emit("post", "function returns None", st, FALSE, {"got": repr(res)})
            return
        env["result"] = NONE
    if "$elst" in st.env:
        env["$elst"] = st.env["$elst"]
    if "$fs" in st.env:
        env["$fs"] = st.env["$fs"]
    if "$seen" in st.env:
        env["$seen"] = st.env["$seen"]      # seen(k) in a postcondition: the keys the function's LAST dictionary loop has visited
    env["$locals"] = Fun("locals", env=dict(st.env))      # for the spec form local(name): a local variable at the exit
    if getattr(case, "result_ref", None) and isinstance(entry.env.get(case.result_ref[0]), Ref):
        from .dicts import path_ref, same_ref
        want, _root = path_ref(ip, entry_view(entry, st), dict(entry.env), case.result_ref, entry=entry)
        g = same_ref(ip, st, res, want) if isinstance(res, Ref) else FALSE
        if g is None:
            raise Unsupported("result_ref: cannot compare %r with %r" % (res, want))
        ip.emit("post", "result is the object at the declared key path (result_ref)", st, g)
    if case.result_alias is not None:
        ip.emit("post", "result is the parameter %s itself" % case.result_alias, st,
                ip.py_is(st, res, entry.env[case.result_alias])
                if isinstance(res, Ref) or (isinstance(res, (Tup, Opaque)) and isinstance(entry.env[case.result_alias], type(res)))
                else FALSE)     # (a tuple / an abstract object handed back: the very value the parameter was bound to)
    for cl in getattr(case, "lemmas", []):
        # Contract(lemmas=[...]): instances of PROVED lemmas about reference functions, made available to the proof of the
        # postcondition.  A clause must be one application of a registered lemma function (contracts.lemma_functions):
        # a specification function that returns an instance of a statement a Lemma unit proves for all arguments.
        head = cl.split("(")[0].strip()
        if head not in getattr(contracts, "lemma_functions", ()):
            raise Unsupported("lemma clause `%s`: %s is not a registered lemma function" % (cl, head))
        st.assume(eval_spec(ip, st, env, cl, old=entry))
    for k, cl in enumerate(case.ensures):
        ip.emit("post", "ensures#%d" % k, st, eval_spec(ip, st, env, cl, old=entry), {"clause": cl})
    for exc, cond in case.raises.items():
        if cond == "?":
            continue
        c = eval_spec(ip, entry_view(entry, st), dict(entry.env), cond)
        ip.emit("raises", "normal exit implies not (raises %s condition)" % exc, st, NOT(c), {"clause": cond})
    if cls_inv and isinstance(selfv, Ref):
        for k, inv in enumerate(cls_inv):
            ip.emit("invariant", "object invariant#%d" % k, st, eval_spec(ip, st, {"self": selfv}, inv, old=entry))
    frame_check(ip, case, entry, st, "")


def entry_view(entry, st):
    """entry heap/env with the final path condition (raise conditions are stated over the pre-state)"""
    s = entry.copy()
    s.pc = st.pc
    s.trace = st.trace
    return s


def check_exceptional_exit(ip, case, entry, st, exc):
    if exc.cls == "GeneratorExit" and case.generator:
        env = dict(entry.env)
        env["out"] = st.env["out"]
        for k2 in ("$fs", "$elst"):
            if k2 in st.env:
                env[k2] = st.env[k2]
        for k, cl in enumerate(case.on_abandon):
            ip.emit("abandon", "on-abandon#%d" % k, st, eval_spec(ip, st, env, cl, old=entry), {"clause": cl})
        return
    allowed = None
    for e in case.raises:
        if ip.is_subclass(exc.cls, e):
            allowed = e
            break
    if allowed is None:
        ip.emit("raises", "no %s escapes" % exc.cls, st, FALSE, {"exception": exc.cls})
        return
    if getattr(case, "lemmas", None):
        # Contract(lemmas=[...]) on exceptional exits as on normal ones (see check_normal_exit): instances of PROVED lemmas
        lenv = dict(entry.env)
        for k2 in ("$fs", "$elst"):
            if k2 in st.env:
                lenv[k2] = st.env[k2]
        lenv["$locals"] = Fun("locals", env=dict(st.env))
        for cl in case.lemmas:
            head = cl.split("(")[0].strip()
            if head not in getattr(ip.contracts, "lemma_functions", ()):
                raise Unsupported("lemma clause `%s`: %s is not a registered lemma function" % (cl, head))
            st.assume(eval_spec(ip, st, lenv, cl, old=entry))
    cond = case.raises[allowed]
    if cond != "?":
        c = eval_spec(ip, entry_view(entry, st), dict(entry.env), cond)
        ip.emit("raises", "%s raised only if its condition holds" % exc.cls, st, c, {"clause": cond})
    env = dict(entry.env)
    if case.generator:
        env["out"] = st.env["out"]
    for k2 in ("$fs", "$elst"):
        if k2 in st.env:
            env[k2] = st.env[k2]
    for k, cl in enumerate(case.exc_ensures.get(allowed, [])):
        ip.emit("post", "exceptional ensures#%d (%s)" % (k, allowed), st, eval_spec(ip, st, env, cl, old=entry))
    if case.raises_frame == "pure":
        frame_check(ip, case, entry, st, " (on %s)" % exc.cls)


def units_for(contract, contracts, world):
    cases = contract.cases or [contract]
    out = []
    for case in cases:
        if case.trusted:
            continue
        if case is not contract:
            case.file, case.qual = contract.file, contract.qual
        out.append(build_unit(contract, case, contracts, world))
    return out


# --------------------------------------------------------------------------- lemmas over contracts
class Lemma(object):
    """a proof obligation over contracts only (no function body): e.g. `reset() leaves the element equal to a new one`"""

    def __init__(self, name, file, props, build, notes=""):
        self.name, self.file, self.props, self.build, self.notes = name, file, list(props), build, notes
        self.qual, self.cases, self.trusted = "lemma:" + name, None, False


def lemma_unit(lemma, contracts, world):
    from .contracts import Contract
    c = Contract(lemma.file, "lemma:" + lemma.name, props=lemma.props, name=lemma.name, notes=lemma.notes)
    u = Unit(c, c)
    reg = Registry()
    u.reg = reg
    try:
        modctx = world.modctx(lemma.file)
        u.src_sha = modctx.sha
        ip = Interp(reg, modctx, contracts, c, world)
        u.ip = ip
        st = State()
        ip.entry = st.copy()
        ip.oldst = ip.entry
        u.entry = ip.entry
        lemma.build(ip, st)
        u.n_paths = 1
        u.vcs = ip.vcs
        u.assumptions = ip.assumptions
    except Unsupported as e:
        u.error, u.error_kind = str(e), "out-of-subset"
    except Exception as e:
        u.error, u.error_kind = "%s: %s\n%s" % (type(e).__name__, e, traceback.format_exc()[-1500:]), "crash"
    return u


def reset_equals_init(cls, init_args=()):
    """lemma builder: for every state field (a field some other method of the class may modify), the value after
    reset() on an arbitrary object equals the value after __init__ with default arguments"""
    from .calls import apply_contract, instantiate, eval_spec

    def build(ip, st):
        cs = ip.contracts.classes[cls]
        state_fields = set()
        for c in ip.contracts.by_key.values():
            for case in (c.cases or [c]):
                q = c.qual
                if q.startswith(cls + ".") and not q.endswith(("__init__", ".reset", "._reset")):
                    for m in case.modifies:
                        if m.startswith("self."):
                            state_fields.add(m[5:])
        if not state_fields:
            raise Unsupported("reset lemma for %s: no state fields found in the contracts" % cls)
        # an arbitrary element (object invariant assumed), then reset()
        a = ip.make("Self[%s]" % cls, "a", st)
        for inv in cs.invariant:
            st.assume(eval_spec(ip, st, {"self": a}, inv))
        ip.entry = st.copy()
        ip.oldst = ip.entry
        k = ip.contracts.find_method(cls, "reset") or ip.contracts.find_method(cls, "_reset")
        if k is None:
            raise Unsupported("no contract for %s.reset" % cls)
        outs = apply_contract(ip, st, k, [a], {})
        s1 = outs[0][0]
        # a new element
        outs2 = instantiate(ip, s1, Fun("class", name=cls, mod=None), list(init_args), {})
        s2, b = outs2[0]
        for f in sorted(state_fields):
            va = s2.heap[a.cid].fields.get(f)
            vb = s2.heap[b.cid].fields.get(f)
            if va is None or vb is None:
                ip.emit("lemma", "reset-equals-new-element: field %s is set by both" % f, s2, FALSE)
                continue
            ip.emit("lemma", "reset-equals-new-element: field %s" % f, s2, ip.py_eq(s2, va, vb))
        ip.vcs.append(VC("cover requires", "cover", list(s2.pc), FALSE, ""))
    return build

