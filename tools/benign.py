#!/usr/bin/env python3
"""Behaviour-preserving changes (written by independent sub-agents that saw only the property text): a check must NOT
raise an alarm on them.

  python3 tools/benign.py import B1          # confirm /tmp/lena-ben/out-B1/patch_*.diff (applies, 153 tests pass) -> benign/<prop>-b<k>/
  python3 tools/benign.py run C01-b1         # run the property's quick check against the change (scratch copy)
  python3 tools/benign.py runall [C01 ...]   # all stored changes; prints exit code and the kind of lines printed

exit 0 = silent, exit 2 = undecided (proof not reproduced, nothing refuted), exit 1 = FALSE ALARM."""
import json
import os
import shutil
import sys
import time

sys.path.insert(0, os.path.dirname(os.path.abspath(__file__)))
from seeded import sh, scratch, run_tests, ROOT  # noqa: E402

SRC = "/tmp/lena-ben"


def do_import(b, srcdir=None):
    src = os.path.join(srcdir or SRC, "out-" + b)
    n = 0
    for k in range(1, 40):
        patch, meta = os.path.join(src, "patch_%d.diff" % k), os.path.join(src, "meta_%d.json" % k)
        if not (os.path.exists(patch) and os.path.exists(meta)):
            continue
        m = json.load(open(meta))
        pid = m["property"]
        name = "%s-b%s%d" % (pid, b[1:], k)
        if os.path.isdir(os.path.join(ROOT, "benign", name)):
            continue
        try:
            mut = scratch(name + "-ben", patch)
        except SystemExit as e:
            print("%s: REJECTED (%s)" % (name, str(e)[:100]))
            continue
        tests = run_tests(mut)
        shutil.rmtree(mut, ignore_errors=True)
        if "153 passed" not in tests:
            print("%s: REJECTED, tests with change: %s" % (name, tests))
            continue
        dst = os.path.join(ROOT, "benign", name)
        os.makedirs(dst, exist_ok=True)
        shutil.copy(patch, os.path.join(dst, "patch.diff"))
        m["confirmed_by_main_session"] = {"test_suite_with_change": tests,
                                          "base": sh("git -C /repo rev-parse --short HEAD")[1].strip()}
        json.dump(m, open(os.path.join(dst, "meta.json"), "w"), indent=1)
        n += 1
        print("%s: imported (%s, depth %s)" % (name, tests, m.get("depth")))
    return 0


def do_run(name, tier="quick"):
    dst = os.path.join(ROOT, "benign", name)
    meta = json.load(open(os.path.join(dst, "meta.json")))
    p = meta["property"]
    d = scratch(name + "-check", os.path.join(dst, "patch.diff"))
    env = dict(os.environ, LENA_REPO=d, VERIF_EVIDENCE_DIR="/var/tmp/seedrun/evidence")
    t0 = time.time()
    try:
        rc, out = sh("./check %s --tier %s" % (p, tier), cwd=ROOT, env=env, timeout=3600)
    finally:
        shutil.rmtree(d, ignore_errors=True)
    lines = [l for l in out.split("\n") if l.startswith(("VIOLATION", "UNDECIDED", "CHECKER-FAILURE"))]
    res = {"exit": rc, "wall_s": round(time.time() - t0, 1),
           "violations": [l[:400] for l in lines if l.startswith("VIOLATION")][:6],
           "n_violations": sum(1 for l in lines if l.startswith("VIOLATION")),
           "bounded_side": sum(1 for l in lines if l.startswith("VIOLATION") and "bounded_" in l),
           "undecided": [l[:300] for l in lines if l.startswith("UNDECIDED")][:4],
           "n_undecided": sum(1 for l in lines if l.startswith("UNDECIDED")),
           "checker_failure": [l[:300] for l in lines if l.startswith("CHECKER")][:3]}
    meta.setdefault("check_results", {})[tier] = res
    json.dump(meta, open(os.path.join(dst, "meta.json"), "w"), indent=1)
    verdict = {0: "silent", 1: "FALSE ALARM", 2: "undecided", 3: "CHECKER-FAILURE"}.get(rc, "rc=%s" % rc)
    print("%-10s %-4s depth=%s exit=%s %-14s violations=%d (bounded-side %d) undecided=%d %.0fs"
          % (name, p, meta.get("depth"), rc, verdict, res["n_violations"], res["bounded_side"], res["n_undecided"], res["wall_s"]))
    return res


def main():
    a = sys.argv[1:]
    if a[0] == "import":
        return do_import(a[1], a[a.index("--src") + 1] if "--src" in a else None)
    if a[0] == "run":
        do_run(a[1], a[a.index("--tier") + 1] if "--tier" in a else "quick")
        return 0
    if a[0] == "runall":
        only = [x for x in a[1:] if not x.startswith("--")]
        for n in sorted(os.listdir(os.path.join(ROOT, "benign"))):
            if only and not any(n.startswith(o) for o in only):
                continue
            do_run(n)
        return 0


if __name__ == "__main__":
    sys.exit(main())
