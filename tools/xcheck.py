#!/usr/bin/env python3
"""Encoder cross-check against CPython (DESIGN 4.2) -- guards the ENGINE, not the code.

For every contract case whose parameters are concretisable (numbers, booleans, lists / fixed lists / tuples of them, objects
of a class view with such fields) random concrete arguments are drawn, the REAL function is run on them under
/venv/bin/python, and the observed outcome (result, final state of the mutable arguments, or the exception class) is
handed back to the prover as the claim "this outcome does NOT happen on these arguments":

    requires += [x == 2.5, len(arr) == 3, arr[0] == 1, ...]      ensures = [not (result == 1)]

The symbolic executor must NOT be able to prove that claim: CPython has just exhibited the outcome.  A derived unit whose
claim is proved on every path means that the encoding excludes a behaviour the interpreter really has (unsound encoding of
a construct, a wrong library contract, a loop havoc that forgets a possibility) and is reported as ENGINE-UNSOUND; a claim
refuted (`sat`) on some path is the expected answer; anything else (timeouts only) is inconclusive and only counted.
Loop cuts and abstracted locals over-approximate, so the real outcome must always stay possible.

  python3-vt tools/xcheck.py [--n 6] [--seed 1] [--only substring] [--json out.json]
exit 0: no contradiction;  exit 3: at least one ENGINE-UNSOUND line."""
import copy
import json
import os
import random
import subprocess
import sys
import time

ROOT = os.path.dirname(os.path.dirname(os.path.abspath(__file__)))
sys.path.insert(0, ROOT)
from pyvc.cli import load_index            # noqa: E402
from pyvc.contracts import World, REPO     # noqa: E402
from pyvc.verify import build_unit         # noqa: E402
from pyvc.solve import discharge           # noqa: E402
from pyvc.interp import parse_type as _parse_type   # noqa: E402


def parse_type(s):
    """recursive form: ('Lst', [('Real', [])])"""
    head, args = _parse_type(s)
    return head, [parse_type(a) if not a.strip().lstrip('-').isdigit() else (a.strip(), []) for a in args]

SCALARS = ("Int", "Real", "Bool")


def concretisable(ty, ix, depth=0):
    name, args = ty
    if name in SCALARS or name == "None":
        return True
    if name == "Lst":
        return depth < 3 and concretisable(args[0], ix, depth + 1)
    if name == "PyList":
        return concretisable(args[1], ix, depth + 1)
    if name == "Tuple":
        return all(concretisable(a, ix, depth + 1) for a in args)
    if name in ("Self", "Inst") and depth == 0:
        cs = ix.classes.get(args[0][0])
        return cs is not None and all(concretisable(parse_type(t), ix, 1) for t in cs.fields.values())
    return False


def draw(ty, ix, rnd, sorted_hint=False):
    name, args = ty
    if name == "Int":
        return rnd.randint(-3, 6)
    if name == "Real":
        return rnd.choice([rnd.randint(-4, 8), rnd.randint(-16, 32) / 4.0])
    if name == "Bool":
        return rnd.random() < 0.5
    if name == "None":
        return None
    if name == "Lst":
        n = rnd.randint(0, 4)
        xs = [draw(args[0], ix, rnd) for _ in range(n)]
        if args[0][0] in ("Real", "Int") and rnd.random() < 0.8:
            xs = sorted(set(xs))              # most numeric lists of the library are edges (strictly increasing)
        return xs
    if name == "PyList":
        return [draw(args[1], ix, rnd) for _ in range(int(args[0][0]))]
    if name == "Tuple":
        return {"tuple": [draw(a, ix, rnd) for a in args]}
    if name in ("Self", "Inst"):
        cs = ix.classes[args[0][0]]
        return {"obj": cs.alias_of or cs.name, "file": cs.file, "spec": cs.name,
                "fields": {f: draw(parse_type(t), ix, rnd) for f, t in cs.fields.items()}}
    raise ValueError(name)


def repair_object(v, ix, rnd):
    """make the drawn fields of a histogram-like view consistent (bins shaped after the edges), so that a useful share of
    the samples satisfies the object invariant; anything else is simply filtered by the native invariant test"""
    if not (isinstance(v, dict) and "obj" in v):
        return v
    f = v["fields"]
    if "edges" in f and "bins" in f and "dim" in f:
        e = f["edges"]
        dims = [e] if (e and not isinstance(e[0], list)) or e == [] else e
        dims = [sorted(set(d)) if len(set(d)) >= 2 else [0, 1 + rnd.randint(0, 2)] for d in dims]

        def mk(k):
            if k == len(dims):
                return rnd.randint(0, 5)
            return [mk(k + 1) for _ in range(len(dims[k]) - 1)]
        f["bins"] = mk(0)
        f["edges"] = dims[0] if not (e and isinstance(e[0], list)) else dims
        f["dim"] = len(dims)
    return v


def lit(x):
    if isinstance(x, bool):
        return "True" if x else "False"
    if isinstance(x, int):
        return "(%d)" % x
    if isinstance(x, float):
        if x != x or x in (float("inf"), float("-inf")):
            raise ValueError("not finite")
        if x == int(x) and abs(x) < 2 ** 53:
            return "(%d)" % int(x)
        num, den = x.as_integer_ratio()
        if den > 2 ** 20:
            raise ValueError("too fine")
        return "(%d / %d)" % (num, den)
    if x is None:
        return "None"
    raise ValueError(type(x))


def eqs(expr, v, out):
    """clauses saying that the spec expression `expr` has the concrete (json-decoded) value v"""
    if isinstance(v, dict) and "tuple" in v:
        for k, x in enumerate(v["tuple"]):
            eqs("%s[%d]" % (expr, k), x, out)
    elif isinstance(v, dict) and "obj" in v:
        for f, x in v["fields"].items():
            eqs("%s.%s" % (expr, f), x, out)
    elif isinstance(v, list):
        out.append("len(%s) == %d" % (expr, len(v)))
        for k, x in enumerate(v):
            eqs("%s[%d]" % (expr, k), x, out)
    elif v is None:
        out.append("%s is None" % expr)
    else:
        out.append("%s == %s" % (expr, lit(v)))


NATIVE = r'''
import copy, importlib, json, sys
sys.path.insert(0, %(root)r)
from pyvc.native import dec, Clause
def enc(v, depth=0):
    if isinstance(v, bool) or v is None or isinstance(v, int): return v
    if isinstance(v, float):
        if v != v or v in (float("inf"), float("-inf")): raise ValueError("nan")
        return v
    if isinstance(v, tuple): return {"tuple": [enc(x, depth + 1) for x in v]}
    if isinstance(v, list): return [enc(x, depth + 1) for x in v]
    raise ValueError("result of type %%s" %% type(v).__name__)
def enc_obj(o, fields):
    return {"obj": 1, "fields": {f: enc(getattr(o, f)) for f in fields}}
req = json.loads(sys.stdin.read())
mod = importlib.import_module(req["file"][:-3].replace("/", "."))
fn = mod
for p in req["qual"].split("."): fn = getattr(fn, p)
outs = []
for sample in req["samples"]:
    try:
        args = {k: dec(v) for k, v in sample.items()}
        ok = all(Clause(c).holds(dict(args)) for c in req["invariant"] + req["requires"])
    except Exception as e:
        outs.append({"skip": "precondition not evaluable: %%s" %% e}); continue
    if not ok:
        outs.append({"skip": "precondition false"}); continue
    try:
        res = fn(*[args[n] for n in req["order"]])
    except Exception as e:
        outs.append({"raises": [k.__name__ for k in type(e).__mro__ if k not in (object, BaseException)]}); continue
    try:
        post = {}
        for n in req["order"]:
            v = args[n]
            if isinstance(v, list): post[n] = enc(v)
            elif hasattr(v, "__dict__") and n in req["objfields"]: post[n] = enc_obj(v, req["objfields"][n])
        outs.append({"result": enc(res), "post": post})
    except Exception as e:
        outs.append({"skip": "outcome not encodable: %%s" %% e})
print(json.dumps(outs))
'''


def run_native(case, contract, samples, ix):
    inv, objfields = [], {}
    for p, ty in case.params.items():
        t = parse_type(ty)
        if t[0] in ("Self", "Inst"):
            cs = ix.classes[t[1][0][0]]
            objfields[p] = list(cs.fields)
            if not contract.qual.endswith("__init__"):
                inv += [c.replace("self.", p + ".") if p != "self" else c for c in cs.invariant]
    req = {"file": contract.file, "qual": contract.qual, "order": list(case.params), "samples": samples,
           "requires": list(case.requires), "invariant": inv, "objfields": objfields}
    env = dict(os.environ, PYTHONPATH=REPO + os.pathsep + ROOT, PYTHONDONTWRITEBYTECODE="1")
    p = subprocess.run(["/venv/bin/python", "-W", "ignore", "-c", NATIVE % {"root": ROOT}], input=json.dumps(req),
                       capture_output=True, text=True, env=env, timeout=120)
    try:
        return json.loads(p.stdout.strip().split("\n")[-1])
    except Exception:
        return [{"skip": "native batch crashed: " + (p.stderr or p.stdout)[-300:]}] * len(samples)


def derived(case, sample, outcome):
    d = copy.copy(case)
    pins = []
    for p, v in sample.items():
        eqs(p, v, pins)
    d.requires = list(case.requires) + pins
    d.lemmas, d.at_yield, d.on_abandon, d.at_call = [], [], [], {}
    d.name = case.name + "[xcheck]"
    if "raises" in outcome:
        known = [e for e in outcome["raises"] if e in case.raises]
        if not known:
            return None, None
        d.raises = dict(case.raises)
        d.raises[known[0]] = "False"
        d.ensures = []
        return d, "raise"
    claim = []
    if case.result is not None and outcome["result"] is not None:
        eqs("result", outcome["result"], claim)
    for p, v in outcome["post"].items():
        eqs(p, v, claim)
    if not claim:
        return None, None
    d.ensures = ["not (" + " and ".join("(%s)" % c for c in claim) + ")"]
    d.raises = dict(case.raises)
    return d, "post"


def main():
    a = sys.argv[1:]
    n = int(a[a.index("--n") + 1]) if "--n" in a else 6
    seed = int(a[a.index("--seed") + 1]) if "--seed" in a else 1
    only = a[a.index("--only") + 1] if "--only" in a else ""
    rnd = random.Random(seed)
    ix, w = load_index(), World()
    tot = {"cases": 0, "samples": 0, "refuted_as_expected": 0, "inconclusive": 0, "skipped": 0, "unsound": 0, "not_run": 0}
    bad, t0 = [], time.time()
    seen = set()
    for key, contract in sorted(ix.by_key.items(), key=lambda kv: (kv[0][0], kv[0][1])):
        for case in (contract.cases or [contract]):
            if id(case) in seen:
                continue
            seen.add(id(case))
            if case.trusted or case.generator or case.ghost or case.closure or case.vararg or case.kwarg or not case.params:
                continue
            if only and only not in case.name and only not in contract.file:
                continue
            try:
                tys = {p: parse_type(t) for p, t in case.params.items()}
            except Exception:
                continue
            if not all(concretisable(t, ix) for t in tys.values()):
                continue
            if case.result is not None and not concretisable(parse_type(case.result), ix, 1):
                continue
            if case is not contract:
                case.file, case.qual = contract.file, contract.qual
            samples = [{p: repair_object(draw(t, ix, rnd), ix, rnd) for p, t in tys.items()} for _ in range(n * 4)]
            outs = run_native(case, contract, samples, ix)
            pairs = [(s, o) for s, o in zip(samples, outs) if "skip" not in o][:n]
            if "--selftest" in a:
                # vacuity guard of this tool: a FALSIFIED outcome (result + 1) must be excluded by the encoding at least for
                # the functions whose contract determines the result; the run reports how many were
                for s, o in pairs:
                    if isinstance(o.get("result"), (int, float)) and not isinstance(o.get("result"), bool):
                        o["result"] += 1
            tot["skipped"] += len(samples) - len(pairs)
            if not pairs:
                tot["not_run"] += 1
                continue
            tot["cases"] += 1
            for s, o in pairs:
                try:
                    d, kind = derived(case, s, o)
                except ValueError:
                    d = None
                if d is None:
                    continue
                u = build_unit(contract, d, ix, w)
                if u.error:
                    tot["inconclusive"] += 1
                    continue
                rs = [r for r in discharge([u], "/dev/shm/pyvc_xcheck", timeout=10)
                      if (kind == "post" and r.vc.name.startswith("ensures#0"))
                      or (kind == "raise" and "raised only if" in r.vc.name)]
                tot["samples"] += 1
                st = [r.status for r in rs]
                if any(x.startswith("failed") for x in st):
                    tot["refuted_as_expected"] += 1
                elif st and all(x == "proved" for x in st) or not st:
                    tot["unsound"] += 1
                    bad.append({"case": case.name, "file": contract.file, "args": s, "native_outcome": o,
                                "claim": d.ensures or d.raises, "statuses": st})
                    print("ENGINE-UNSOUND %s %s: CPython gives %s on %s but the encoding excludes it"
                          % (contract.file, case.name, json.dumps(o)[:200], json.dumps(s)[:300]))
                else:
                    tot["inconclusive"] += 1
    tot["wall_s"] = round(time.time() - t0, 1)
    print("xcheck:", json.dumps(tot))
    if "--json" in a:
        json.dump({"totals": tot, "contradictions": bad, "seed": seed, "n": n}, open(a[a.index("--json") + 1], "w"), indent=1)
    return 3 if bad else 0


if __name__ == "__main__":
    sys.exit(main())
