#!/usr/bin/env python3
"""prints the markdown status tables of DESIGN.md section 0 from evidence/*.json, known_findings.json and seeded/*/meta.json"""
import json
import os

ROOT = os.path.dirname(os.path.dirname(os.path.abspath(__file__)))
man = json.load(open(os.path.join(ROOT, "MANIFEST.json")))
kf = json.load(open(os.path.join(ROOT, "known_findings.json")))

print("| prop | level | obligations (all discharged) | functions under contract (tier P) | bounded cases (quick) | open findings | fix: commits |")
print("|---|---|---|---|---|---|---|")
for c in man["checks"]:
    p = c["property_id"]
    ev = json.load(open(os.path.join(ROOT, "evidence", p + ".json")))
    cov = ev["coverage"]
    fns = sorted({f["function"] for f in cov.get("functions_under_contract", []) if str(f.get("tier", "")).startswith("P")})
    short = ", ".join(x.replace("lemma:", "lemma ") for x in fns[:9]) + (" ... (%d)" % len(fns) if len(fns) > 9 else "")
    nopen = sum(1 for k in kf["open"] if k["property"] == p)
    nfix = sum(1 for k in kf["fixed"] if "property=%s " % p in k)
    print("| %s | %s | %s | %s | %s | %d | %d |" % (p, ev["level"], cov.get("obligations", 0), short or "-", cov.get("evaluations", "-"), nopen, nfix))

print()
print("| seeded change | what it breaks (summary by its author) | quick check | caught by |")
print("|---|---|---|---|")
sd = os.path.join(ROOT, "seeded")
for n in sorted(os.listdir(sd)):
    mp = os.path.join(sd, n, "meta.json")
    if not os.path.exists(mp):
        continue
    m = json.load(open(mp))
    r = (m.get("check_results", {}).get("quick") or {}).get(m["property"])
    if not r:
        res, by = "not run", ""
    else:
        res = "exit %d, %d VIOLATION lines" % (r["exit"], len(r["violations"]))
        by = []
        if r["proof_side"]:
            by.append("proof obligations (%d)" % r["proof_side"])
        if r["bounded_side"]:
            by.append("bounded stand-in (%d)" % r["bounded_side"])
        if r["exit"] == 0:
            by = ["MISSED"]
        elif r["exit"] == 2:
            by = ["undecided only (exit 2)"]
        by = ", ".join(by)
    print("| %s | %s | %s | %s |" % (n, (m.get("summary") or "").replace("|", "/").replace("\n", " ")[:170], res, by))


print()
print("| behaviour-preserving change | depth | what it does (summary by its author) | quick check |")
print("|---|---|---|---|")
bd = os.path.join(ROOT, "benign")
tot = {}
for n in sorted(os.listdir(bd)) if os.path.isdir(bd) else []:
    mp = os.path.join(bd, n, "meta.json")
    if not os.path.exists(mp):
        continue
    m = json.load(open(mp))
    r = (m.get("check_results", {}) or {}).get("quick")
    if not r:
        res = "not run"
    else:
        res = {0: "silent (exit 0)", 1: "FALSE ALARM (exit 1)", 2: "undecided (exit 2, %d obligations not re-proved, nothing refuted)" % r.get("n_undecided", 0),
               3: "checker failure (exit 3)"}.get(r["exit"], "exit %s" % r["exit"])
        tot[r["exit"]] = tot.get(r["exit"], 0) + 1
    print("| %s | %s | %s | %s |" % (n, m.get("depth", ""), (m.get("summary") or "").replace("|", "/").replace("\n", " ")[:150], res))
print()
print("benign totals by exit code: %s" % dict(sorted(tot.items())))
