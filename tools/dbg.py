"""development helper: python3-vt tools/dbg.py <file> <qual> [case-substring] -- prints obligations with status and hypotheses of failing ones"""
import sys, os
sys.path.insert(0, os.path.dirname(os.path.dirname(os.path.abspath(__file__))))
from pyvc.cli import load_index
from pyvc.contracts import World
from pyvc.verify import units_for
from pyvc.solve import discharge
ix = load_index(); w = World()
c = ix.by_key[(sys.argv[1], sys.argv[2])]
sel = sys.argv[3] if len(sys.argv) > 3 else ""
verbose = "-v" in sys.argv
for u in units_for(c, ix, w):
    if sel not in u.case.name:
        continue
    print("==", u.case.name, "paths", u.n_paths, "error:", u.error)
    rs = discharge([u], "/dev/shm/pyvc_dbg", timeout=10)
    for r in rs:
        print("  %-10s %-9s %s  %s" % (r.status, r.vc.kind, r.vc.name, [(a[0], a[1], round(a[2], 2)) for a in r.answers] if r.status not in ("proved", "cover-ok", "canary-ok") else ""))
        if r.status not in ("proved", "cover-ok", "canary-ok") or verbose:
            for h in r.vc.hyps:
                print("       H:", h.s[:400])
            print("       G:", r.vc.goal.s[:600])
            print("       file:", r.path)
