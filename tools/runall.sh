#!/bin/sh
# development helper: run every property's quick check on the current /repo and print exit codes
cd "$(dirname "$0")/.." || exit 3
for p in C01 C02 C03 C04 C05 C06 C07 C08 C09 C10 C11 C12 C13 C14 C15 C16 C17 C18 C19 C20; do
  out=$(./check $p --tier ${1:-quick} 2>&1); rc=$?
  echo "$p exit=$rc $(echo "$out" | grep -c '^VIOLATION') violations, $(echo "$out" | grep -c '^KNOWN-FINDING') known; $(echo "$out" | tail -1 | cut -c1-120)"
done
