#!/usr/bin/env python3
"""regenerates /verif/MANIFEST.json from the claims table below (kept valid at all times)"""
import json, os
ROOT = os.path.dirname(os.path.dirname(os.path.abspath(__file__)))
props = [json.loads(l)["id"] for l in open(os.path.join(ROOT, "properties.jsonl"))]

TRUST = ("trusted base: pyvc front end (unverified VC generator), z3 5.1 / z3 4.8.12 / cvc5 1.0.3, CPython ast; "
         "assumptions per run are listed in evidence.assumptions (library contracts, abstract clauses, float treatment)")

CLAIMS = {
    "C06": dict(
        category="proof",
        text="Deductive proof, for all edge arrays / coordinates / weights and dims 1-3, that get_bin_on_value_1d returns the "
             "number of edges <= value minus one (incl. termination), that get_bin_on_value is its pointwise lifting, that "
             "check_edges_increasing raises exactly on non-increasing/too short edges, and that histogram.fill adds the weight to "
             "exactly the containing half-open cell or to n_out_of_range and changes nothing else (frame). VCs are generated from the "
             "real ASTs on every run. The float interpolation guess is abstracted (any integer shift), so rounding cannot matter; "
             "float corner cases and the Histogram element are additionally run as a labelled bounded stand-in.",
        design_ref="DESIGN.md 5 (C06), B.1",
        technique="contract-based deductive verification: AST->SMT verification conditions (loop invariants, decreases, frame) "
                  "discharged by z3/cvc5; bounded run-time contract evaluation as labelled stand-in",
        note=TRUST + "; weight conservation follows from the per-fill postcondition over mathematical reals (float rounding of "
             "+= not modelled); the pairwise-increasing form of the edges invariant is used (adjacent => pairwise by induction, lemma)"),
    "C20": dict(
        category="proof",
        text="Every name-resolution obligation of lena/ is enumerated completely on each run and discharged by a static scope "
             "resolver (symtable + ast): every __all__ entry is bound, every global name loaded by any function/method/class/"
             "module body is bound at module scope or a builtin, every lena.<pkg>.<name> chain resolves inside the static import "
             "closure of the using module's own subpackage. The resolver's import model is cross-validated against sys.modules in "
             "fresh interpreters, and a vocabulary of public elements is run with only its subpackage imported (bounded stand-in). "
             "Eight genuine defects found this way were repaired by fix: commits (known_findings.json).",
        design_ref="DESIGN.md 5 (C20)",
        technique="static obligations per name use, discharged by a scope resolver (finite, complete enumeration); fresh-interpreter "
                  "runs as labelled bounded cross-check",
        note="decided by a static resolver, not an SMT back end; trusted: CPython symtable/ast scoping, python-2 branches folded; "
             "excluded: names injected via globals()[...] (flow/zip.py), attribute errors on instances, module-scope ordering"),
}
NA_REASON = "check not built yet (work in progress; see DESIGN.md section 8)"

def main():
    checks = []
    for p in props:
        if p not in CLAIMS:
            continue
        c = CLAIMS[p]
        checks.append({
            "property_id": p,
            "quick_cmd": "./check %s --tier quick" % p,
            "thorough_cmd": "./check %s --tier thorough" % p,
            "evidence_file": "/verif/evidence/%s.json" % p,
            "replay_cmd_template": "./check %s --replay {path}" % p,
            "engine": "pyvc",
            "level_claimed": {"category": c["category"], "text": c["text"], "design_ref": c["design_ref"]},
            "level_note": c["note"],
            "technique": c["technique"],
        })
    na = [{"property_id": p, "reason": NA.get(p, NA_REASON)} for p in props if p not in CLAIMS]
    m = {"version": 1,
         "setup_cmd": "python3-vt -m compileall -q pyvc contracts bounded >/dev/null 2>&1; which z3-new /usr/bin/z3 /usr/bin/cvc5 >/dev/null",
         "hooks": {"guard": "LENA_VERIF", "enable": "none needed: contracts are sidecar files under /verif/contracts; /repo is parsed "
                   "(prover) and imported unmodified (replay / bounded runner)",
                   "baseline_off_cmd": "cd /repo && /venv/bin/python -m pytest -ra -q -p no:cacheprovider --timeout=900 --continue-on-collection-errors",
                   "source_commits": [], "add_only": True},
         "engines": [{"name": "pyvc", "path": "/verif/pyvc", "serves_properties": sorted(CLAIMS),
                      "kind_free_text": "verification-condition generator for a Python subset over the real ASTs of /repo + sidecar "
                                        "contracts, SMT-LIB to z3/cvc5; native replay; bounded contract runner as labelled stand-in"}],
         "checks": checks,
         "notes": "exit codes of ./check: 0 held, 1 violation, 2 undecided (obligation neither proved nor refuted), 3 checker failure",
         "not_applicable": na}
    json.dump(m, open(os.path.join(ROOT, "MANIFEST.json"), "w"), indent=1)

NA = {}
if __name__ == "__main__":
    main()
