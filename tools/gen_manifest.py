#!/usr/bin/env python3
"""regenerates /verif/MANIFEST.json from the claims table below (kept valid at all times)"""
import json, os
ROOT = os.path.dirname(os.path.dirname(os.path.abspath(__file__)))
props = [json.loads(l)["id"] for l in open(os.path.join(ROOT, "properties.jsonl"))]

TRUST = ("trusted base: pyvc front end (unverified VC generator), z3 5.1 / z3 4.8.12 / cvc5 1.0.3, CPython ast; "
         "assumptions per run are listed in evidence.assumptions (library contracts, abstract clauses, float treatment)")

TECH = ("contract-based deductive verification: sidecar contracts on the real functions, verification conditions generated "
        "from the /repo ASTs on every run (pre/postconditions, exact raise conditions, frames, loop invariants, decreases, "
        "object invariants, laziness / identity clauses at yields, abandonment clauses, ownership clauses, ghost element "
        "state and ghost file system, lemmas with induction over the contracts), discharged by z3 5.1 / z3 4.8.12 / cvc5; "
        "bounded run-time evaluation of reference specifications on the real code as labelled stand-in (never counted as "
        "proved)")
ASM = ("; every assumption of a run (library contracts, assumed contracts of callees not yet proved, helpers executed in place, "
       "opaque regions, termination not proved, floats as mathematical reals, typing preconditions of inputs) is listed in "
       "evidence.assumptions; functions and cases under contract are listed in evidence.coverage.functions_under_contract")


def claim(category, text, ref, note=""):
    return dict(category=category, text=text, design_ref=ref, technique=TECH, note=TRUST + ASM + ("; " + note if note else ""))


CLAIMS = {}
CLAIMS["C01"] = claim("proof",
    "Deductive proof over the abstract element interface (an element denotes a stream function el_run / a map el_call / a fold "
    "el_fill+el_compute): Sequence.run returns, for element lists and flows of any length, exactly the left-to-right fold "
    "seq_run(_data_seq, flow), pulls nothing while building the chain and always hands the first element an iterator; "
    "Run._call_run maps, Run._fc_run fills every value in order and then computes; Source.__init__ keeps the first element itself "
    "and builds the tail Sequence of the rest, Source.__call__ feeds first() (or the iterable, afresh on every call) into the "
    "tail's fold; Run.__init__ and Sequence.__init__ (argument lists of length 0..2 unrolled, every element kind) accept exactly "
    "the convertible kinds, keep order, drop _has_no_data elements and raise LenaTypeError at construction for anything else; "
    "flatten keeps every element once and in order (flat input = same object) and alter_sequence without hooks returns the "
    "original object (arity-wise cases 0..3); regrouping lemmas R1-R3 (induction): seq_run of a concatenation is the "
    "composition of the seq_runs, hence a Sequence holding a nested Sequence runs like the flat one. Bounded part (labelled): "
    "all bracketings of lists <= 3 over 20 concrete element kinds, every way of feeding (iterator, list, generator, dict view, "
    "iter-only object, Source forms, repeated calls), ill-typed arguments incl. containers of elements.",
    "DESIGN.md 0.3, 5 (C01), B.2", "element interface assumption (DESIGN 2.4 item 4); constructors proved for 0..2 (3) arguments (unrolled)")
CLAIMS["C02"] = claim("other",
    "Proof part (clauses stated AT THE YIELDS, hence valid for every consumer stop point k and for infinite inputs): "
    "Sequence.run / Source.__call__ pull nothing while the chain is built; Run._call_run has pulled exactly k values at the "
    "k-th result; Slice.run for every non-negative start/stop/step has pulled exactly start + k*step + 1 values at the k-th "
    "result and never more than max(start, stop); Slice._run_negative_islice lags its input by exactly |stop| values and keeps "
    "at most |index| values in its deque, a negative start with non-negative stop reads at most stop - start + 1 values; "
    "Count.run keeps exactly one value of look-ahead; Filter.run, RunIf.run, Progress, End, CountFrom, RunningChunkBy (one "
    "look-ahead) likewise; Cache.run does not touch the incoming flow when the cache exists; FillRequest runs hand results on "
    "only at block boundaries; Split.run reads its input only by list(islice(flow, bufsize)) at the start of a block and at "
    "every yield at most bufsize x (blocks started) values have been pulled. Not a lemma: the composition of these clauses "
    "over arbitrary pipelines (user elements have no laziness contract). Bounded part (labelled): an independent list-level "
    "oracle computes by brute force the shortest determining prefix and composes it through all singles / pairs / triples of "
    "59 element instances and 2500 (thorough 40000) random pipelines, finite and infinite inputs, every k; weak-reference "
    "liveness for negative Slice and Split.",
    "DESIGN.md 0.3, 5 (C02)", "itertools.islice / count / chain / zip / collections.deque are library contracts (pull counts checked "
    "against CPython 3.12); garbage-collector liveness is observable only by the bounded part")
CLAIMS["C03"] = claim("other",
    "Proof part: _get_seq_with_type (priority table for an element and for a tuple of two elements), Split.__init__ / "
    "Zip.__init__ (0..2 branches: stored branches and types, which common-type methods are installed, exact LenaTypeError / "
    "LenaValueError conditions) against the proved constructors of FillComputeSeq / FillRequestSeq; Split.run for ANY number of "
    "branches of any kind: every fill receives the block's values in order, run receives exactly the current block, a Source "
    "is called only in the first block (or the final pass of an empty flow), compute is called only in the state "
    "fill_until_stop(branch, entry state, whole flow) - the bufsize independence of fill/compute branches -, request only after "
    "the block was filled until the branch stopped, a branch is dropped iff it is a Source or one of its fills stopped, every "
    "`for val in result: yield val` extends the output by exactly that result in order, the whole flow is consumed, laziness "
    "at every yield; result-level: the empty flow (concatenation in branch order of every branch invoked once), one fill/compute "
    "branch for every bufsize, one Source branch, one fill/request branch within one block; Split._fill / _compute / _request / "
    "__call__ and Zip._fill / _yield / _compute / _request / _reset (tuples of the k-th results, stops with the shortest, (data, "
    "context) iff the common context is non-empty). NOT proved: out == split_spec for mixed multi-branch multi-block runs as one "
    "equation (the clauses above pin every call and yield instead). Bounded part (labelled): Split.run against split_spec "
    "exhaustively over branch lists of length 0..3 (thorough 0..4), all 26 branch forms, LenaStopFill at every fill index, "
    "bufsize in {1..L+1, 1000, None}, flows 0..4; bufsize independence; empty Split = identity; Zip tuples.",
    "DESIGN.md 0.3, 5 (C03), Appendix A", "branches are pairwise different objects (precondition); constructors for 0..2 branches (unrolled)")
CLAIMS["C04"] = claim("other",
    "Proof part: Split.run / Split._fill / Zip._fill - what every branch but the last active one iterates or is filled with is a "
    "deep copy made for it in that iteration (is_deep_copy + made_in_iteration at every element call) unless copy_buf is off; at "
    "every yield of the compute() of Sum, DSum, Mean (incl. user sum_seq), Count, VarianceMeanCount, Vectorize, Histogram, Graph, "
    "StoreFilled (the group list), SplitIntoBins.compute and of MapBins.run the yielded context is an object created during "
    "the call by deep copy, not the stored / filled one and not one yielded before (is_fresh, is_deep_copy, made_in_iteration), "
    "also when one call yields several results; the stored context is unchanged. Bounded part (labelled): object-identity "
    "graphs (ids of every dict / list reachable) of yielded vs filled contexts and earlier yields for 33 accumulator "
    "configurations over all histories of length <= 4 (thorough <= 6) of fill / compute / mutate-everything-yielded; Split / "
    "Zip branches with in-place mutators driven by run, fill and request against the branch alone on a private copy.",
    "DESIGN.md 0.3, 5 (C04)", "copy.deepcopy is a library contract; sharing nested inside dictionary VALUES is modelled by provenance "
    "of cells, not by reachability sets (DESIGN 0.7): the bounded identity graphs cover that; branches mutate only what they reach")
CLAIMS["C05"] = claim("other",
    "Proof part: Run, Call, SourceEl, FillCompute, FillInto accept exactly the documented kinds, bind exactly the named method "
    "in the documented priority and raise LenaTypeError at construction otherwise (complete over the predicate space callable / "
    "has_attr); Call.__call__, FillInto.fill_into / _run_fill_into, Filter.fill_into, Slice.fill_into, Count.fill_into delegate "
    "as documented; FillSeq.__init__ (chain of _Fill links, 1..3 elements), FillComputeSeq.__init__ and FillRequestSeq.__init__ / "
    "_init_sequence_with_el (where the accumulator is found, FillSeq before it, Sequence after it, exact LenaTypeError / "
    "LenaValueError conditions), their fill / compute / request / reset; lemmas over the contracts: a FillComputeSeq(f.., acc, "
    "post..) filled value by value and then computed yields exactly what Sequence(f.., acc, post..).run yields (0, 1, 2 "
    "callables before the accumulator); Split.run with one fill/compute branch equals el_compute(fill_until_stop(...)) for "
    "every bufsize. Not in the lemma: pre-elements with their own fill_into (Filter, Slice) stopping with LenaStopFill. Bounded "
    "part (labelled): the three drivers on all chains pre* acc post* with <= 2 pre elements (thorough <= 3) over 14..33 pre "
    "kinds, 6..15 accumulators, flows 0..5, against a list-level reference; synthetic element kinds incl. falsy ones.",
    "DESIGN.md 0.3, 5 (C05), B.2", "element interface assumption (DESIGN 2.4 item 4)")
CLAIMS["C06"] = claim("proof",
    "Deductive proof, for all edge arrays / coordinates / weights and dims 1-3, that get_bin_on_value_1d returns the number of "
    "edges <= value minus one (incl. termination), that get_bin_on_value is its pointwise lifting, that check_edges_increasing "
    "raises exactly on non-increasing / too short edges, that histogram.fill adds the weight to exactly the containing half-open "
    "cell or to n_out_of_range and changes nothing else (frame), the Histogram element's fill, histogram.__init__ (1-d, 2-d) and "
    "init_bins / get_bin_on_index. The float interpolation guess is abstracted (any integer shift), so rounding of the guess "
    "cannot matter. Bounded part (labelled): float corner coordinates (nextafter neighbours, 1e-300 .. 1e300, integers beyond "
    "2**53), every call under a watchdog.",
    "DESIGN.md 0.3, 5 (C06), B.1", "weight conservation follows from the per-fill postcondition over mathematical reals (float "
    "rounding of += not modelled)")
CLAIMS["C07"] = claim("other",
    "Proof part (SMT datatype Val = scalar | dict, unbounded depth and key sets, every level): difference == diff, "
    "update_recursively makes d == upd(old d, other) (also for the dotted-string forms), intersection of 0..3 dictionaries == "
    "inter (folded), is a deep copy and leaves its arguments unchanged, update_nested keeps the previous d[key] reachable "
    "under the new one, exact LenaTypeError / LenaValueError conditions; the reference functions are written from the property "
    "text; lemmas by structural induction: inter is idempotent, commutative, associative, absorbing; upd(inter(d1, d2), "
    "diff(d1, d2)) == d1; results are dictionaries. Users: LenaSplit._get_context (intersection of the branch contexts), "
    "group_plots. Bounded part (labelled): intersection for any number of arguments, the laws and deep-copy by object identity "
    "exhaustively over the property's small alphabets, Zip._create_context.",
    "DESIGN.md 0.3, 5 (C07), B.5", "only z3 decides Val queries (cvc5 1.0.3 rejects the nested-recursive datatype); dict iteration = "
    "arbitrary unvisited key per step; intersection of more than 3 dictionaries and Zip._create_context are not proved")
CLAIMS["C08"] = claim("other",
    "Proof part: get_recursively (list of keys, dotted string, with / without default) == walk of the key path, exact "
    "LenaKeyError / LenaTypeError; contains agrees with that walk; str_to_list / str_to_dict against nestk, law "
    "get_recursively(str_to_dict(s, v), s) is v (none of its exception outcomes can occur); to_string == json canonical form "
    "(sort_keys, separators checked at the call of json.dumps); format_context: the parser run from the real AST on literal "
    "templates (8 well-formed, 9 malformed) and the returned closure for every field list (LenaKeyError iff an addressed item is "
    "absent, LenaValueError iff str.format raises, LenaTypeError iff the context is no dictionary); format_update_with (plain "
    "values, templates, string values), DeleteContext.__call__, UpdateContext.__init__ / __call__ (simple values, context "
    "values with default / skip / raise, plain and jinja strings), UpdateContextFromStatic.run: exactly the addressed item "
    "changes, data and every other item untouched, the stored update is deep-copied. Key-path lemmas (walk / store). Bounded part "
    "(labelled): the three notations over all dotted strings of <= 4 components, format_context on all template strings of "
    "length <= 5, to_string injective, UpdateContext over all 48 option combinations, frame by object identity.",
    "DESIGN.md 0.3, 5 (C08), B.5", "str.format / json.dumps / jinja2 rendering are uninterpreted library functions with named "
    "exceptions; format_context on a SYMBOLIC template is an assumed contract; the bare-data variants of two UpdateContext views are bounded only")
CLAIMS["C09"] = claim("proof",
    "Deductive proof for Sum, DSum, Mean (ordinary and with a user sum_seq), VarianceMeanCount, Vectorize (list of sequences or "
    "element x dim; construct None), Count, StoreFilled, GroupBy, Histogram (1-d / 2-d fill; initial value, initial bins, "
    "make_bins), Graph: __init__, fill (bare data and (data, context) pairs), compute and reset against the documented "
    "aggregate over mathematical reals (Sum = left fold of + in fill order; DSum = exact decimal sum with the Inexact trap; "
    "Mean = sum/count; VarianceMeanCount = Q/n - (S/n)^2, corrected by n/(n-1); Vectorize = row j holds the j-th result of "
    "every component or None; GroupBy = groups keyed by the selected sub-context, arrival order kept; exact "
    "LenaZeroDivisionError / LenaTypeError / LenaValueError conditions), with the context of the last filled value extended only "
    "by the element's own keys; compute leaves the aggregate untouched (frame); 12 lemmas: after reset() every state field "
    "equals that of a newly constructed element (or, for elements over abstract components, reset forgets the history). Bounded "
    "part (labelled): all histories of length <= 5 (thorough <= 7) over {fill bare, fill with context, compute, reset} for 37 "
    "configurations against references from the property text; DSum against exact Fraction sums.",
    "DESIGN.md 0.3, 5 (C09), B.6", "floats as mathematical reals (CPython 3.12's compensated builtin sum is not the reference); decimal "
    "is a library contract (termination of DSum's precision loop rests on dec_inexact(x, p) <=> p < digits(x)); Vectorize with "
    "`construct` and 3-d Histogram.reset are bounded only")
CLAIMS["C10"] = claim("other",
    "Proof part: for ToCSV.run, Write.run, RenderLaTeX.run (user select_data and default csv test), LaTeXToPDF.run, PDFToPNG.run, "
    "HistToGraph.run, MapBins.run, IterateBins.run, RunIf.run, MapGroup.run (map_scalars off), GroupPlots.run - with the SELECTION "
    "TEST executed from the real AST - at every yield: a value that is not selected is yielded as the very same object, exactly "
    "one value per input value in order (pulled(flow) == i + 1), the ghost file system and the value's context are unchanged, no "
    "field of self is modified (frame); what is produced for a selected value is stated from the current value and the "
    "element's configuration only (every loop-carried local is unknown at the loop head, so state carried between iterations "
    "breaks the equation); the (data, context) rule itself (_has_context / get_data_context / get_data / get_context) on 13 "
    "concretely typed shapes. Abstracted and listed as assumptions: CSV text, jinja rendering, subprocess commands, the "
    "process pool of LaTeXToPDF and the real-group branch of MapGroup (opaque regions). Bounded part (labelled): for 25 "
    "configurations run(interleave(A, B)) == interleave(run(A), B) over all 69 interleavings of <= 3 selected with <= 3 "
    "unselected values of 30+ kinds (incl. look-alike lists, options and directories carried by unselected values).",
    "DESIGN.md 0.3, 5 (C10)", "converters are stubs in the bounded part; only the working directory is snapshotted")
CLAIMS["C11"] = claim("other",
    "Proof part: get_bin_on_value(_1d) (C06); SplitIntoBins.__init__ (every cell a pairwise distinct deep copy of the sequence, "
    "exact LenaValueError / LenaTypeError), SplitIntoBins.fill (1-d, 2-d: exactly the cell whose half-open interval holds the "
    "argument is filled, with a deep copy of the context; out-of-range values change nothing), SplitIntoBins.compute (1-d; 2-d "
    "with two rows: cell k holds the k-th result of that cell's sequence, edges are self.edges, number of yields = shortest "
    "cell, context.variable describes the argument variable, every yielded context a new deep copy, a second compute yields the "
    "same), _MdSeqMap, MapBins.run (same shape, deep-copied edges, every cell mapped by its own copy of the sequence), "
    "IterateBins.run (1-d: one value per cell with its own edges in context.bin), get_example_bin, iter_bins_with_edges, "
    "cell_to_string, init_bins. Bounded part (labelled): SplitIntoBins against an independent private copy of the analysis per "
    "cell on that cell's sub-flow, exhaustively for all 11 increasing 1-d edge lists over {0..3} with flows of length <= 3 "
    "(thorough <= 4), 9 2-d edge pairs, 11 analyses x 7 argument variables, integer coordinates beyond 2**53, IterateBins, "
    "MapBins, md_map. One open known finding (IterateBins on a 2-d histogram of a plain Variable).",
    "DESIGN.md 0.3, 5 (C11)", "2-d with both lengths symbolic, IterateBins 2-d and 3-d are bounded only")
CLAIMS["C12"] = claim("other",
    "Proof part: histogram.__init__ / scale / add / get_nevents / set_nevents, integral, iter_bins for 1-d and 2-d histograms "
    "(cell-wise a + w*b, operands unmodified, LenaValueError iff edges differ beyond the given tolerances via isclose; scale "
    "multiplies exactly bins and n_out_of_range by s / old scale, LenaValueError iff the old scale is 0, the recomputed scale "
    "equals s - scaling lemmas for lsum / integral1d / integral2d by induction); iter_bins_with_edges, iter_cells (1-d, all "
    "range typings); graph.__init__ (12 shapes x scale; which error field belongs to which coordinate; exact LenaValueError), "
    "graph.scale (53 cases: exactly the last coordinate and ITS error columns are multiplied, every other column untouched, "
    "aliased columns), hist_to_graph (1-d, all get_coordinate modes, make_value variants), hist1d_to_csv, hist2d_to_csv "
    "(row-major reference incl. rectangular shapes and the duplicated last-edge rows), iterable_to_table, ScaleTo.__call__, "
    "scale_to on groups, md_map. Number formatting is an uninterpreted function (assumption). Bounded part (labelled): all of the "
    "above exhaustively over all shapes of dims 1-3 with 1..3 bins per axis (thorough 1..4) against exact Fraction arithmetic, "
    "2212 error-field namings, tolerance semantics at magnitudes 1e-10 .. 1e6, CSV parse-back.",
    "DESIGN.md 0.3, 5 (C12)", "3-d histograms, iter_cells / iter_bins_with_edges in 2-d, field names given as one string are bounded only")
CLAIMS["C13"] = claim("other",
    "Proof part: LenaSequence._set_context for any number of elements against the document-order fold (the context handed to "
    "each element is the fold of the prefix and is non-empty; _get_context of an element replaces it; an unresolved key is "
    "remembered and raised as LenaKeyError; lemma: nothing changes after a stop); LenaSequence / SetContext ._get_context return "
    "a deep copy; SetContext._set_context (numbers, booleans, dictionaries, strings, templates: context == upd(old, nestk(key, "
    "value)), exact LenaValueError / LenaTypeError); StoreContext, UpdateContextFromStatic (_set_context and run), MakeFilename "
    "retain a deep copy of what they are given and leave the argument unchanged; Write._set_context / Cache._set_context derive "
    "the directory / file name from exactly the context they are handed (kept when a key is missing) and keep no reference to "
    "it; LenaSplit._set_context hands every branch its "
    "own deep copy, LenaSplit._get_context is the intersection of the branches' contexts. Bounded part (labelled): ALL trees of "
    "Sequence / Source / Split with <= 4 nodes (thorough <= 5), depth <= 3, over 6 SetContext forms with all 9 probes in every "
    "gap, against a pure document-order fold; files actually written by Write and Cache. Three open known findings (empty Split "
    "erases the context; Source tail re-threads the context; sibling branch after an unresolved key, depth 4).",
    "DESIGN.md 0.3, 5 (C13)", "the abstract element model leaves an element's state unchanged when its _set_context raises")
CLAIMS["C14"] = claim("other",
    "Proof part: Variable.__init__ (well-formed var_context, LenaTypeError conditions), Variable.__call__ (getter(data) with the "
    "value's own context object, nothing of it changed but context.variable, the variable itself unchanged), "
    "Variable._update_context PROVED against a postcondition from the property text (no history: the variable's own context; "
    "typed history and typed variable: compose == old compose (or [old type]) ++ own compose (or [own type]), every composed "
    "variable's attributes stay under its type; nothing else of the context changes; var_context not shared), Compose.__init__ "
    "for 1 and 2 variables with and without name= (the getter is vn.getter(...v1.getter(x)...), the new var_context satisfies "
    "the same clauses as applying the variables one after the other - Compose == Sequence for n = 2). Bounded part (labelled): "
    "Compose vs Sequence vs the fold of tagged getters for all chains of 1..5 variables over 3 type alphabets x 4 attribute "
    "sets x 10 value contexts, Combine of 1..4, nested forms, repeated application. One open known finding (chains with "
    "untyped variables after a typed context.variable; that region is left unspecified by the contract).",
    "DESIGN.md 0.3, 5 (C14)", "Combine (class __setattr__, lambda getter) and Compose for n > 2 are bounded only")
CLAIMS["C15"] = claim("other",
    "Proof part: Selector.__init__ (13 typings of the specification: class, callable, string, list = Or, tuple = And, Selector "
    "object; LenaTypeError otherwise), And / Or / Not __init__ and __call__ (short circuit, a member's error propagates only "
    "if reached and raise_on_error), Selector.__call__, five lemmas Selector(spec)(v) == the property's reference; contains "
    "(string leaf); SelectContext.__init__ / __call__ (absent sub-context = False, an exception of the predicate - LenaKeyError "
    "included - is the predicate's error); Filter.__init__ / run / fill_into (keeps exactly the selected values, by identity, in "
    "order); IncludeExcludeTree.get == sel(tree, context) (reference from the docstrings), lemmas: two contexts have equal "
    "selections exactly when they agree on every selected path; IncludeExcludeTree.__init__, _split_key, _startswith, "
    "_group_by_starting_prefixes (insensitive to the order of the listed paths), make_include_exclude_tree / GroupBy.__init__ "
    "(15 typings) against the recursive core assumed deterministic, GroupBy.fill / compute / reset. NOT proved: "
    "_make_include_exclude_tree, hence the link from (group_by, merge) to the longest-listed-prefix rule. Bounded part "
    "(labelled): Selector / And / Or / Not / SelectContext / Filter against a three-valued reference evaluator over all "
    "specifications of nesting <= 2 (sampled 3); GroupBy against the longest-listed-prefix partition for every group_by / merge "
    "labelling of <= 2 (thorough <= 4) of the 14 key paths over {a, b}, 361 contexts each.",
    "DESIGN.md 0.3, 5 (C15)")
CLAIMS["C16"] = claim("other",
    "Proof part: FillRequest.__init__ (9 option typings: methods / run variant installed, exact LenaTypeError / LenaValueError), "
    "reset, fill (buffer_input; buffer_output within a block), request (buffer_output with nothing buffered; buffer_input at "
    "complete blocks: every yield is the k-th result of the request made on the state folded from exactly that block; incomplete "
    "block: nothing yielded), _run_fill_compute (states between blocks == fr_start, every filled value is the one just pulled, "
    "one request per block at its end or - with yield_on_remainder - at the flow's end, reset only after a complete block iff "
    "reset, call counters fills == pulled, output positions, laziness), _run_run (buffer_input; yield_on_remainder under "
    "reads_all), FillRequestSeq.request / reset, FillComputeSeq.compute, _Fill.fill. The clauses that FAIL on the unchanged tree "
    "are kept apart (props=[]) and coincide with the three open known findings (buffer_output fill past a full block hangs; "
    "buffer_input after a misaligned request; run element that does not exhaust its block). Bounded part (labelled): run against "
    "blocks_spec for all element kinds, bufsize 1..5, both buffer modes, reset, yield_on_remainder, flows 0..11 (thorough "
    "0..16); fill()/request() under ALL request schedules (L <= 6, thorough <= 10) with a step watchdog; Split around a "
    "FillRequest branch.",
    "DESIGN.md 0.3, 5 (C16)", "_run_run with buffer_output (function-local iterator class) is bounded only")
CLAIMS["C17"] = claim("proof",
    "Deductive proof: Slice.__init__ (14 typings: LenaValueError iff the step is an int <= 0; the progression fill_into walks; for "
    "negative indices _start / _stop / _step and - for step 1 - that run delegates to _run_negative_islice), "
    "Slice.run for non-negative arguments (out[k] is xs[start + k*step] by identity, length as python's slice), "
    "Slice._run_negative_islice for all six sign branches (out == content(flow)[start:stop] elementwise by identity with python's "
    "clamping; that run is bound to islice over it for a negative index with step > 1 is covered by the bounded part only), Slice.fill_into (fills iff the running index is in "
    "range(start, stop, step), LenaStopFill exactly when no later index is selected), Reverse.run (reversed, terminates), "
    "Chain (concatenation by identity), CountFrom (start + k*step, never ends, TypeError conditions), RunningChunkBy.run (k-th "
    "result = container of xs[k:k+size], max(0, n - size + 1) results; tuple and abstract containers). Bounded part (labelled): "
    "the property's whole finite domain - start, stop in {None, -7..7}, step in {None, 1..4}, flows 0..10 - enumerated "
    "completely (exhaustive: true), constructor rejections, container kinds.",
    "DESIGN.md 0.3, 5 (C17), B.3", "itertools.islice / count / chain / zip and collections.deque are library contracts")
CLAIMS["C18"] = claim("proof",
    "Deductive proof over a ghost file system (path -> absent | sequence of pickled values; open / pickle / os.replace / "
    "os.remove / os.access are library contracts): Cache._dump_flow_and_yield passes the flow unaltered and lazily, keeps the "
    "values seen so far in a temporary file, and stores the whole flow under the cache name only on exhaustion; at EVERY yield "
    "(= every consumer stop point k and every downstream raise, explored as GeneratorExit travelling through the function's "
    "try/finally) and when the upstream raises while the next value is pulled, the cache name holds exactly what it held before "
    "and no temporary file is left - so no truncated flow can ever be served. Cache._load_flow yields exactly the stored values "
    "in order and terminates; Cache.run replays the stored flow without pulling a single value from the incoming flow and "
    "without touching the file system when the cache exists and recompute is off; cache_exists / drop_cache as documented; "
    "Cache.alter_sequence hoists the last filled, non-recompute Cache into Source(SourceEl(cache, '_load_flow'), rest) and "
    "otherwise returns the same object. Bounded part (labelled): histories of first / repeated / recompute / drop runs with "
    "every crash point on a real temp directory in 17 forms incl. alter_sequence hoisting and Split, one and two caches, "
    "flows re-yielding one mutated object.",
    "DESIGN.md 0.3, 5 (C18), B.7", "the ghost file system stands for the OS: real files, interpreter death and buffering are "
    "exercised only by the bounded part; alter_sequence for sequences of symbolic length is bounded")
CLAIMS["C19"] = claim("other",
    "Proof part (ghost file system; every clause holds AT THE YIELD of each value): Write.run (unselected / already written "
    "values pass untouched; for a written value the file at the yielded path exists and holds exactly the current data, no other "
    "file is touched, an existing file with the same content is not rewritten, output.changed as documented for existing "
    "files), Write.run.is_writable and Write._make_filename PROVED (fileext / filename / dirname defaults, filepath = "
    "join(output_directory, dirname, filename.fileext), LenaRuntimeError iff the filename is empty), Write._write_data; "
    "MakeFilename.__init__ (34 cases) / __call__ (20 configurations of 1..2 keys: existing names kept unless overwrite, an "
    "unformattable key leaves everything untouched incl. pending prefix / suffix, filename = prefix + name + suffix with the "
    "consumed prefix / suffix deleted; lemma: a pending suffix is applied exactly once) / _set_context; LaTeXToPDF.run (a TeX "
    "file is passed on at once only if not overwrite, the pdf exists and nothing changed - output.changed or the mtime "
    "comparison -, otherwise the pdf exists afterwards and changed = True), PDFToPNG.run (redo iff target missing, overwrite or "
    "changed), RenderLaTeX.run, group_plots / _update_with_group (the group's changed flag is the OR of its members'), "
    "GroupPlots.run, GroupScale. One open known finding (Write leaves output.changed unset when it CREATES a file: the repair "
    "contradicts an existing test) - the proved `changed` clauses are stated for existing files. Bounded part (labelled): the "
    "real pipeline and its group variant on a temp directory with recording stub converters over all histories of 1..2 runs "
    "(thorough 1..3) of keep/change data, keep/change template, delete any subset of {csv, tex, pdf, png}.",
    "DESIGN.md 0.3, 5 (C19), B.7", "names are relative paths (precondition); the process pool of LaTeXToPDF and the converter commands are "
    "assumed actions; MakeFilename configurations of >= 3 keys proved once (75 s / 200 s each) and left to the bounded part")
CLAIMS["C20"] = dict(
    category="proof",
    text="Every name-resolution obligation of lena/ is enumerated completely on each run and discharged by a static scope "
         "resolver (symtable + ast): every __all__ entry is bound, every global name loaded by any function/method/class/"
         "module body is bound at module scope or a builtin (scope-aware: comprehension variables do not leak), every "
         "lena.<pkg>.<name> chain resolves inside the static import closure of the using module's own subpackage. The "
         "resolver's import model is cross-validated against sys.modules in fresh interpreters, and a vocabulary of public "
         "elements is run with only its subpackage imported (bounded stand-in). Eight genuine defects found this way were "
         "repaired by fix: commits (known_findings.json).",
    design_ref="DESIGN.md 5 (C20)",
    technique="static obligations per name use, discharged by a scope resolver (finite, complete enumeration); fresh-interpreter "
              "runs as labelled bounded cross-check",
    note="decided by a static resolver, not an SMT back end; trusted: CPython symtable/ast scoping, python-2 branches folded; "
         "excluded: names injected via globals()[...] (flow/zip.py), attribute errors on instances, module-scope ordering")

# what the third build session added to each claim (DESIGN.md 0.8); appended to the claim text
ADDENDA = {
 "C01": "the six check_sequence_type predicates (exact documented tests, no exception; callers go through the contracts), LenaSequence.__init__ / __iter__ / __getitem__, __eq__ of the six sequence classes, Run.run / Run.__eq__, SourceEl.__call__; bounded: plain callables returning generators / iterators / containers composed 5 ways (a callable is a map)",
 "C02": "DropContext._make_iterator (one value pulled per value handed on), the nested fill_deque of the negative Slice, End.__eq__; bounded: sized lazy iterables (__len__ + generator __iter__) as flows",
 "C03": "LenaSplit.__init__ proved (was assumed), check_sequence_type predicates, Zip._create_data, Zip._create_context under the precondition that the common context has no `zip` item (the assumed summary stays for the Zip._yield callers)",
 "C05": "FillCompute / FillRequest placeholders, _Fill.__init__, Run.__eq__, LenaSequence.__init__, SourceEl.__call__",
 "C06": "Histogram.reset (three ways of construction) and Histogram.__init__ of the ELEMENT now run under C06 (a reset installs a new structure with n_out_of_range 0), clip, mesh / mesh_1d, refine_mesh, unify_1_md; bounded: fill / compute / reset histories of the element built from edges, initial bins, make_bins and initial_value",
 "C07": "intersection for a list of dictionaries and for (d1, d2, level) proved from the real body against the left fold of the binary reference; bounded: arguments that hold one sub-dictionary object under two keys",
 "C08": "Context.__getattr__ / __setattr__ / _repr_nested, DeleteContext.__init__, UpdateContext.__eq__",
 "C09": "__eq__ of Sum / DSum / Count / StoreFilled / VarianceMeanCount / GroupBy as exact iff over the documented state, Sum.total / DSum.total, StoreFilled.__init__, GroupBy.clear / update, _maybe_with_context, lemmas `after reset() the element == a newly constructed one` through the proved __eq__",
 "C10": "constructors and option handling of RunIf, MapGroup, GroupPlots, HistToGraph, MapBins, IterateBins, ToCSV, Write / Writer, PDFToPNG, LaTeXToPDF, RenderLaTeX (they establish the invariants the run contracts start from; defaults lemmas construct each element with the parameters omitted), is_pdf / is_tex_file, _select_template_or_default, DropContext.__init__ / _make_iterator, raise_on_usage; bounded: histograms whose bin content is a list as unselected values",
 "C11": "md_map for 3-dimensional lists and its LenaTypeError cases (now also under C11), get_example_bin on histograms / lists of numbers; bounded: the argument Variable is left as given, repeated compute() yields the same context.variable, flows carrying a typed context.variable",
 "C12": "graph._parse_error_names / _get_err_indices / __add__ / __eq__ / __iter__ / rows, histogram.__eq__, _isclose (the PEP 485 formula, symmetric), meshes.flatten, hist2d_to_csv.format_line, iterable_to_table for rows of numbers, Graph.points / scale[get] / unpack_pt of the deprecated Graph",
 "C13": "MakeFilename.__call__ (frame: the stored static context is the same after every value), constructors and __eq__ of SetContext / StoreContext / UpdateContextFromStatic, Cache.__init__, LenaSplit._get_context against the PROVED intersection of a list of dictionaries; bounded: run-time values carrying items under a nested static key",
 "C14": "Combine.__init__ (the combined getter returns the tuple of the variables' data in order, every variable's description kept as a deep copy under combine, dim, name default, LenaTypeError cases) with its getter lambda, Combine.__getitem__, Variable.__setattr__ / __repr__",
 "C15": "_GroupBy.__init__ with its nested closures (string / callable / tuple grouping functions), __eq__ of Selector / And / Or / Not / Filter / IncludeExcludeTree / GroupBy; bounded: chains of 3..4 nested listed keys with alternating kinds in every order of writing them",
 "C16": "FillRequest._run_run.slice_iterated_with_count (hands on min(size, remaining) values, counts exactly those, reads nothing ahead), the FillRequest.run placeholder, check_sequence_type predicates",
 "C17": "RunningChunkBy.__init__, Reverse.__init__, __eq__ of Slice / Chain / CountFrom / Reverse / End, the nested fill_deque",
 "C18": "Cache.__init__; the generators are re-entrant (ghost suspended_changes: self._filename may be re-bound by other code while the generator is suspended at a yield) and every clause speaks about the name the Cache had when the run started; SourceEl.__init__ / Source.__init__ with a Cache first proved (were assumed)",
 "C19": "update_recursively[d, 'output.changed', flag] proved from the real body (was assumed, and the assumed clause was wrong for dictionary values), _run_command and LaTeXToPDF.run.launch over the ghost file system (subprocess.Popen starts exactly the given command line once), constructors of Write / PDFToPNG / LaTeXToPDF / RenderLaTeX / GroupPlots / MapGroup; bounded: PDFToPNG with formats other than png",
}
for _p, _t in ADDENDA.items():
    if _p in CLAIMS:
        CLAIMS[_p]["text"] += " Added in the third session (DESIGN.md 0.8) - proof part: " + _t + "."
NA_REASON = "check not built yet (work in progress; see DESIGN.md section 8)"

def main():
    checks = []
    for p in props:
        if p not in CLAIMS:
            continue
        c = CLAIMS[p]
        checks.append({
            "property_id": p,
            "quick_cmd": "./check %s --tier quick" % p,
            "thorough_cmd": "./check %s --tier thorough" % p,
            "evidence_file": "/verif/evidence/%s.json" % p,
            "replay_cmd_template": "./check %s --replay {path}" % p,
            "engine": "pyvc",
            "level_claimed": {"category": c["category"], "text": c["text"], "design_ref": c["design_ref"]},
            "level_note": c["note"],
            "technique": c["technique"],
        })
    na = [{"property_id": p, "reason": NA.get(p, NA_REASON)} for p in props if p not in CLAIMS]
    m = {"version": 1,
         "setup_cmd": "python3-vt -m compileall -q pyvc contracts bounded >/dev/null 2>&1; which z3-new /usr/bin/z3 /usr/bin/cvc5 >/dev/null",
         "hooks": {"guard": "LENA_VERIF", "enable": "none needed: contracts are sidecar files under /verif/contracts; /repo is parsed "
                   "(prover) and imported unmodified (replay / bounded runner)",
                   "baseline_off_cmd": "cd /repo && /venv/bin/python -m pytest -ra -q -p no:cacheprovider --timeout=900 --continue-on-collection-errors",
                   "source_commits": [], "add_only": True},
         "engines": [{"name": "pyvc", "path": "/verif/pyvc", "serves_properties": sorted(CLAIMS),
                      "kind_free_text": "verification-condition generator for a Python subset over the real ASTs of /repo + sidecar "
                                        "contracts, SMT-LIB to z3/cvc5; native replay; bounded contract runner as labelled stand-in"}],
         "checks": checks,
         "notes": "exit codes of ./check: 0 held, 1 violation, 2 undecided (obligation neither proved nor refuted), 3 checker failure",
         "not_applicable": na}
    json.dump(m, open(os.path.join(ROOT, "MANIFEST.json"), "w"), indent=1)

NA = {}
if __name__ == "__main__":
    main()
