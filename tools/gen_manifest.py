#!/usr/bin/env python3
"""regenerates /verif/MANIFEST.json from the claims table below (kept valid at all times)"""
import json, os
ROOT = os.path.dirname(os.path.dirname(os.path.abspath(__file__)))
props = [json.loads(l)["id"] for l in open(os.path.join(ROOT, "properties.jsonl"))]

TRUST = ("trusted base: pyvc front end (unverified VC generator), z3 5.1 / z3 4.8.12 / cvc5 1.0.3, CPython ast; "
         "assumptions per run are listed in evidence.assumptions (library contracts, abstract clauses, float treatment)")

CLAIMS = {
    "C06": dict(
        category="proof",
        text="Deductive proof, for all edge arrays / coordinates / weights and dims 1-3, that get_bin_on_value_1d returns the "
             "number of edges <= value minus one (incl. termination), that get_bin_on_value is its pointwise lifting, that "
             "check_edges_increasing raises exactly on non-increasing/too short edges, and that histogram.fill adds the weight to "
             "exactly the containing half-open cell or to n_out_of_range and changes nothing else (frame). VCs are generated from the "
             "real ASTs on every run. The float interpolation guess is abstracted (any integer shift), so rounding cannot matter; "
             "float corner cases and the Histogram element are additionally run as a labelled bounded stand-in.",
        design_ref="DESIGN.md 5 (C06), B.1",
        technique="contract-based deductive verification: AST->SMT verification conditions (loop invariants, decreases, frame) "
                  "discharged by z3/cvc5; bounded run-time contract evaluation as labelled stand-in",
        note=TRUST + "; weight conservation follows from the per-fill postcondition over mathematical reals (float rounding of "
             "+= not modelled); the pairwise-increasing form of the edges invariant is used (adjacent => pairwise by induction, lemma)"),
    "C20": dict(
        category="proof",
        text="Every name-resolution obligation of lena/ is enumerated completely on each run and discharged by a static scope "
             "resolver (symtable + ast): every __all__ entry is bound, every global name loaded by any function/method/class/"
             "module body is bound at module scope or a builtin, every lena.<pkg>.<name> chain resolves inside the static import "
             "closure of the using module's own subpackage. The resolver's import model is cross-validated against sys.modules in "
             "fresh interpreters, and a vocabulary of public elements is run with only its subpackage imported (bounded stand-in). "
             "Eight genuine defects found this way were repaired by fix: commits (known_findings.json).",
        design_ref="DESIGN.md 5 (C20)",
        technique="static obligations per name use, discharged by a scope resolver (finite, complete enumeration); fresh-interpreter "
                  "runs as labelled bounded cross-check",
        note="decided by a static resolver, not an SMT back end; trusted: CPython symtable/ast scoping, python-2 branches folded; "
             "excluded: names injected via globals()[...] (flow/zip.py), attribute errors on instances, module-scope ordering"),
}
TECH = ("contract-based deductive verification: sidecar contracts on the real functions, verification conditions generated "
        "from the /repo ASTs on every run (loop invariants, decreases, frame, laziness clauses at yields), discharged by "
        "z3/cvc5; bounded run-time evaluation of reference specifications on the real code as labelled stand-in (never "
        "counted as proved)")
CLAIMS["C01"] = dict(
    category="proof",
    text="Deductive proof over the abstract element interface (an element denotes a stream function el_run / a map el_call / "
         "a fold el_fill+el_compute): Sequence.run returns, for element lists and flows of any length, exactly the left-to-right "
         "fold seq_run(_data_seq, flow) and pulls nothing while building the chain; Run._call_run maps, Run._fc_run fills every "
         "value in order and then computes; Source.__call__ feeds first() (or the iterable) into the tail's fold; Run.__init__ "
         "and Sequence.__init__ (argument lists of length 0..2 unrolled, every element kind) accept exactly the convertible "
         "kinds, keep order, drop _has_no_data elements and raise LenaTypeError at construction for anything else - Sequence.run "
         "itself has no raising path. Regrouping into nested Sequences / Source tails follows because a nested Sequence is an "
         "element whose el_run is its own fold (fold of a concatenation = composition of folds; that lemma, flatten/"
         "alter_sequence and the concrete framework elements are exercised by the bounded stand-in: all bracketings of lists "
         "<= 3 over 20 element kinds, exhaustively).",
    design_ref="DESIGN.md 5 (C01), B.2", technique=TECH,
    note=TRUST + "; element interface assumption (DESIGN 2.4 item 4); Sequence.__init__ proved for 0..2 arguments (unrolled), "
         "LenaSequence._set_context assumed there (it is the subject of C13)")
CLAIMS["C07"] = dict(
    category="other",
    text="Proof part: difference(d1, d2, level) == diff(d1, d2, level) and update_recursively makes d == upd(old d, other), for "
         "all nested dictionaries (SMT datatype Val = scalar | dict, unbounded depth and key sets, every level), with the "
         "reference functions written from the property text (items of d1 not contained in d2 incl. falsy values; other "
         "contained in d, untouched items kept); arguments documented as unchanged are immutable values in the encoding and "
         "the bodies perform no store into them; LenaTypeError exactly for non-dict arguments. Bounded part (labelled, never "
         "counted as proved): intersection, update_nested, and the algebraic laws (commutative / associative / idempotent / "
         "greatest lower bound / deep copy by object identity / reconstruct law) exhaustively over the property's small "
         "alphabets, plus the users in split.py, zip.py, group_plots.py. A genuine defect (difference dropped falsy values) "
         "was found by both parts and repaired by a fix: commit.",
    design_ref="DESIGN.md 5 (C07), B.5", technique=TECH,
    note=TRUST + "; only z3 decides Val queries (cvc5 1.0.3 rejects the nested-recursive datatype); dict iteration = arbitrary "
         "unvisited key per step; termination of recursion over finite nested dicts assumed")
CLAIMS["C17"] = dict(
    category="other",
    text="Proof part: Slice.fill_into (steps 1..4, unbounded start/stop/index) fills the wrapped element iff the running index is "
         "in range(start, stop, step), keeps its object invariant (_next_index is the least selected index >= _index-1) and "
         "raises LenaStopFill exactly when no index >= the current one is selected (or the element itself stops); Reverse.run "
         "yields the flow reversed and terminates (decreases clause). Bounded part (labelled): the property's whole finite "
         "domain - start, stop in {None,-7..7}, step in {None,1..4}, flows 0..10 for Slice.run against xs[start:stop:step] by "
         "identity, fill_into against every later index, constructor rejections, Chain / CountFrom / RunningChunkBy - is "
         "enumerated completely (exhaustive: true).",
    design_ref="DESIGN.md 5 (C17), B.3", technique=TECH,
    note=TRUST + "; islice(count(0), start, stop, step) = arithmetic progression (library contract, tier A); Slice.run is "
         "itertools.islice itself (library); _run_negative_islice is bounded only")
BOUNDED_TECH = ("bounded stand-in (run-time evaluation of a reference specification written from the property text on the "
                "real code over a stated finite scope, exhaustive where marked); contract-based proof obligations for this "
                "property's functions are listed in the evidence when present and are the only part counted as proved")


def bounded_claim(text, ref, note=""):
    return dict(category="other", text=text, design_ref=ref, technique=BOUNDED_TECH,
                note="labelled bounded, never counted as proved; trusted: the reference oracle in /verif/bounded, CPython; " + note)


CLAIMS["C03"] = bounded_claim(
    "Bounded: Split.run against the property's schedule reference split_spec (blocks of bufsize; per block in branch order: "
    "Source once, Sequence per block, fill/request fills + request(), fill/compute fills, LenaStopFill => finalise and drop; "
    "final compute() pass; empty flow invokes every branch once) exhaustively over branch lists of length 0..3 (thorough 0..4) "
    "of the four kinds with tagged outputs, LenaStopFill at every fill index, bufsize in {1..L+1, 1000, None}, copy_buf, flows "
    "0..4; all 25 branch forms of _get_seq_with_type; bufsize independence; empty Split = identity (same objects); common-type "
    "methods fill/compute/request/__call__; Zip tuples. Proof obligations (evidence): Split.run's local disciplines - both "
    "scheduling loops terminate, the active-branch lists stay index-safe, a Source still active at the end implies an empty "
    "flow, the block is read only at the start of a block, every consuming branch gets its own buffer; Split._fill / "
    "Zip._fill hand every branch but the last a deep copy; Split._empty_run is the lazy identity. The complete output "
    "schedule against split_spec is NOT proved (protocol-sized proof of DESIGN 5/C03): bounded. One genuine defect repaired "
    "(fix: 70b6ae2).", "DESIGN.md 5 (C03), Appendix A")
CLAIMS["C04"] = dict(
    category="other",
    text="Proof part: at every yield of Sum.compute, Mean.compute and Count.compute the yielded context is an object created "
         "during the call (deep copy), never the stored / filled one (is_fresh clause at the yield; top-level identity - nested "
         "sharing is not modelled by the encoding). Bounded part (labelled): object-identity graphs (ids of every dict/list "
         "reachable) of yielded vs filled contexts and earlier yields for 33 accumulator configurations over all histories of "
         "length <= 4 (thorough <= 6) of fill / compute / mutate-everything-yielded; Split / Zip branches with in-place mutators "
         "driven by run, fill and request against the branch alone on a private copy. Two genuine defects repaired (fix: "
         "c178926, 92c6a51).",
    design_ref="DESIGN.md 5 (C04)", technique=TECH,
    note=TRUST + "; copy.deepcopy is a library contract (tier A); branches mutate only what they reach (interface assumption)")
CLAIMS["C05"] = dict(
    category="other",
    text="Proof part (loop-free, complete over the abstract predicate space callable(el) / callable_m(el, name) / has_attr): "
         "Run, Call, SourceEl, FillCompute and FillInto accept exactly the documented kinds, bind exactly the named method "
         "(function identity) in the documented priority and raise LenaTypeError at construction otherwise; Call.__call__, "
         "FillInto.fill_into and FillInto._run_fill_into delegate as documented (fold of el_fill over el_run([value])); "
         "Slice.fill_into (C17 contract). Bounded part (labelled): the three drivers Sequence.run / Split branch with every "
         "bufsize / FillComputeSeq-FillSeq fill-until-LenaStopFill-then-compute on all chains pre* acc post* with <= 2 pre "
         "elements (thorough <= 3) over 14..33 pre kinds, 6..15 accumulators, flows 0..5, against a list-level reference.",
    design_ref="DESIGN.md 5 (C05), B.2", technique=TECH, note=TRUST + "; element interface assumption (DESIGN 2.4 item 4)")
CLAIMS["C10"] = dict(
    category="other",
    text="Proof part: RunIf.run - at every yield on a path where the selector is false the yielded value is the loop variable "
         "itself (identity), and exactly the values consumed so far have been pulled. Bounded part (labelled): for 25 "
         "configurations of the ten selective elements, run(interleave(A, B)) == interleave(run(A), B) with every unselected b "
         "passed by `is`, in order and position, unmodified, no file-system effect and no converter launch (recording stubs), "
         "over all 69 interleavings of <= 3 selected with <= 3 unselected values of 21+ kinds. One genuine defect repaired "
         "(fix: 46615dc).",
    design_ref="DESIGN.md 5 (C10)", technique=TECH, note=TRUST + "; converters are stubs; only the working directory is snapshotted")
CLAIMS["C12"] = bounded_claim(
    "Bounded: histogram.scale / integral / add / get_nevents / set_nevents, graph.scale over every valid error-field naming "
    "(2212 namings), hist_to_graph (all get_coordinate modes), iter_bins / iter_bins_with_edges / iter_cells agreement incl. "
    "all index ranges, hist1d_to_csv / hist2d_to_csv / ToCSV parse-back, scale_to / ScaleTo, exhaustively over all shapes of "
    "dims 1-3 with 1..3 bins per axis (thorough 1..4) against exact Fraction arithmetic. Proof obligations: the C06 bin-search "
    "contract get_bin_on_value_1d that iter_cells' coordinate ranges rest on. One genuine defect repaired (fix: bc48c8e).",
    "DESIGN.md 5 (C12)")
CLAIMS["C15"] = dict(
    category="other",
    text="Proof part: Selector.__call__ (an exception of the leaf propagates iff raise_on_error, else counts as not selected), "
         "Not.__call__ (negation; full negation of an error without raise_on_error), And / Or.__call__ (conjunction / "
         "disjunction over any number of members) over abstract leaf callables; contains(d, s) (the string leaf) against the "
         "key-path walk reference, no exception for dictionaries. Bounded part (labelled): Selector / And / Or / Not / SelectContext / Filter against the three-valued "
         "reference evaluator over all specifications of nesting <= 2 (and sampled nesting 3) on both raise_on_error flags; "
         "GroupBy against the longest-listed-prefix partition for every group_by / merge labelling of <= 2 (thorough <= 4) of "
         "the 14 key paths over {a,b}, 361 contexts each. Two genuine defects repaired (fix: d3e7985, be31c5e).",
    design_ref="DESIGN.md 5 (C15)", technique=TECH, note=TRUST)
CLAIMS["C18"] = dict(
    category="proof",
    text="Deductive proof over a ghost file system (path -> absent | sequence of pickled values; open / pickle / os.replace / "
         "os.remove / os.access are library contracts): Cache._dump_flow_and_yield passes the flow unaltered and lazily, keeps "
         "the values seen so far in a temporary file, and stores the whole flow under the cache name only on exhaustion; at EVERY "
         "yield (= every consumer stop point k and every downstream raise, explored as GeneratorExit travelling through the "
         "function's try/finally) and when the upstream raises while the next value is pulled, the cache name holds exactly what "
         "it held before and no temporary file is left - so no truncated flow can ever be served. Cache._load_flow yields exactly "
         "the stored values in order and terminates; Cache.run replays the stored flow without pulling a single value from the "
         "incoming flow and without touching the file system when the cache exists and recompute is off, and passes the incoming "
         "flow otherwise; cache_exists / drop_cache as documented. Bounded part (labelled): histories of first / repeated / "
         "recompute / drop runs with every crash point on a real temp directory in 17 forms incl. alter_sequence hoisting and "
         "Split, one and two caches. One genuine defect repaired (fix: 62835fd).",
    design_ref="DESIGN.md 5 (C18), B.7", technique=TECH,
    note=TRUST + "; the ghost file system and its library contracts (tier A) stand for the OS: real files, interpreter death "
         "and buffering are exercised only by the bounded part; alter_sequence / Split hoisting is bounded only")
CLAIMS["C19"] = dict(
    category="other",
    text="Proof part (ghost file system; every clause holds AT THE YIELD of each value, for all flows): Write.run - a value that "
         "is not selected, or whose data is the path another Write already wrote, passes as the very same object and nothing "
         "on disk is touched; for a written value the file at the yielded path exists and holds exactly the current data "
         "(unless existing_unchanged promises existing files are current), no other file is touched, an existing file with "
         "the same content is not rewritten (unless overwrite), an existing file is never rewritten with existing_unchanged, "
         "output.changed is True when an existing file was rewritten or overwrite is set and otherwise keeps what came from "
         "upstream, output.filepath and the yielded path agree and the context object is the value's own; Write._write_data "
         "replaces exactly that file. The selection predicate (nested is_writable) and _make_filename are assumed here. "
         "Bounded part (labelled): the real pipeline ToCSV, MakeFilename, Write, RenderLaTeX, Write, LaTeXToPDF, PDFToPNG and "
         "its group variant on a temp directory with recording stub converters over all histories of 1..2 runs (thorough "
         "1..3) of keep/change data, keep/change template, delete any subset of {csv, tex, pdf, png}; decision tables of "
         "Write.run, LaTeXToPDF.run, PDFToPNG.run, MakeFilename, group_plots / MapGroup. One genuine defect repaired (fix: "
         "63aa3e2), one open known finding (Write leaves output.changed unset when it CREATES a file: the repair contradicts "
         "an existing test) - the proved `changed` clauses are stated for existing files, so the finding's region is exactly "
         "the missing-file branch.",
    design_ref="DESIGN.md 5 (C19), B.7", technique=TECH,
    note=TRUST + "; the ghost file system stands for the OS (tier A); LaTeXToPDF / PDFToPNG (process pools) and MakeFilename are "
         "bounded only")
CLAIMS["C16"] = bounded_claim(
    "Proof obligations (evidence): FillRequest._run_fill_compute (the run method of fill/compute and fill/request elements, "
    "used by FillRequestSeq.run) consumes the flow in consecutive blocks of exactly bufsize values (pulled == blocks x "
    "bufsize at every block boundary: nothing skipped, nothing read twice), yields only at a block boundary or - with "
    "yield_on_remainder - for the final partial block, yields nothing for an empty flow, and terminates. "
    "Bounded: FillRequest.run against the block reference blocks_spec for run / fill-compute / fill-request elements, bufsize "
    "1..5, buffer_input / buffer_output, reset, yield_on_remainder, flows 0..11 (thorough 0..16); fill()/request() under ALL "
    "request schedules (request or not after each of 0..L fills, L <= 6, thorough <= 10) with a deterministic step watchdog "
    "for hangs, single accounting of every value and the one-block buffer bound; Split around a FillRequest branch for block "
    "sizes dividing and not dividing; FillRequestSeq wiring. Three genuine defects are open known findings identified by "
    "region (buffer_output fill past a full block hangs; buffer_input results after a misaligned request; run element that "
    "does not exhaust its block): every configuration that works today has its own failure ids, so a regression there is "
    "still reported. fill()/request() and _run_run are bounded only.", "DESIGN.md 5 (C16)")
CLAIMS["C09"] = dict(
    category="other",
    text="Proof part: Sum, Mean (ordinary summation), Count, StoreFilled - __init__, fill (bare data and (data, context) pairs), "
         "compute and reset against the documented aggregate over mathematical reals (Sum = left fold of + from the start value in "
         "fill order; Mean = sum/count, LenaZeroDivisionError exactly when nothing was filled and not pass_on_empty; Count = number "
         "of fills, context extended only by {name: count}), with the context of the last filled value; compute leaves the "
         "aggregate untouched (frame); lemma per class: after reset() every state field equals that of a newly constructed "
         "element. Bounded part (labelled): all histories of length <= 5 (thorough <= 7) over {fill bare, fill with context, "
         "compute, reset} for 37 configurations of Sum, DSum, Mean, VarianceMeanCount, Vectorize, Count, StoreFilled, GroupBy, "
         "Histogram, Graph against references from the property text and against a fresh element on the suffix after the last "
         "reset; DSum against exact Fraction sums. Three genuine defects repaired (fix: Histogram.reset/__init__, Vectorize, "
         "Graph.reset).",
    design_ref="DESIGN.md 5 (C09), B.6", technique=TECH,
    note=TRUST + "; floats as mathematical reals (DESIGN 2.4 item 1b/1c; CPython 3.12's compensated builtin sum is not the "
         "reference); DSum's Decimal loop, VarianceMeanCount and Vectorize are bounded only")
CLAIMS["C08"] = dict(
    category="other",
    text="Proof part: get_recursively for a list of keys (with and without default) returns exactly the item reached by walking "
         "the key path through nested dictionaries (reference walk(d, ks, i, n), unbounded path length and dictionaries), raises "
         "LenaKeyError exactly when the path is absent or passes through a non-dictionary, LenaTypeError exactly for a "
         "non-dictionary d; contains(d, s) agrees with that walk (prefix exists and holds the last component, or is a scalar "
         "whose string form is the last component) and never raises for a dictionary. Bounded part (labelled): the three key "
         "notations and the law get_recursively(str_to_dict(s, v), s) is v over all dotted strings of <= 4 components incl. "
         "empty ones; format_context on all template strings of length <= 5 over `{}a.:!x` and well-formed templates with "
         "0..3 fields; to_string canonical / injective; UpdateContext over all 48 option combinations, DeleteContext, "
         "format_update_with with frame (every other item untouched, data identity, deep copy). Five genuine defects repaired "
         "(fix: commits, known_findings.json).",
    design_ref="DESIGN.md 5 (C08), B.5", technique=TECH,
    note=TRUST + "; str.split / str.format / json.dumps / jinja2 are library behaviour (tier A); the dotted-string and dictionary "
         "notations of get_recursively, str_to_dict and format_context are bounded only")
CLAIMS["C11"] = dict(
    category="other",
    text="Proof part: the routing function - get_bin_on_value / get_bin_on_value_1d return, per axis, the number of edges <= the "
         "coordinate minus one (C06 contracts), which SplitIntoBins.fill uses to pick the cell. Bounded part (labelled): "
         "SplitIntoBins against an independent private copy of the analysis per cell run on exactly that cell's sub-flow, "
         "exhaustively for all 11 increasing 1-d edge lists over {0..3} with flows of length <= 3 (thorough <= 4) over inside / "
         "border / outside coordinates, 9 2-d edge pairs, 11 analyses (incl. context-mutating and multi-result ones) x 7 "
         "argument variables, fill/compute histories, IterateBins, MapBins, md_map, _MdSeqMap. One genuine defect repaired, one "
         "open known finding (IterateBins on a 2-d histogram of a plain Variable).",
    design_ref="DESIGN.md 5 (C11)", technique=TECH, note=TRUST)
CLAIMS["C13"] = bounded_claim(
    "Bounded: every StoreContext, UpdateContextFromStatic, MakeFilename, Write, Cache, SetContext and container of ALL trees of "
    "Sequence / Source / Split with <= 4 nodes (thorough <= 5), depth <= 3, over 6 SetContext forms (constant, nested, "
    "formatted, unresolvable) with all 9 probes in every gap, is compared with a pure document-order fold of the SetContext "
    "updates written from the property text; Split copies / intersection; LenaKeyError naming the key; files actually written "
    "by Write and Cache; no static context in run-time contexts except through UpdateContextFromStatic. Two genuine defects "
    "repaired, three recorded as open known findings (empty Split erases the context; Source tail re-threads the context; "
    "sibling branch after an unresolved key, depth 4). Proof obligations (evidence): ownership - LenaSequence / SetContext "
    "._get_context return a deep copy equal to the stored context (LenaKeyError when it could not be set); StoreContext, "
    "UpdateContextFromStatic and MakeFilename retain a deep copy of what they are given and leave the argument unchanged; "
    "LenaSplit._set_context hands every branch its own deep copy made for it.", "DESIGN.md 5 (C13)")
CLAIMS["C14"] = bounded_claim(
    "Bounded: Compose(v1..vn) vs the Sequence (v1..vn) vs the fold of tagged pure getters for all chains of 1..5 variables over "
    "3 type alphabets x 4 attribute sets x 10 value contexts (incl. pre-existing typed context.variable), Combine of 1..4, "
    "chains with untyped variables, nested Compose / Combine, keyword arguments; data, same context, name / attributes / type "
    "of the resulting variable, attributes of every composed variable under its type, compose in application order, frame "
    "(context outside `variable` untouched), variables unchanged, repeated application. Two genuine defects repaired, one open "
    "known finding (chains with untyped variables after a typed context.variable). Proof obligations (evidence): "
    "Variable.__call__ returns getter(data) with the value's own context object, changes nothing of it but context.variable "
    "and hands _update_context a deep copy of var_context (the variable is never changed by application); the getter of "
    "Compose is vn.getter(...v1.getter(x)...) for any number of variables. _update_context's dictionary surgery is bounded.",
    "DESIGN.md 5 (C14)")
CLAIMS["C02"] = dict(
    category="other",
    text="Proof part (clauses stated AT THE YIELDS, hence valid for every consumer stop point k and for infinite inputs): "
         "Run._call_run and Split._empty_run have pulled exactly k values when the k-th result is handed over; Sequence.run and "
         "Source.__call__ pull nothing while the chain is built; RunIf.run has pulled exactly the values consumed so far; "
         "Cache.run does not touch the incoming flow when the cache exists; FillRequest._run_fill_compute hands results on only "
         "at block boundaries; Split.run reads its input only by list(islice(flow, bufsize)) at the start of a block and at "
         "every yield at most bufsize x (blocks started) values have been pulled - no read-ahead, nothing pulled while the "
         "results of a block are handed downstream. Bounded part (labelled): an independent list-level oracle computes, by "
         "brute force over continuations, the shortest input prefix that determines k results and composes it backwards "
         "through all single / pairs / triples of 59 element instances and 2500 (thorough 40000) random pipelines incl. nested "
         "RunIf / Split, finite and infinite inputs, every k; weak-reference liveness for negative Slice (|index| values) and "
         "Split (bufsize values). One genuine defect repaired (Slice kept skipped values alive).",
    design_ref="DESIGN.md 5 (C02)", technique=TECH,
    note=TRUST + "; itertools.islice / collections.deque are library contracts; Slice._run_negative_islice, Count.run, Filter.run "
         "are bounded only; garbage-collector liveness is observable only by the bounded part")
NA_REASON = "check not built yet (work in progress; see DESIGN.md section 8)"

def main():
    checks = []
    for p in props:
        if p not in CLAIMS:
            continue
        c = CLAIMS[p]
        checks.append({
            "property_id": p,
            "quick_cmd": "./check %s --tier quick" % p,
            "thorough_cmd": "./check %s --tier thorough" % p,
            "evidence_file": "/verif/evidence/%s.json" % p,
            "replay_cmd_template": "./check %s --replay {path}" % p,
            "engine": "pyvc",
            "level_claimed": {"category": c["category"], "text": c["text"], "design_ref": c["design_ref"]},
            "level_note": c["note"],
            "technique": c["technique"],
        })
    na = [{"property_id": p, "reason": NA.get(p, NA_REASON)} for p in props if p not in CLAIMS]
    m = {"version": 1,
         "setup_cmd": "python3-vt -m compileall -q pyvc contracts bounded >/dev/null 2>&1; which z3-new /usr/bin/z3 /usr/bin/cvc5 >/dev/null",
         "hooks": {"guard": "LENA_VERIF", "enable": "none needed: contracts are sidecar files under /verif/contracts; /repo is parsed "
                   "(prover) and imported unmodified (replay / bounded runner)",
                   "baseline_off_cmd": "cd /repo && /venv/bin/python -m pytest -ra -q -p no:cacheprovider --timeout=900 --continue-on-collection-errors",
                   "source_commits": [], "add_only": True},
         "engines": [{"name": "pyvc", "path": "/verif/pyvc", "serves_properties": sorted(CLAIMS),
                      "kind_free_text": "verification-condition generator for a Python subset over the real ASTs of /repo + sidecar "
                                        "contracts, SMT-LIB to z3/cvc5; native replay; bounded contract runner as labelled stand-in"}],
         "checks": checks,
         "notes": "exit codes of ./check: 0 held, 1 violation, 2 undecided (obligation neither proved nor refuted), 3 checker failure",
         "not_applicable": na}
    json.dump(m, open(os.path.join(ROOT, "MANIFEST.json"), "w"), indent=1)

NA = {}
if __name__ == "__main__":
    main()
