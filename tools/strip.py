#!/usr/bin/env python3
"""print python source without docstrings / comments / blank lines, with original line numbers"""
import ast, sys, io, tokenize
def strip(path, names=None):
    src = open(path).read()
    tree = ast.parse(src)
    drop = set()
    for n in ast.walk(tree):
        if isinstance(n, (ast.FunctionDef, ast.ClassDef, ast.Module)) and n.body and isinstance(n.body[0], ast.Expr) and isinstance(n.body[0].value, ast.Constant) and isinstance(n.body[0].value.value, str):
            d = n.body[0]
            drop.update(range(d.lineno, d.end_lineno + 1))
    comments = {}
    for tok in tokenize.generate_tokens(io.StringIO(src).readline):
        if tok.type == tokenize.COMMENT:
            comments[tok.start[0]] = tok.start[1]
    lines = src.split("\n")
    keep = None
    if names:
        keep = set()
        for n in ast.walk(tree):
            if isinstance(n, (ast.FunctionDef, ast.ClassDef)) and n.name in names:
                keep.update(range(n.lineno, n.end_lineno + 1))
    for i, l in enumerate(lines, 1):
        if i in drop: continue
        if keep is not None and i not in keep: continue
        if i in comments: l = l[:comments[i]].rstrip()
        if not l.strip(): continue
        print("%4d %s" % (i, l))
if __name__ == "__main__":
    strip(sys.argv[1], sys.argv[2:] or None)
