#!/bin/sh
# development helper: import every finished seeded change of round $1 (default 2) that is not stored yet and run its
# property's quick check:  tools/seeded_sync.sh 3
cd "$(dirname "$0")/.." || exit 3
r=${1:-2}
for d in /tmp/lena-mut$r/out-C*; do
  id=$(basename $d | sed 's/out-//')
  for k in 1 2; do
    n=$((k+2*(r-1)))
    if [ -f $d/patch_$k.diff ] && [ -f $d/demo_$k.py ] && [ -f $d/meta_$k.json ] && [ ! -d seeded/$id-$n ]; then
      python3 tools/seeded.py import $id $k --round $r 2>&1 | grep -v WARNING | tail -1
      [ -d seeded/$id-$n ] && python3 tools/seeded.py run $id-$n 2>&1 | tail -1
    fi
  done
done
