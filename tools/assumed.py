#!/usr/bin/env python3
"""lists the ASSUMED (trusted=True) contracts that are live in the loaded contract index (after the proved contracts of later
modules have replaced assumed ones registered earlier under the same key); python3-vt tools/assumed.py"""
import os
import sys
sys.path.insert(0, os.path.dirname(os.path.dirname(os.path.abspath(__file__))))
from pyvc.cli import load_index

ix = load_index()
n = 0
for key, c in sorted(ix.by_key.items(), key=lambda kv: (kv[0][0], str(kv[0][1]))):
    cases = c.cases or [c]
    t = [k for k in cases if k.trusted or c.trusted]
    if t:
        n += len(t)
        print("%s:%s  assumed cases %d of %d: %s" % (key[0], key[1], len(t), len(cases), "; ".join(k.name for k in t)[:160]))
print("live assumed contract cases: %d (in %d contracts of %d)" % (n, sum(1 for c in ix.by_key.values() if c.trusted or any(k.trusted for k in (c.cases or []))), len(ix.by_key)))
