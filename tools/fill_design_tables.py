#!/usr/bin/env python3
"""re-generates the two tables of DESIGN.md section 0 between their markers"""
import os, subprocess
ROOT = os.path.dirname(os.path.dirname(os.path.abspath(__file__)))
out = subprocess.run(["python3", os.path.join(ROOT, "tools", "status_table.py")], capture_output=True, text=True).stdout
a, b = out.split("\n\n", 1)
p = os.path.join(ROOT, "DESIGN.md")
s = open(p).read()
def put(s, name, text):
    i, j = s.index("<!-- %s-BEGIN -->" % name), s.index("<!-- %s-END -->" % name)
    return s[:i] + "<!-- %s-BEGIN -->\n" % name + text.strip() + "\n" + s[j:]
s = put(s, "STATUS-TABLE", a)
s = put(s, "SEEDED-TABLE", b)
open(p, "w").write(s)
