#!/usr/bin/env python3
"""re-generates the tables of DESIGN.md section 0 between their markers (status, seeded changes, benign changes)"""
import os, subprocess
ROOT = os.path.dirname(os.path.dirname(os.path.abspath(__file__)))
out = subprocess.run(["python3", os.path.join(ROOT, "tools", "status_table.py")], capture_output=True, text=True).stdout
parts = out.split("\n\n")
a, b = parts[0], parts[1]
c = "\n\n".join(parts[2:]) if len(parts) > 2 else ""
p = os.path.join(ROOT, "DESIGN.md")
s = open(p).read()
def put(s, name, text):
    if "<!-- %s-BEGIN -->" % name not in s:
        return s
    i, j = s.index("<!-- %s-BEGIN -->" % name), s.index("<!-- %s-END -->" % name)
    return s[:i] + "<!-- %s-BEGIN -->\n" % name + text.strip() + "\n" + s[j:]
s = put(s, "STATUS-TABLE", a)
s = put(s, "SEEDED-TABLE", b)
s = put(s, "BENIGN-TABLE", c)
open(p, "w").write(s)
