#!/usr/bin/env python3
"""Evaluate a seeded (property-breaking) change produced by an independent sub-agent.

  python3 tools/seeded.py import C07 1          # confirm /tmp/lena-mut/out-C07/{patch,demo,meta}_1 and store it as seeded/C07-1/
  python3 tools/seeded.py run C07-1 [--tier quick] [--props C07,C04]   # run the check(s) against the change (scratch copy)
  python3 tools/seeded.py runall                # every stored change against its property's quick check; prints a table

Everything runs on a scratch copy of /repo's working tree under /var/tmp/seedrun (removed afterwards); /repo itself is not
touched, so this can run while other work reads /repo.  (`--inplace` applies the patch to /repo with `git apply` and undoes
it with `git checkout -- .` straight afterwards, as the final confirmation run does.)"""
import json
import os
import shutil
import subprocess
import sys
import time

ROOT = os.path.dirname(os.path.dirname(os.path.abspath(__file__)))
SRC = "/tmp/lena-mut"
SCR = "/var/tmp/seedrun"
PY = "/venv/bin/python"


def sh(cmd, cwd=None, env=None, timeout=1800):
    p = subprocess.run(cmd, shell=True, cwd=cwd, env=env, capture_output=True, text=True, timeout=timeout)
    return p.returncode, (p.stdout + p.stderr)


def scratch(name, patch=None):
    d = os.path.join(SCR, name)
    shutil.rmtree(d, ignore_errors=True)
    os.makedirs(d)
    for item in ("lena", "tests", "conftest.py", "pytest.ini"):
        s = os.path.join("/repo", item)
        if os.path.isdir(s):
            shutil.copytree(s, os.path.join(d, item), ignore=shutil.ignore_patterns("__pycache__"))
        elif os.path.exists(s):
            shutil.copy(s, d)
    if patch:
        rc, out = sh("patch -p1 --no-backup-if-mismatch < %s" % patch, cwd=d)
        if rc != 0:
            raise SystemExit("patch does not apply to the current /repo tree: %s\n%s" % (patch, out[-800:]))
    return d


def run_tests(d):
    env = dict(os.environ, PYTHONPATH=d, PYTHONDONTWRITEBYTECODE="1")
    rc, out = sh("%s -m pytest -q -p no:cacheprovider -x 2>&1 | tail -3" % PY, cwd=d, env=env)
    return out.strip().split("\n")[-1]


def run_demo(d, demo):
    env = dict(os.environ, PYTHONPATH=d, PYTHONDONTWRITEBYTECODE="1")
    rc, out = sh("%s %s" % (PY, demo), cwd=d, env=env, timeout=300)
    return rc, out.strip()[-600:]


def do_import(pid, k, rnd=1):
    src = os.path.join(SRC if rnd == 1 else SRC + str(rnd), "out-" + pid)
    patch, demo, meta = [os.path.join(src, "%s_%s.%s" % (n, k, e)) for n, e in (("patch", "diff"), ("demo", "py"), ("meta", "json"))]
    for f in (patch, demo):
        if not os.path.exists(f):
            raise SystemExit("missing " + f)
    name = "%s-%s" % (pid, int(k) + 2 * (rnd - 1))        # round 2 changes are stored as <id>-3, <id>-4
    clean = scratch(name + "-clean")
    rc0, out0 = run_demo(clean, demo)
    mut = scratch(name + "-mut", patch)
    tests = run_tests(mut)
    rc1, out1 = run_demo(mut, demo)
    ok = rc0 == 0 and rc1 != 0 and "153 passed" in tests
    print("%s: demo clean rc=%s, demo changed rc=%s, tests with change: %s -> %s" % (name, rc0, rc1, tests, "CONFIRMED" if ok else "REJECTED"))
    shutil.rmtree(clean, ignore_errors=True)
    shutil.rmtree(mut, ignore_errors=True)
    if not ok:
        print(out0[-300:], "\n---\n", out1[-300:])
        return 1
    dst = os.path.join(ROOT, "seeded", name)
    os.makedirs(dst, exist_ok=True)
    shutil.copy(patch, os.path.join(dst, "patch.diff"))
    shutil.copy(demo, os.path.join(dst, "demo.py"))
    m = json.load(open(meta)) if os.path.exists(meta) else {}
    m.update({"property": pid, "confirmed_by_main_session": {
        "demo_on_unchanged_tree": "exit %d" % rc0, "demo_with_change": "exit %d: %s" % (rc1, out1[-200:]),
        "test_suite_with_change": tests, "base": sh("git -C /repo rev-parse --short HEAD")[1].strip(),
        "how": "scratch copy of /repo working tree, patch -p1, /venv/bin/python -m pytest, demo with PYTHONPATH=<copy>"}})
    json.dump(m, open(os.path.join(dst, "meta.json"), "w"), indent=1)
    return 0


def do_run(name, tier="quick", props=None, inplace=False):
    dst = os.path.join(ROOT, "seeded", name)
    meta = json.load(open(os.path.join(dst, "meta.json")))
    props = props or [meta["property"]]
    patch = os.path.join(dst, "patch.diff")
    results = {}
    if inplace:
        rc, out = sh("git -C /repo apply %s" % patch)
        if rc != 0:
            raise SystemExit("git apply failed: " + out)
        env = dict(os.environ, VERIF_EVIDENCE_DIR="/var/tmp/seedrun/evidence")
    else:
        d = scratch(name + "-check", patch)
        env = dict(os.environ, LENA_REPO=d, VERIF_EVIDENCE_DIR="/var/tmp/seedrun/evidence")
    try:
        for p in props:
            t0 = time.time()
            rc, out = sh("./check %s --tier %s" % (p, tier), cwd=ROOT, env=env, timeout=3600)
            lines = [l for l in out.split("\n") if l.startswith(("VIOLATION", "UNDECIDED", "CHECKER-FAILURE", "KNOWN-FINDING"))]
            results[p] = {"exit": rc, "wall_s": round(time.time() - t0, 1), "violations": [l[:300] for l in lines if l.startswith("VIOLATION")][:6],
                          "undecided": len([l for l in lines if l.startswith("UNDECIDED")]),
                          "checker_failure": [l[:300] for l in lines if l.startswith("CHECKER")][:3],
                          "replayed": sum(1 for l in lines if l.startswith("VIOLATION") and "no-failing-input-found" not in l),
                          "proof_side": sum(1 for l in lines if l.startswith("VIOLATION") and "bounded_" not in l),
                          "bounded_side": sum(1 for l in lines if l.startswith("VIOLATION") and "bounded_" in l)}
    finally:
        if inplace:
            sh("git -C /repo checkout -- .")
        else:
            shutil.rmtree(d, ignore_errors=True)
    meta.setdefault("check_results", {})[tier] = results
    json.dump(meta, open(os.path.join(dst, "meta.json"), "w"), indent=1)
    for p, r in results.items():
        print("%-8s %-4s exit=%s violations=%d (proof-side %d, bounded-side %d) undecided=%d %s %.0fs"
              % (name, p, r["exit"], len(r["violations"]), r["proof_side"], r["bounded_side"], r["undecided"],
                 "CHECKER-FAILURE" if r["checker_failure"] else "", r["wall_s"]))
    return results


def main():
    a = sys.argv[1:]
    if a[0] == "import":
        return do_import(a[1], a[2], int(a[a.index("--round") + 1]) if "--round" in a else 1)
    tier = a[a.index("--tier") + 1] if "--tier" in a else "quick"
    props = a[a.index("--props") + 1].split(",") if "--props" in a else None
    if a[0] == "run":
        do_run(a[1], tier, props, "--inplace" in a)
        return 0
    if a[0] == "runall":
        names = sorted(os.listdir(os.path.join(ROOT, "seeded")))
        only = [x for x in a[1:] if not x.startswith("--") and x not in (tier,)]
        for n in names:
            if only and not any(n.startswith(o) for o in only):
                continue
            if os.path.exists(os.path.join(ROOT, "seeded", n, "patch.diff")):
                do_run(n, tier, props, "--inplace" in a)
        return 0


if __name__ == "__main__":
    sys.exit(main())
