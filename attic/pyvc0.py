"""Throw-away prototype: symbolic executor for a tiny Python subset -> SMT-LIB -> z3.
Purpose: calibrate the DESIGN (front-end effort, typing, loops with early exits, model extraction, replay).
Subset: ints/reals, arrays(list of numbers) with len, while/if/return/continue/break, assignment, comparisons,
arithmetic, `abstract` havoc for named locals.  One VC per (kind, path)."""
import ast, sys, subprocess, tempfile, os, json, time, itertools

# ---------------------------------------------------------------- terms
class T:
    def __init__(self, s, sort): self.s, self.sort = s, sort
    def __repr__(self): return self.s
def I(n): return T(str(n) if n >= 0 else "(- %d)" % -n, "Int")
def app(op, *a, sort): return T("(%s %s)" % (op, " ".join(x.s for x in a)), sort)
def to_real(t): return t if t.sort == "Real" else app("to_real", t, sort="Real")
def num2(a, b):
    if a.sort == b.sort: return a, b, a.sort
    return to_real(a), to_real(b), "Real"
TRUE, FALSE = T("true", "Bool"), T("false", "Bool")
def AND(*xs):
    xs = [x for x in xs if x.s != "true"]
    return TRUE if not xs else xs[0] if len(xs) == 1 else app("and", *xs, sort="Bool")
def NOT(x): return app("not", x, sort="Bool")
def IMP(a, b): return app("=>", a, b, sort="Bool")

# ---------------------------------------------------------------- expression compiler (shared by code and contracts)
class Ctx:
    def __init__(self, env, decls): self.env, self.decls = env, decls
class Unsupported(Exception): pass

def comp(e, env, spec=False):
    """compile ast expr under env: name -> T (arrays are T with sort 'Arr', their length under name+'#len')"""
    if isinstance(e, ast.Constant):
        if isinstance(e.value, bool): return TRUE if e.value else FALSE
        if isinstance(e.value, int): return I(e.value)
        if isinstance(e.value, float): return T(repr(e.value), "Real")
        raise Unsupported(ast.dump(e))
    if isinstance(e, ast.Name):
        if e.id in env: return env[e.id]
        raise Unsupported("unbound name " + e.id)
    if isinstance(e, ast.UnaryOp):
        v = comp(e.operand, env, spec)
        if isinstance(e.op, ast.USub): return app("-", v, sort=v.sort)
        if isinstance(e.op, ast.Not): return NOT(v)
    if isinstance(e, ast.BinOp):
        a, b = comp(e.left, env, spec), comp(e.right, env, spec)
        a, b, s = num2(a, b)
        op = {ast.Add: "+", ast.Sub: "-", ast.Mult: "*"}.get(type(e.op))
        if op: return app(op, a, b, sort=s)
        raise Unsupported("binop " + ast.dump(e.op))
    if isinstance(e, ast.BoolOp):
        vs = [comp(v, env, spec) for v in e.values]
        return app("and" if isinstance(e.op, ast.And) else "or", *vs, sort="Bool")
    if isinstance(e, ast.Compare):
        parts, left = [], comp(e.left, env, spec)
        for op, r in zip(e.ops, e.comparators):
            right = comp(r, env, spec)
            a, b, _ = num2(left, right) if left.sort != "Bool" else (left, right, None)
            o = {ast.Lt: "<", ast.LtE: "<=", ast.Gt: ">", ast.GtE: ">=", ast.Eq: "="}.get(type(op))
            if o: parts.append(app(o, a, b, sort="Bool"))
            elif isinstance(op, ast.NotEq): parts.append(NOT(app("=", a, b, sort="Bool")))
            else: raise Unsupported("cmp")
            left = right
        return AND(*parts)
    if isinstance(e, ast.Subscript):
        arr, idx = comp(e.value, env, spec), comp(e.slice, env, spec)
        if arr.sort != "Arr": raise Unsupported("subscript of non-array")
        return app("select", arr, idx, sort="Real")
    if isinstance(e, ast.Call) and isinstance(e.func, ast.Name):
        f = e.func.id
        if f == "len":
            a = e.args[0]
            if isinstance(a, ast.Name) and a.id + "#len" in env: return env[a.id + "#len"]
        if spec and f == "implies":
            return IMP(comp(e.args[0], env, spec), comp(e.args[1], env, spec))
        if spec and f == "strictly_increasing":
            a = comp(e.args[0], env, spec); n = env[e.args[0].id + "#len"]
            return T("(forall ((i Int) (j Int)) (=> (and (<= 0 i) (< i j) (< j %s)) (< (select %s i) (select %s j))))" % (n, a, a), "Bool")
    raise Unsupported(ast.dump(e)[:80])

def parse_spec(s, env):
    if " implies " in s:
        a, b = s.split(" implies ", 1)
        return IMP(parse_spec(a, env), parse_spec(b, env))
    return comp(ast.parse(s.strip(), mode="eval").body, env, spec=True)

# ---------------------------------------------------------------- symbolic execution
class State:
    def __init__(self, env, pc, trace): self.env, self.pc, self.trace = dict(env), list(pc), trace
    def fork(self, cond, tag): return State(self.env, self.pc + [cond], self.trace + tag)

class VC:
    def __init__(self, name, hyps, goal, st): self.name, self.hyps, self.goal, self.st = name, hyps, goal, st

class Exec:
    def __init__(self, fn, contract):
        self.fn, self.c = fn, contract
        self.decls, self.vcs, self.fresh = [], [], itertools.count()
        self.loop_no = itertools.count()
    def new(self, base, sort):
        n = "%s!%d" % (base, next(self.fresh))
        self.decls.append("(declare-const |%s| %s)" % (n, {"Arr": "(Array Int Real)"}.get(sort, sort)))
        return T("|%s|" % n, sort)
    def run(self):
        env = {}
        for p, sort in self.c["types"].items():
            if p == "result": continue
            env[p] = self.new(p, sort)
            if sort == "Arr":
                env[p + "#len"] = self.new(p + "#len", "Int"); self.pre_len = env[p + "#len"]
        self.env0 = dict(env)
        pre = [parse_spec(s, env) for s in self.c["requires"]]
        for p, sort in self.c["types"].items():
            if sort == "Arr": pre.append(app(">=", env[p + "#len"], I(0), sort="Bool"))
        st = State(env, pre, "")
        self.block(self.fn.body, st, [])
        return self.vcs
    # each statement handler returns list of states that fall through
    def block(self, stmts, st, loopctx):
        states = [st]
        for s in stmts:
            nxt = []
            for x in states: nxt += self.stmt(s, x, loopctx)
            states = nxt
        return states
    def stmt(self, s, st, loopctx):
        if isinstance(s, ast.Expr) and isinstance(s.value, ast.Constant): return [st]      # docstring (dropped)
        if isinstance(s, ast.Assign) and len(s.targets) == 1 and isinstance(s.targets[0], ast.Name):
            name = s.targets[0].id
            if name in self.c.get("abstract", {}):
                v = self.new(name, "Int"); st.env[name] = v
                st.pc.append(parse_spec(self.c["abstract"][name], st.env)); return [st]
            st.env[name] = comp(s.value, st.env); return [st]
        if isinstance(s, ast.AugAssign) and isinstance(s.target, ast.Name):
            cur = st.env[s.target.id]; v = comp(s.value, st.env); a, b, so = num2(cur, v)
            st.env[s.target.id] = app({ast.Add: "+", ast.Sub: "-"}[type(s.op)], a, b, sort=so); return [st]
        if isinstance(s, ast.If):
            c = comp(s.test, st.env)
            t = self.block(s.body, st.fork(c, "T."), loopctx)
            f = self.block(s.orelse, st.fork(NOT(c), "F."), loopctx)
            return t + f
        if isinstance(s, ast.Return):
            r = comp(s.value, st.env)
            env = dict(self.env0); env["result"] = r
            for k, e in enumerate(self.c["ensures"]):
                self.vcs.append(VC("post#%d/%s" % (k, st.trace), st.pc, parse_spec(e, env), st))
            return []
        if isinstance(s, ast.Continue):
            self.check_inv(loopctx[-1], st, "preserve"); return []
        if isinstance(s, ast.While):
            k = next(self.loop_no); spec = self.c["loops"][k]
            L = dict(spec=spec, k=k)
            self.check_inv(L, st, "init", init=True)
            # havoc variables assigned in the loop
            mod = sorted({t.id for n in ast.walk(s) for t in (n.targets if isinstance(n, ast.Assign) else [n.target] if isinstance(n, ast.AugAssign) else []) if isinstance(t, ast.Name)})
            h = State(st.env, st.pc, st.trace + "L%d:" % k)
            for m in mod:
                if m in h.env: h.env[m] = self.new(m, h.env[m].sort)
            h.pc += [parse_spec(i, h.env) for i in spec["invariant"]]
            L["entry_env"] = dict(h.env)
            cond = comp(s.test, h.env)
            body_states = self.block(s.body, h.fork(cond, ""), loopctx + [L])
            for b in body_states: self.check_inv(L, b, "preserve")
            ex = h.fork(NOT(cond), "X.")
            return [] if cond.s == "true" else [ex]
        raise Unsupported("stmt " + type(s).__name__)
    def check_inv(self, L, st, kind, init=False):
        for j, i in enumerate(L["spec"]["invariant"]):
            self.vcs.append(VC("loop#%d.%s#%d/%s" % (L["k"], kind, j, st.trace), st.pc, parse_spec(i, st.env), st))
        if not init and "decreases" in L["spec"]:
            before = parse_spec(L["spec"]["decreases"], L["entry_env"]); after = parse_spec(L["spec"]["decreases"], st.env)
            self.vcs.append(VC("loop#%d.decreases/%s" % (L["k"], st.trace), st.pc,
                               AND(app("<", after, before, sort="Bool"), app(">=", before, I(0), sort="Bool")), st))

# ---------------------------------------------------------------- driver
def smt(decls, hyps, goal, inputs):
    lines = ["(set-option :produce-models true)"] + decls + ["(assert %s)" % h for h in hyps] + ["(assert (not %s))" % goal, "(check-sat)"]
    return "\n".join(lines) + "\n"

def solve(text, timeout=20):
    with tempfile.NamedTemporaryFile("w", suffix=".smt2", delete=False) as f: f.write(text); path = f.name
    t = time.time()
    r = subprocess.run(["z3-new", "-T:%d" % timeout, path], capture_output=True, text=True)
    os.unlink(path)
    return r.stdout.strip().split("\n")[0], time.time() - t

def model_inputs(text, ex, types):
    """counter-model -> concrete python args via z3py parser on the same SMT-LIB text"""
    import z3
    s = z3.Solver(); s.from_string(text.replace("(check-sat)", ""))
    if s.check() != z3.sat: return None
    m = s.model(); out = {}
    consts = {str(d): d for d in m.decls()}
    def val(name):
        for k, d in consts.items():
            if k == name: return m[d]
        return None
    for p, sort in types.items():
        if p == "result": continue
        nm = ex.env0[p].s.strip("|")
        if sort == "Arr":
            n = m.eval(z3.Int(ex.env0[p + "#len"].s.strip("|")), model_completion=True).as_long()
            arr = z3.Array(nm, z3.IntSort(), z3.RealSort())
            out[p] = [frac(m.eval(arr[i], model_completion=True)) for i in range(n)]
        elif sort == "Real": out[p] = frac(m.eval(z3.Real(nm), model_completion=True))
        else: out[p] = m.eval(z3.Int(nm), model_completion=True).as_long()
    return out
def frac(v):
    from fractions import Fraction
    return Fraction(v.numerator_as_long(), v.denominator_as_long())

def find(tree, qual):
    node = tree
    for p in qual.split("."):
        node = next(ch for ch in ast.iter_child_nodes(node) if isinstance(ch, (ast.FunctionDef, ast.ClassDef)) and ch.name == p)
    return node

def verify(path, qual, contract, verbose=True):
    fn = find(ast.parse(open(path).read()), qual)
    ex = Exec(fn, contract); vcs = ex.run()
    res = []
    for vc in vcs:
        text = smt(ex.decls, vc.hyps, vc.goal, None)
        r, dt = solve(text)
        res.append((vc.name, r, dt, text))
        if verbose or r != "unsat": print("  %-45s %s %.3fs" % (vc.name, "PROVED" if r == "unsat" else r.upper(), dt))
    return ex, res

if __name__ == "__main__":
    C = dict(
        types=dict(val="Real", arr="Arr", result="Int"),
        requires=["len(arr) >= 1", "strictly_increasing(arr)"],
        ensures=["-1 <= result <= len(arr) - 1", "result >= 0 implies arr[result] <= val", "result < len(arr) - 1 implies val < arr[result + 1]"],
        loops={0: dict(invariant=["0 <= ind_min <= ind_max <= len(arr) - 1", "ind_min == 0 or arr[ind_min - 1] <= val",
                                  "ind_max == len(arr) - 1 or val < arr[ind_max + 1]"], decreases="ind_max - ind_min")},
        abstract={"shift": "0 <= shift <= ind_max - ind_min"},
    )
    src = sys.argv[1] if len(sys.argv) > 1 else "/repo/lena/structures/hist_functions.py"
    ex, res = verify(src, "get_bin_on_value_1d", C, verbose="-v" in sys.argv)
    bad = [r for r in res if r[1] != "unsat"]
    print("obligations", len(res), "proved", len(res) - len(bad), "solver time %.2fs" % sum(r[2] for r in res))
    for name, r, dt, text in bad[:3]:
        inp = model_inputs(text, ex, C["types"]) if r == "sat" else None
        print("FAILED", name, r, "candidate input:", inp)
        if inp:
            # replay on the real function under the repo's interpreter
            code = ("import sys, json; sys.path.insert(0, %r); import importlib.util as u;"
                    "spec=u.spec_from_file_location('m', %r); " % (os.path.dirname(os.path.dirname(os.path.dirname(src))), src))
            arr = [float(x) for x in inp["arr"]]; val = float(inp["val"])
            prog = "import bisect,sys\nsys.path.insert(0,%r)\nfrom lena.structures.hist_functions import get_bin_on_value_1d as f\narr=%r; val=%r\nr=f(val,arr); exp=bisect.bisect_right(arr,val)-1\nprint('replay: result',r,'expected',exp,'VIOLATES' if r!=exp else 'ok')\n" % (os.path.abspath(os.path.join(os.path.dirname(src), "..", "..")), arr, val)
            print(subprocess.run(["/venv/bin/python", "-W", "ignore", "-c", prog], capture_output=True, text=True).stdout.strip())
