import itertools, copy, warnings
warnings.simplefilter("ignore")
import lena.core, lena.flow, lena.context
from lena.context import UpdateContext, DeleteContext, get_recursively, format_update_with, to_string, str_to_dict, contains
from lena.core import LenaException
_s=object()
def allpaths(d, pre=()):
    yield pre
    if isinstance(d, dict):
        for k,v in d.items(): yield from allpaths(v, pre+(k,))
def get(d, path):
    for k in path:
        if not isinstance(d, dict) or k not in d: return _s
        d=d[k]
    return d
ctxs=[{}, {"a":1}, {"a":{"b":2,"c":{"d":3}}, "e":0}, {"a":5,"x":{"y":None}}, {"a":{"b":{}}}, {"a": "str"}]
subs=["a","a.b","a.b.c","x.y","q","a..b",".a","a."]
issues=set()
n=0
for ctx in ctxs:
  for sub in subs:
    for upd,kw in [(7,{}),({"k":1},{}),("lit",{}),("{{a}}",{"value":True}),("{{a.b}}",{"value":True,"default":9}),("{{zz}}",{"value":True,"skip_on_missing":True}),
                   ("{{zz}}",{"value":True}),("{{a}}_{{e}}",{}),("{{zz}}",{"raise_on_missing":True}),("{{zz}}",{"skip_on_missing":True}),({"k":1},{"recursively":False}),
                   (7,{"default":1}),("{{a}}",{"default":1}),("{{a}",{"value":True}),("{{a}}",{"skip_on_missing":True,"raise_on_missing":True})]:
        n+=1
        try: uc=UpdateContext(sub, upd, **kw)
        except LenaException as e: continue
        except Exception as e: issues.add(("init non-Lena", sub, repr(upd), tuple(kw), type(e).__name__)); continue
        c=copy.deepcopy(ctx); data=[1,2]; val=(data,c)
        try: r=uc(val)
        except LenaException as e: 
            if c!=ctx: issues.add(("ctx changed despite exception", sub, repr(upd)))
            continue
        except Exception as e: issues.add(("call non-Lena", sub, repr(upd), tuple(sorted(kw)), type(e).__name__, str(e)[:40])); continue
        if r[0] is not data or data!=[1,2]: issues.add(("data touched",))
        addr=tuple(sub.split("."))
        newc=r[1]
        for p in set(allpaths(ctx))|set(allpaths(newc)):
            if p[:len(addr)]==addr or addr[:len(p)]==p: continue   # on the addressed path
            if get(ctx,p) is _s and get(newc,p) is _s: continue
            if get(ctx,p)!=get(newc,p): issues.add(("other item changed", sub, repr(upd), p))
print("UpdateContext cases",n); [print(i) for i in sorted(issues, key=repr)[:20]]
issues=set()
for ctx in ctxs:
    for key in ["a","a.b","a.b.c","q","x.y","",["a","b"],("a",),"a..b"]:
        c=copy.deepcopy(ctx)
        try: r=DeleteContext(key)((1,c))
        except LenaException: continue
        except Exception as e: issues.add(("Delete non-Lena", repr(key), type(e).__name__, str(e)[:40])); continue
        addr=tuple(key.split(".")) if isinstance(key,str) else tuple(key)
        if get(c,addr) is not _s and key!="": issues.add(("not deleted", repr(key), repr(ctx)))
        for p in allpaths(ctx):
            if p[:len(addr)]==addr: continue
            if addr[:len(p)]==p: continue
            if get(ctx,p)!=get(c,p): issues.add(("Delete other changed", repr(key), p))
[print(i) for i in sorted(issues, key=repr)[:20]]
# to_string canonical
import json
print(to_string({"b":1,"a":{"d":1,"c":2}})==to_string({"a":{"c":2,"d":1},"b":1}), to_string({1:"x"}), to_string({"1":"x"}), to_string({"a":1})==to_string({"a":1.0}), to_string({"a":1}), to_string({"a":True}))
