import itertools, copy, warnings, os, sys, shutil, time
warnings.simplefilter("ignore")
import lena.core, lena.flow, lena.context, lena.output, lena.structures
from lena.core import Sequence
from lena.output import ToCSV, MakeFilename, Write, RenderLaTeX, LaTeXToPDF, PDFToPNG
from lena.structures import histogram
root="/tmp/explore/c19"; shutil.rmtree(root, ignore_errors=True); os.makedirs(root+"/tpl"); os.makedirs(root+"/bin")
open(root+"/tpl/t.tex","w").write(r"TEMPLATE v1 \VAR{output.filepath}")
# stub converters
open(root+"/bin/conv.py","w").write("""
import sys,re
tex, pdf, log = sys.argv[1], sys.argv[2], sys.argv[3]
t=open(tex).read()
m=re.search(r'(\\S+\\.csv)', t)
csv=open(m.group(1)).read() if m else ''
open(pdf,'w').write('PDF['+t+'|'+csv+']')
open(log,'a').write('latex '+tex+'\\n')
""")
open(root+"/bin/pdftoppm","w").write("#!/bin/sh\n# args: pdf base -png -singlefile\ncp \"$1\" \"$2.png\"\necho \"png $1\" >> %s/log\n" % root)
os.chmod(root+"/bin/pdftoppm", 0o755)
os.environ["PATH"]=root+"/bin:"+os.environ["PATH"]
def create_command(texfile, outfile, outdir, context):
    return [sys.executable, root+"/bin/conv.py", texfile, outfile, root+"/log"]
def pipeline():
    w=Write(root+"/out", verbose=False)
    return Sequence(ToCSV(), MakeFilename("{{name}}"), w, RenderLaTeX("t.tex", template_dir=root+"/tpl"), w,
                    LaTeXToPDF(verbose=0, create_command=create_command), PDFToPNG(verbose=False))
def run(datas):
    open(root+"/log","w").close()
    flow=[(histogram([0,1,2], list(d)), {"name": "p%d"%i}) for i,d in enumerate(datas)]
    res=list(pipeline().run(iter(flow)))
    log=open(root+"/log").read().split("\n")[:-1]
    return res, log
def check(datas, res, label):
    probs=[]
    for i,d in enumerate(datas):
        base=root+"/out/p%d"%i
        csv_exp="\n".join("%f,%f"%(x,y) for x,y in zip([0,1,2], list(d)+[d[-1]]))
        for ext in ("csv","tex","pdf","png"):
            if not os.path.exists(base+"."+ext): probs.append("missing "+base+"."+ext)
        if os.path.exists(base+".csv") and open(base+".csv").read()!=csv_exp: probs.append("csv stale p%d"%i)
        tex_exp=open(root+"/tpl/t.tex").read().replace(r"\VAR{output.filepath}", base+".csv")
        if os.path.exists(base+".tex") and open(base+".tex").read()!=tex_exp: probs.append("tex stale p%d"%i)
        pdf_exp="PDF["+tex_exp+"|"+csv_exp+"]"
        if os.path.exists(base+".pdf") and open(base+".pdf").read()!=pdf_exp: probs.append("PDF STALE p%d"%i)
        if os.path.exists(base+".png") and open(base+".png").read()!=pdf_exp: probs.append("PNG STALE p%d"%i)
    return probs
scen=[]
# scenario A: unchanged second run -> nothing redone
d=[(1,2)]
r,log=run(d); print("A1 first:", check(d,r,""), log)
time.sleep(0.05)
r,log=run(d); print("A2 unchanged:", check(d,r,""), "log:", log, "changed flags:", [v[1]["output"].get("changed") for v in r])
# B: data changed
d=[(3,4)]; r,log=run(d); print("B data changed:", check(d,r,""), log)
# C: delete csv and change data simultaneously
os.remove(root+"/out/p0.csv"); d=[(5,6)]; r,log=run(d); print("C csv deleted + data changed:", check(d,r,""), log)
# D: delete pdf only
os.remove(root+"/out/p0.pdf"); r,log=run(d); print("D pdf deleted:", check(d,r,""), log)
# E: delete png only
os.remove(root+"/out/p0.png"); r,log=run(d); print("E png deleted:", check(d,r,""), log)
# F: delete tex only
os.remove(root+"/out/p0.tex"); r,log=run(d); print("F tex deleted:", check(d,r,""), log)
# G: template changed
open(root+"/tpl/t.tex","w").write(r"TEMPLATE v2 \VAR{output.filepath}"); r,log=run(d); print("G template changed:", check(d,r,""), log)
# H: delete csv only (data same)
os.remove(root+"/out/p0.csv"); r,log=run(d); print("H csv deleted same data:", check(d,r,""), log)
# I: delete tex + change data
os.remove(root+"/out/p0.tex"); d=[(7,8)]; r,log=run(d); print("I tex deleted + data changed:", check(d,r,""), log)
shutil.rmtree(root)
