import itertools, copy, warnings
warnings.simplefilter("ignore")
import lena.core, lena.flow, lena.context, lena.output, lena.variables, lena.meta
from lena.core import Sequence, Source, Split
from lena.flow import Slice, Count, Filter, RunIf, Print, CountFrom
class Src:
    def __init__(self, n=None): self.pulled=0; self.n=n
    def __iter__(self): return self
    def __next__(self):
        if self.n is not None and self.pulled>=self.n: raise StopIteration
        v=self.pulled; self.pulled+=1; return (v, {})
def need_profile(mk, n_in=None, k_max=6):
    src=Src(n_in); seq=mk()
    p0=src.pulled
    it=seq.run(src)
    prof=[src.pulled-p0]
    for k in range(k_max):
        try: next(it)
        except StopIteration: prof.append(("end",src.pulled)); break
        prof.append(src.pulled)
    return prof
tests = {
 "map": lambda: Sequence(lambda v: v),
 "map;map": lambda: Sequence(lambda v: v, lambda v: v),
 "var": lambda: Sequence(lena.variables.Variable("x", lambda d: d)),
 "filter even": lambda: Sequence(Filter(lambda v: v[0]%2==0)),
 "slice(3)": lambda: Sequence(Slice(3)),
 "slice(1,5,2)": lambda: Sequence(Slice(1,5,2)),
 "count": lambda: Sequence(Count()),
 "runif": lambda: Sequence(RunIf(lambda v: v[0]%2==0, lambda v: v)),
 "updctx": lambda: Sequence(lena.context.UpdateContext("a", 1)),
 "makefn": lambda: Sequence(lena.output.MakeFilename("f")),
 "split2 buf2": lambda: Sequence(Split([lambda v: v, lambda v: v], bufsize=2)),
 "split() buf2": lambda: Sequence(Split([], bufsize=2)),
 "split[slice(1)] buf3": lambda: Sequence(Split([(Slice(1),)], bufsize=3)),
 "map;slice(2)": lambda: Sequence(lambda v: v, Slice(2)),
 "slice(-2)": lambda: Sequence(Slice(-2)),
 "slice(1,-1)": lambda: Sequence(Slice(1,-1)),
 "slice(-3,None)": lambda: Sequence(Slice(-3,None)),
 "slice(-3,2)": lambda: Sequence(Slice(-3,2)),
 "slice(None,-1,2)": lambda: Sequence(Slice(None,-1,2)),
 "ucfs": lambda: Sequence(lena.meta.UpdateContextFromStatic()),
}
for name, mk in tests.items():
    print("%-22s inf: %-45s n=5: %s" % (name, need_profile(mk) if not name.startswith(("slice(-3","count")) or True and name not in ("slice(-3,None)","slice(-3,2)") else "-", need_profile(mk, 5, 8)))
