import itertools, copy, warnings, signal
warnings.simplefilter("ignore")
import lena.core, lena.flow, lena.math
from lena.core import FillRequest, FillRequestSeq, Split, LenaStopFill
class RunEl:
    def run(self, flow):
        for v in flow: yield ("r", v)
class FC:
    def __init__(self): self.v=[]
    def fill(self, x): self.v.append(x)
    def compute(self): yield ("c", tuple(self.v))
    def reset(self): self.v=[]
class FR:
    def __init__(self): self.v=[]
    def fill(self, x): self.v.append(x)
    def request(self): yield ("q", tuple(self.v))
    def reset(self): self.v=[]
def alarm(*a): raise TimeoutError()
signal.signal(signal.SIGALRM, alarm)
issues={}
def spec(kind, n, reset, yor, flow):
    out=[]; blocks=[flow[i:i+n] for i in range(0,len(flow),n)]
    acc=[]
    for b in blocks:
        full=len(b)==n
        if not full and not yor: break
        if kind=="run": out+= [("r",v) for v in b]
        else:
            if reset: cur=list(b)
            else: acc+=b; cur=list(acc)
            out.append(("c" if kind=="fc" else "q", tuple(cur)))
    return out
n_cases=0
for kind,mk in (("run",RunEl),("fc",FC),("fr",FR)):
  for n in range(1,5):
    for buf in ("in","out"):
      for reset in ((False,) if kind=="run" else (True,False)):
        for yor in (False,True):
          for L in range(0,8):
            flow=list(range(L)); n_cases+=1
            kw=dict(bufsize=n, reset=reset, yield_on_remainder=yor, buffer_input=(buf=="in"), buffer_output=(buf=="out"))
            try:
                signal.alarm(2)
                fr=FillRequest(mk(), **kw)
                got=list(fr.run(iter(flow)))
                signal.alarm(0)
            except TimeoutError: got="TIMEOUT"
            except Exception as e: signal.alarm(0); got=("EXC",type(e).__name__,str(e)[:50])
            exp=spec(kind,n,reset,yor,flow)
            if got!=exp:
                issues.setdefault(("run",kind,buf,reset,yor),[]).append((n,L,got,exp))
print("run cases",n_cases)
for k,v in issues.items(): print(k, len(v), v[0])
print("---- fill/request schedules")
issues={}; ok={}
for kind,mk in (("fc",FC),("fr",FR)):
  for n in range(1,4):
    for buf in ("in","out"):
      for reset in (True,False):
          for L in range(0,6):
            flow=list(range(L))
            for sched in itertools.product([0,1], repeat=L):   # request after fill i?
                kw=dict(bufsize=n, reset=reset, buffer_input=(buf=="in"), buffer_output=(buf=="out"))
                got=[]
                try:
                    signal.setitimer(signal.ITIMER_REAL, 0.05)
                    fr=FillRequest(mk(), **kw)
                    for i,v in enumerate(flow):
                        fr.fill(v)
                        if sched[i]: got+=list(fr.request())
                    got+=list(fr.request())
                    signal.setitimer(signal.ITIMER_REAL, 0)
                except TimeoutError: got="TIMEOUT"
                except Exception as e: signal.setitimer(signal.ITIMER_REAL, 0); got=("EXC",type(e).__name__,str(e)[:50])
                exp=spec(kind,n,reset,False,flow)
                aligned = all((i+1)%n==0 for i in range(L) if sched[i])
                key=(kind,buf,reset,"aligned" if aligned else "misaligned", n)
                if got!=exp: issues.setdefault(key,[]).append((L,sched,got,exp))
                else: ok[key]=ok.get(key,0)+1
for k in sorted(set(list(issues)+list(ok))):
    v=issues.get(k,[])
    print(k, "ok",ok.get(k,0),"bad",len(v), (v[0] if v else ""))
