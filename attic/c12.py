import itertools, copy, warnings, random, math
warnings.simplefilter("ignore")
import lena.core, lena.flow, lena.structures, lena.output, lena.math
from lena.structures import histogram, graph, hist_to_graph, iter_bins, iter_bins_with_edges, iter_cells
from lena.output import hist1d_to_csv, hist2d_to_csv, ToCSV
random.seed(2)
def rnd_hist(dim):
    edges=[sorted(random.sample(range(-5,10), random.randint(2,4))) for _ in range(dim)]
    def mk(d):
        if d==dim-1: return [random.choice([0,1,2,3.5,-1]) for _ in range(len(edges[d])-1)]
        return [mk(d+1) for _ in range(len(edges[d])-1)]
    h=histogram(edges if dim>1 else edges[0], mk(0)); h.n_out_of_range=random.choice([0,2,1.5]); return h
issues=set()
for _ in range(3000):
    dim=random.randint(1,3); h=rnd_hist(dim); h0=copy.deepcopy(h)
    s=random.choice([1,2,0.5,-3,10])
    old=h.scale()
    try:
        h.scale(s)
    except lena.core.LenaValueError:
        if old!=0: issues.add("scale raised with nonzero scale")
        continue
    if old==0: issues.add("scale 0 not raised"); continue
    f=s/old
    exp=lena.math.md_map(lambda b: b*f, h0.bins)
    if not lena.math.isclose(h.bins, exp, rel_tol=1e-9, abs_tol=1e-12): issues.add("bins not scaled")
    if h.edges!=h0.edges: issues.add("edges changed")
    if not math.isclose(h.n_out_of_range, h0.n_out_of_range*f, rel_tol=1e-9, abs_tol=1e-12): issues.add("noor not scaled")
    if not math.isclose(h.scale(recompute=True), s, rel_tol=1e-9, abs_tol=1e-9): issues.add(("recomputed scale", h.scale(recompute=True), s))
    # iterators agree
    a=list(iter_bins(h.bins)); b=list(iter_bins_with_edges(h.bins,h.edges)); c=list(iter_cells(h))
    if not (len(a)==len(b)==len(c)): issues.add("iter len")
    for (ind,val),(val2,edg),cell in zip(a,b,c):
        if val!=val2 or val!=cell.bin or tuple(ind)!=tuple(cell.index): issues.add(("iter disagree", repr(ind), repr(cell.index)))
        ce = cell.edges if dim>1 else (cell.edges,)
        if tuple(tuple(x) for x in ce)!=tuple(tuple(x) for x in edg): issues.add(("edges disagree", repr(ce), repr(edg)))
    # add
    h2=rnd_hist(dim); 
    if h2.edges==h.edges:
        w=random.choice([1,2,-1]); hb=copy.deepcopy(h); h2b=copy.deepcopy(h2)
        r=h.add(h2,w)
        if h!=hb or h2!=h2b: issues.add("add modified operand")
    # set_nevents
    for inc in (False,True):
        hh=copy.deepcopy(h0); n=random.choice([1,10,2.5])
        try:
            hh.set_nevents(n, include_out_of_range=inc)
            if not math.isclose(hh.get_nevents(include_out_of_range=inc), n, rel_tol=1e-9): issues.add(("set_nevents", inc, hh.get_nevents(inc), n))
        except lena.core.LenaValueError: pass
    # hist_to_graph
    for gc in ("left","right","middle"):
        if dim<=2:
            g=hist_to_graph(h0, get_coordinate=gc, field_names=("x","y","z")[:dim+1])
            pts=list(g)
            cells=list(iter_bins_with_edges(h0.bins,h0.edges))
            if len(pts)!=len(cells): issues.add("h2g len")
            for p,(v,e) in zip(pts,cells):
                co=tuple({"left":x[0],"right":x[1],"middle":0.5*(x[0]+x[1])}[gc] for x in e)
                if tuple(p[:-1])!=co or p[-1]!=v: issues.add(("h2g pt",gc,p,co,v))
print("hist issues:", issues)
# csv
issues=set()
for _ in range(500):
    for dim in (1,2):
        h=rnd_hist(dim)
        for dup in (True,False):
            lines=list(hist1d_to_csv(h,duplicate_last_bin=dup)) if dim==1 else list(hist2d_to_csv(h,duplicate_last_bin=dup))
            rows=[tuple(float(x) for x in l.split(",")) for l in lines]
            if dim==1:
                exp=[(e,b) for e,b in zip(h.edges[:-1],h.bins)] + ([(h.edges[-1],h.bins[-1])] if dup else [])
            else:
                ex,ey=h.edges; exp=[]
                for i,x in enumerate(ex[:-1]):
                    for j,y in enumerate(ey[:-1]): exp.append((x,y,h.bins[i][j]))
                    if dup: exp.append((x,ey[-1],h.bins[i][-1]))
                if dup:
                    for j,y in enumerate(ey[:-1]): exp.append((ex[-1],y,h.bins[-1][j]))
                    exp.append((ex[-1],ey[-1],h.bins[-1][-1]))
            if len(rows)!=len(exp) or any(not all(math.isclose(a,b,abs_tol=1e-6) for a,b in zip(r,e)) for r,e in zip(rows,exp)):
                issues.add((dim,dup)); 
                if len(issues)<3: print(h, dup, rows, exp)
print("csv issues:", issues)
# graph scale
issues=set()
for names in [("x","y"),("x","y","error_y"),("x","y","error_x","error_y_low","error_y_high"),("x","y","z","error_z","error_x"),("x",), ("x","error_x")]:
    n=4; coords=[[random.choice([1,2,3.5,-1]) for _ in range(n)] for _ in names]
    g=graph(copy.deepcopy(coords), field_names=names, scale=2)
    g.scale(5)
    dim=g.dim; last=names[dim-1]
    for i,nm in enumerate(names):
        should = (i==dim-1) or (nm.startswith("error_") and (nm[6:]==last or nm[6:].startswith(last+"_")))
        exp=[c*2.5 for c in coords[i]] if should else coords[i]
        if not lena.math.isclose(g.coords[i], exp): issues.add((names,nm))
    if g.scale()!=5: issues.add("scale val")
    for sc in (0,None):
        try: graph(copy.deepcopy(coords), field_names=names, scale=sc).scale(3); issues.add(("no raise",sc))
        except lena.core.LenaValueError: pass
print("graph issues:", issues)
