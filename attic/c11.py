import itertools, copy, warnings, random
warnings.simplefilter("ignore")
import lena.core, lena.flow, lena.structures, lena.math, lena.variables
from lena.structures import SplitIntoBins, IterateBins, MapBins, histogram, get_bin_on_value
from lena.variables import Variable
from lena.core import FillComputeSeq, Sequence
from lena.math import Sum, Mean
from lena.flow import Count, StoreFilled
random.seed(4)
issues=set()
def analyses():
    yield "sum", lambda: (lambda v: lena.flow.get_data(v)[0], Sum(),)
    yield "store", lambda: (StoreFilled(),)
    yield "pre-sum-post", lambda: (lambda v: (lena.flow.get_data(v)[0]*2, dict(lena.flow.get_context(v), z=1)), Sum(), lambda v: ("post", v))
    yield "mutctx", lambda: (Variable("x", lambda d: d[0]), lena.core.FillCompute(Count()),)
    yield "multi", lambda: (StoreFilled(yield_as_a_group=False),)
for dim in (1,2):
  for name, mk in analyses():
    for trial in range(30):
        edges1=[sorted(random.sample(range(0,8), random.randint(2,4))) for _ in range(dim)]
        edges = edges1[0] if dim==1 else edges1
        arg = Variable("arg", (lambda d: d[0]) if dim==1 else (lambda d: (d[0], d[1])), type="coord")
        flow=[]
        for _ in range(random.randint(0,10)):
            d=(random.choice(range(-1,9)), random.choice(range(-1,9)))
            flow.append(random.choice([d, (d, {"k": random.randint(0,2)})]))
        sib=SplitIntoBins(FillComputeSeq(*mk()), arg, edges)
        for v in copy.deepcopy(flow): sib.fill(v)
        try: res=list(sib.compute())
        except Exception as e: issues.add((name,dim,"compute EXC",type(e).__name__,str(e)[:60])); continue
        # reference: per cell
        shape=[len(e)-1 for e in edges1]
        cells={idx:[] for idx in itertools.product(*[range(n) for n in shape])}
        for v in flow:
            d=lena.flow.get_data(v); a=arg.getter(d)
            idx=get_bin_on_value(a, edges)
            if all(0<=i<n for i,n in zip(idx,shape)): cells[tuple(idx)].append(v)
        ref={}
        for idx,sub in cells.items():
            fcs=FillComputeSeq(*mk())
            for v in copy.deepcopy(sub): fcs.fill(v)
            ref[idx]=list(fcs.compute())
        nres=min(len(r) for r in ref.values())
        if len(res)!=nres: issues.add((name,dim,"n results",len(res),nres)); continue
        for k,(h,ctx) in enumerate(res):
            if not isinstance(h, histogram) or h.edges!=edges: issues.add((name,dim,"edges")); 
            for idx in cells:
                b=h.bins
                for i in idx: b=b[i]
                if repr(b)!=repr(ref[idx][k]): issues.add((name,dim,"cell content")); 
                if len(issues)<3 and repr(b)!=repr(ref[idx][k]): print(name,dim,idx,b,ref[idx][k])
            if flow and any(cells.values()) and ctx.get("variable",{}).get("name")!="arg": issues.add((name,dim,"variable ctx", repr(ctx)[:80]))
        # compute twice: nested?
        res2=list(sib.compute())
        if repr([c for _,c in res])!=repr([c for _,c in res2]): issues.add((name,dim,"second compute context differs"))
print(issues)
# IterateBins / MapBins
h=histogram([[0,1,2],[0,5]], [[histogram([0,1],[3])],[histogram([0,1],[4])]])
out=list(IterateBins().run([(h,{"variable":{"name":"xy","combine":[{"name":"x"},{"name":"y"}]}})]))
print(len(out), [ (o[0].bins, o[1]["bin"]["edges"]) for o in out])
h=histogram([[0,1,2],[0,5,6]], [[(1,{"a":1}),(2,{"a":1})],[(3,{"a":1}),(4,{"a":1})]])
out=list(MapBins(lambda v: (lena.flow.get_data(v)*10, lena.flow.get_context(v))).run([h]))
print([(o[0].bins,o[0].edges,o[1]) for o in out])
