import bisect, math, random, itertools, warnings
warnings.simplefilter("ignore")
from lena.structures import get_bin_on_value_1d, get_bin_on_value, histogram, Histogram
random.seed(1)
bad=0;n=0
def ref(val, arr): return bisect.bisect_right(arr, val)-1
def gen_edges():
    k=random.randint(2,12)
    mode=random.choice(["int","uniform","nonuni","tiny","huge","mixed"])
    if mode=="int": xs=sorted(random.sample(range(-50,50),k))
    elif mode=="uniform": a=random.uniform(-10,10); h=random.uniform(1e-3,5); xs=[a+i*h for i in range(k)]
    elif mode=="nonuni": xs=sorted(set(random.choice([1e-9,1e-3,1,1e3,1e9])*random.random()*random.choice([-1,1]) for _ in range(k)))
    elif mode=="tiny": xs=sorted(set(random.uniform(-1,1)*1e-300 for _ in range(k)))
    elif mode=="huge": xs=sorted(set(random.uniform(-1,1)*1e300 for _ in range(k)))
    else: xs=sorted(set([0,1,1.0000000001,2,1e9,1e9+1][:k]))
    xs=sorted(set(xs))
    return xs if len(xs)>=2 else [0,1]
for _ in range(20000):
    arr=gen_edges()
    cands=set()
    for e in arr:
        cands.update([e, math.nextafter(e,math.inf), math.nextafter(e,-math.inf)])
    cands.update([arr[0]-1e6, arr[-1]+1e6, (arr[0]+arr[-1])/2, random.uniform(arr[0],arr[-1])])
    for v in cands:
        n+=1
        try: got=get_bin_on_value_1d(v,arr)
        except Exception as e: got=("EXC",type(e).__name__,str(e))
        if got!=ref(v,arr):
            bad+=1
            if bad<10: print("MISMATCH", v, arr, got, ref(v,arr))
print("1d cases",n,"bad",bad)
# single-edge array (len 1) – precondition of histogram requires >=2, but function total?
print(get_bin_on_value_1d(0,[1]), get_bin_on_value_1d(1,[1]), get_bin_on_value_1d(2,[1]))
# histogram fill nD conservation
bad=0
for _ in range(3000):
    dim=random.randint(1,3)
    edges=[gen_edges()[:random.randint(2,5)] for _ in range(dim)]
    edges=[e if len(e)>=2 else [0,1] for e in edges]
    h=histogram(edges if dim>1 else edges[0])
    import copy
    tot=0
    for _ in range(10):
        coord=[random.choice(e+[e[0]-1,e[-1]+1,(e[0]+e[-1])/2]) for e in edges]
        w=random.choice([1,2,0.5,-1])
        before=copy.deepcopy(h.bins); noor=h.n_out_of_range
        h.fill(coord if dim>1 else coord[0], w)
        idx=[ref(c,e) for c,e in zip(coord,edges)]
        inr=all(0<=i<len(e)-1 for i,e in zip(idx,edges))
        exp=copy.deepcopy(before)
        if inr:
            sub=exp
            for i in idx[:-1]: sub=sub[i]
            sub[idx[-1]]+=w
            okk = h.bins==exp and h.n_out_of_range==noor
        else:
            okk = h.bins==before and h.n_out_of_range==noor+w
        if not okk:
            bad+=1
            if bad<5: print("FILL BAD", edges, coord, w, before, h.bins, noor, h.n_out_of_range)
print("fill bad",bad)
# 1-d hist with tuple coord? 
h=histogram([0,1,2]); 
try: h.fill([0.5]); print("fill [0.5] on 1d:", h.bins, h.n_out_of_range)
except Exception as e: print("fill list on 1d:", type(e).__name__, e)
h=histogram([[0,1,2]]); h.fill([0.5]); print("1 dim nested edges:", h.bins, h.dim)
h=histogram([[0,1,2],[0,1]]); h.fill([0.5, 5]); h.fill([5,0.5]); h.fill([-1,0.5]); print(h.bins, h.n_out_of_range)
