import ast, collections, sys
targets = {
 "lena/core/sequence.py": ["Sequence.__init__","Sequence.run"],
 "lena/core/source.py": ["Source.__init__","Source.__call__"],
 "lena/core/lena_sequence.py": ["LenaSequence.__init__","LenaSequence._get_context","LenaSequence._set_context"],
 "lena/core/meta.py": ["alter_sequence","flatten"],
 "lena/core/functions.py": ["flow_to_iter"],
 "lena/core/adapters.py": ["_init_callable","Call.__init__","Call.__call__","FillCompute.__init__","FillInto.__init__","FillInto.fill_into","FillInto._run_fill_into",
      "FillRequest.__init__","FillRequest.fill","FillRequest.request","FillRequest._run_fill_compute","FillRequest._run_run","Run.__init__","Run._call_run","Run._fc_run","SourceEl.__init__","SourceEl.__call__"],
 "lena/core/split.py": ["_get_seq_with_type","LenaSplit.__init__","LenaSplit._get_context","LenaSplit._set_context","Split.__init__","Split.__call__","Split._fill","Split._compute","Split._request","Split._empty_run","Split.run"],
 "lena/core/fill_seq.py": ["_Fill.fill","FillSeq.__init__"],
 "lena/core/fill_compute_seq.py": ["_init_sequence_with_el","FillComputeSeq.__init__","FillComputeSeq.compute"],
 "lena/core/fill_request_seq.py": ["FillRequestSeq.__init__","FillRequestSeq.request","FillRequestSeq.reset"],
 "lena/core/check_sequence_type.py": ["is_fill_compute_el","is_fill_compute_seq","is_fill_request_el","is_fill_request_seq","is_run_el","is_source"],
 "lena/flow/zip.py": ["Zip.__init__","Zip._create_context","Zip._fill","Zip._compute","Zip._request","Zip._yield"],
 "lena/flow/iterators.py": ["Chain.__call__","CountFrom.__init__","CountFrom.__call__","Reverse.run","Slice.__init__","Slice.fill_into","Slice._run_negative_islice","Slice.run"],
 "lena/flow/elements.py": ["Count.fill","Count.compute","Count.fill_into","Count.reset","Count.run","RunIf.__init__","RunIf.run","RunningChunkBy.__init__","RunningChunkBy.run","StoreFilled.fill","StoreFilled.compute","StoreFilled.reset","End.run"],
 "lena/flow/filter.py": ["Filter.__init__","Filter.fill_into","Filter.run"],
 "lena/flow/functions.py": ["get_context","get_data","get_data_context","_has_context","seq_map"],
 "lena/flow/selectors.py": ["Selector.__init__","Selector.__call__","SelectContext.__init__","SelectContext.__call__","And.__init__","And.__call__","Or.__init__","Or.__call__","Not.__init__","Not.__call__"],
 "lena/flow/group_by.py": ["GroupBy.__init__","GroupBy.fill","GroupBy.compute","GroupBy.reset"],
 "lena/flow/group_plots.py": ["_update_with_group","MapGroup.__init__","MapGroup.run","group_plots"],
 "lena/flow/group_scale.py": ["scale_to","GroupScale.__call__"],
 "lena/flow/cache.py": ["Cache.__init__","Cache.cache_exists","Cache.drop_cache","Cache.run","Cache._set_context","Cache.alter_sequence","Cache._dump_flow_and_yield","Cache._load_flow"],
 "lena/context/functions.py": ["contains","difference","format_context","format_update_with","get_recursively","intersection","str_to_dict","str_to_list","to_string","update_nested","update_recursively"],
 "lena/context/update_context.py": ["UpdateContext.__init__","UpdateContext.__call__"],
 "lena/context/elements.py": ["DeleteContext.__init__","DeleteContext.__call__"],
 "lena/context/include_exclude_tree.py": ["_group_by_starting_prefixes","_split_key","_startswith","IncludeExcludeTree.get","_make_include_exclude_tree","make_include_exclude_tree"],
 "lena/meta/elements.py": ["SetContext.__init__","SetContext._get_context","SetContext._set_context","StoreContext._set_context","UpdateContextFromStatic._set_context","UpdateContextFromStatic.run"],
 "lena/math/elements.py": ["Mean.__init__","Mean.fill","Mean.compute","Mean.reset","DSum.__init__","DSum.fill","DSum.compute","DSum.reset","Sum.__init__","Sum.fill","Sum.compute","Sum.reset",
      "VarianceMeanCount.__init__","VarianceMeanCount.fill","VarianceMeanCount.compute","VarianceMeanCount._reset","Vectorize.__init__","Vectorize.fill","Vectorize.compute","Vectorize.reset"],
 "lena/math/meshes.py": ["md_map","flatten","mesh"],
 "lena/structures/hist_functions.py": ["_check_edges_increasing_1d","check_edges_increasing","get_bin_edges","get_bin_on_index","get_bin_on_value_1d","get_bin_on_value","get_example_bin","hist_to_graph","init_bins","integral","iter_bins","iter_bins_with_edges","iter_cells","unify_1_md"],
 "lena/structures/histogram.py": ["histogram.__init__","histogram.add","histogram.fill","histogram.get_nevents","histogram.set_nevents","histogram.scale","histogram._update_context","Histogram.__init__","Histogram.fill","Histogram.compute","Histogram.reset"],
 "lena/structures/graph.py": ["graph.__init__","graph._get_err_indices","graph.scale","graph._parse_error_names","graph.__iter__"],
 "lena/structures/elements.py": ["HistToGraph.__init__","HistToGraph.run","ScaleTo.__call__"],
 "lena/structures/split_into_bins.py": ["_MdSeqMap.__init__","_MdSeqMap.next","IterateBins.__init__","IterateBins.run","MapBins.__init__","MapBins.run","SplitIntoBins.__init__","SplitIntoBins.fill","SplitIntoBins.compute"],
 "lena/variables/variable.py": ["Variable.__init__","Variable.__call__","Variable._update_context","Combine.__init__","Compose.__init__"],
 "lena/output/to_csv.py": ["iterable_to_table","hist1d_to_csv","hist2d_to_csv","ToCSV.run"],
 "lena/output/write.py": ["Write.__init__","Write._make_filename","Write.run","Write._set_context","Write._write_data"],
 "lena/output/make_filename.py": ["MakeFilename.__init__","MakeFilename._set_context","MakeFilename.__call__"],
 "lena/output/render_latex.py": ["_is_csv","_select_template_or_default","RenderLaTeX.__init__","RenderLaTeX.run"],
 "lena/output/latex_to_pdf.py": ["LaTeXToPDF.__init__","LaTeXToPDF.run"],
 "lena/output/pdf_to_png.py": ["_run_command","PDFToPNG.run"],
}
def find(tree, qual):
    parts=qual.split("."); node=tree
    for p in parts:
        for ch in ast.iter_child_nodes(node):
            if isinstance(ch,(ast.FunctionDef,ast.ClassDef)) and ch.name==p: node=ch; break
        else: return None
    return node
tot=0; stats=collections.Counter(); per={}
hard = (ast.With, ast.Lambda, ast.ListComp, ast.GeneratorExp, ast.DictComp, ast.SetComp, ast.Try, ast.Starred, ast.Global, ast.Nonlocal, ast.Delete, ast.Yield, ast.YieldFrom, ast.While, ast.For, ast.ClassDef, ast.Import, ast.ImportFrom, ast.Assert, ast.IfExp)
missing=[]; lines=0
for f,quals in targets.items():
    tree=ast.parse(open("/repo/"+f).read())
    for q in quals:
        fn=find(tree,q)
        if fn is None: missing.append((f,q)); continue
        tot+=1; lines+=fn.end_lineno-fn.lineno+1
        c=collections.Counter()
        nested=[n for n in ast.walk(fn) if isinstance(n,ast.FunctionDef) and n is not fn]
        if nested: c["nested def"]=len(nested)
        for n in ast.walk(fn):
            if isinstance(n,hard): c[type(n).__name__]+=1
            if isinstance(n,ast.Call) and any(isinstance(a,ast.Starred) for a in n.args): c["call *args"]+=1
            if isinstance(n,ast.Call) and n.keywords and any(k.arg is None for k in n.keywords): c["call **kw"]+=1
        per[(f,q)]=c; stats.update({k:1 for k in c})
print("functions",tot,"lines",lines,"missing",missing)
print("functions using construct:", dict(stats))
print("\nfunctions with With/Lambda/nested def/comprehension/Delete/*args:")
for (f,q),c in per.items():
    keys=[k for k in c if k in ("With","Lambda","nested def","ListComp","GeneratorExp","DictComp","SetComp","Delete","call *args","call **kw","Global","ClassDef","YieldFrom")]
    if keys: print("  %-55s %s" % (f.split("/",1)[1]+":"+q, {k:c[k] for k in keys}))
