import itertools, copy, warnings, os
warnings.simplefilter("ignore")
import lena.core, lena.flow, lena.math, lena.variables
from lena.core import Sequence, Source, Split, LenaTypeError
from lena.flow import Filter, Slice, Count, RunIf, Reverse, End, Cache
from lena.math import Sum
from lena.variables import Variable
makers = [lambda: (lambda v: lena.flow.get_data(v)+1), lambda: Variable("d", lambda x: x*2), lambda: Filter(lambda v: lena.flow.get_data(v)%2==0),
          lambda: Slice(1,4), lambda: Count(), lambda: RunIf(lambda v: lena.flow.get_data(v)>2, lambda v: lena.flow.get_data(v)*10), lambda: Reverse(),
          lambda: Sum(), lambda: Split([lambda v: v, Sum()], bufsize=2), lambda: End(), lambda: Slice(-1)]
def bracketings(items):
    # all ways to group a list into nested sequences (one level of contiguous grouping + recursive)
    n=len(items)
    yield list(items)
    for i in range(n):
        for j in range(i+1,n+1):
            if j-i>=1 and not (i==0 and j==n):
                yield items[:i]+[("SEQ", items[i:j])]+items[j:]
    if n>=1: yield [("SEQ", list(items))]
    if n>=3: yield [("SEQ",[items[0],("SEQ",items[1:-1])]), items[-1]]
def build(struct):
    out=[]
    for it in struct:
        if isinstance(it, tuple) and it[0]=="SEQ": out.append(Sequence(*build(it[1])))
        else: out.append(makers[it]())
    return out
bad=0;n=0
for k in range(0,4):
    for combo in itertools.product(range(len(makers)), repeat=k):
        for L in (0,1,4):
            flow=[ (i if i%2 else (i,{"c":i})) for i in range(L)]
            ref=None
            for b in bracketings(list(combo)):
                n+=1
                try: got=repr(list(Sequence(*build(b)).run(iter(copy.deepcopy(flow)))))
                except Exception as e: got=("EXC",type(e).__name__)
                if ref is None: ref=got
                elif got!=ref:
                    bad+=1
                    if bad<6: print("DIFF", combo, b, L, got[:120], "| flat:", ref[:120])
            # Source tail
            try: s=repr(list(Source(lambda: iter(copy.deepcopy(flow)), *build(list(combo)))()))
            except Exception as e: s=("EXC",type(e).__name__)
            if s!=ref:
                bad+=1
                if bad<6: print("SOURCE DIFF", combo, L, s[:100], ref[:100])
print("cases",n,"bad",bad)
for x in [5, "str", None, [1,2], {"a":1}]:
    try: Sequence(lambda v: v, x); print("accepted", repr(x))
    except LenaTypeError: pass
    except Exception as e: print("other exc at construction", repr(x), type(e).__name__)
