import itertools, copy, warnings, os, tempfile, shutil
warnings.simplefilter("ignore")
import lena.core, lena.flow, lena.structures, lena.output, lena.variables
from lena.structures import histogram, HistToGraph, MapBins, IterateBins
from lena.output import ToCSV, Write, RenderLaTeX, LaTeXToPDF, PDFToPNG
from lena.flow import RunIf, MapGroup
tmp=tempfile.mkdtemp(dir="/tmp/explore"); os.chdir(tmp)
class Foreign: pass
fo=Foreign()
def unselected():
    return [1, "a string", (1,2), (3,{"x":1}), fo, (fo,{"y":2}), ("data",{"output":{"write":False,"to_csv":False,"filetype":"txt"}}),
            (histogram([0,1,2],[1,2]), {"output":{"to_csv":False}, "histogram":{"to_graph":False}}), None, [1,2], 2.5, {"a":1}]
els = {
 "ToCSV": lambda: ToCSV(),
 "Write": lambda: Write(tmp+"/out", verbose=False),
 "RenderLaTeX": lambda: RenderLaTeX("t.tex", template_dir=tmp),
 "LaTeXToPDF": lambda: LaTeXToPDF(verbose=0),
 "PDFToPNG": lambda: PDFToPNG(verbose=False),
 "HistToGraph": lambda: HistToGraph(),
 "MapBins": lambda: MapBins(lambda x: x, select_bins=lambda b: False),
 "MapBins2": lambda: MapBins(lambda x: x),
 "IterateBins": lambda: IterateBins(),
 "RunIf": lambda: RunIf(lambda v: False, lambda x: x),
 "MapGroup": lambda: MapGroup(lambda x: x, map_scalars=False),
}
for name, mk in els.items():
    uns = unselected()
    if name=="Write": uns=[u for u in uns if not isinstance(lena.flow.get_data(u), str) or lena.flow.get_context(u).get("output",{}).get("write") is False]
    if name in ("MapBins2","IterateBins","HistToGraph"): uns=[u for u in uns if not isinstance(lena.flow.get_data(u), histogram) or name=="HistToGraph"]
    if name=="MapBins2": uns=[u for u in uns if not isinstance(lena.flow.get_data(u), histogram)]
    if name=="IterateBins": pass
    before=sorted(os.listdir(tmp))
    snap=[copy.deepcopy(u) if not isinstance(lena.flow.get_data(u),Foreign) else None for u in uns]
    try:
        out=list(mk().run(iter(uns)))
    except Exception as e:
        print(name,"EXC",type(e).__name__,str(e)[:100]); continue
    same = len(out)==len(uns) and all(a is b for a,b in zip(out,uns))
    after=sorted(os.listdir(tmp))
    unchanged = all(s is None or repr(s)==repr(u) for s,u in zip(snap,uns))
    print(name, "identity+order:", same, "fs untouched:", before==after, "values unmodified:", unchanged)
    if not same:
        for a,b in zip(out,uns):
            if a is not b: print("    ", repr(b)[:80], "->", repr(a)[:80])
shutil.rmtree(tmp)
