import itertools, copy, warnings, os
warnings.simplefilter("ignore")
import lena.core, lena.flow
from lena.core import Sequence, Source, Split, alter_sequence
from lena.flow import Cache
os.chdir("/tmp/explore")
for f in ("k1.pkl","k2.pkl"):
    if os.path.exists(f): os.remove(f)
log=[]
def up(v): log.append(("up",v)); return v
def mid(v): log.append(("mid",v)); return v*10
class Src:
    def __call__(self):
        for i in range(3): log.append(("pull",i)); yield i
def mkseq(): return Source(Src(), up, Cache("k1.pkl"), mid, Cache("k2.pkl"), lambda v: v+1)
r1=list(mkseq()()); n1=len(log); log.clear()
r2=list(mkseq()()); print("second run same:", r1==r2, "upstream events:", log); log.clear()
s=alter_sequence(mkseq()); print(type(s).__name__, len(s)); r3=list(s()); print("altered same:", r3==r1, "events:", log); log.clear()
os.remove("k2.pkl"); r4=list(mkseq()()); print("k2 dropped:", r4==r1, log); log.clear()
c=Cache("k1.pkl", recompute=True); print("recompute exists:", c.cache_exists())
c=Cache("k1.pkl"); c.drop_cache(); print("dropped:", c.cache_exists())
# exception upstream at value k
os.remove("k2.pkl")
def boom(v):
    if v==2: raise ValueError("x")
    return v
try: list(Source(Src(), boom, Cache("k1.pkl"))())
except ValueError: pass
print("after upstream raise, cache serves:", list(Sequence(Cache("k1.pkl")).run(iter([0,1,2]))))
os.remove("k1.pkl")
# downstream raise
try: list(Source(Src(), Cache("k1.pkl"), boom)())
except ValueError: pass
print("after downstream raise, cache serves:", list(Sequence(Cache("k1.pkl")).run(iter([0,1,2]))))
os.remove("k1.pkl")
# cache inside Split branch
