import itertools, copy, warnings
warnings.simplefilter("ignore")
from lena.context import intersection, difference, update_recursively, update_nested
leaves=[0, False, None, "", 1, "a", [], {}]
keys="ab"
def dicts(depth):
    vals=list(leaves)
    if depth>1: vals=vals+[d for d in dicts(depth-1) if d]   # nested non-empty dicts (empty dict already a leaf)
    out=[]
    for present in itertools.product([0,1], repeat=len(keys)):
        ks=[k for k,p in zip(keys,present) if p]
        for combo in itertools.product(vals, repeat=len(ks)):
            out.append(dict(zip(ks,combo)))
    return out
D1=dicts(1); D2=dicts(2)
print(len(D1), len(D2))
def contained(a,b):
    # every item of a is in b (recursively)
    for k,v in a.items():
        if k not in b: return False
        if v==b[k] : continue
        if isinstance(v,dict) and isinstance(b[k],dict) and contained(v,b[k]): continue
        return False
    return True
import random; random.seed(7)
S=random.sample(D2, 220)
iss={}
def note(k,ex): iss.setdefault(k,ex)
for a in S:
    if intersection(a,a)!=a: note("idempotent",(a,))
    for b in S:
        i=intersection(a,b)
        if i!=intersection(b,a): note("commutative",(a,b,i,intersection(b,a)))
        if not (contained(i,a) and contained(i,b)): note("inter not contained",(a,b,i))
        d=difference(a,b)
        ac=copy.deepcopy(a); bc=copy.deepcopy(b)
        r=copy.deepcopy(i); update_recursively(r, copy.deepcopy(d))
        if r!=a: note("reconstruct",(a,b,i,d,r))
        if a!=ac or b!=bc: note("arg modified",(a,b))
S3=random.sample(D2, 40)
for a in S3:
  for b in S3:
    for c in S3:
        if intersection(intersection(a,b),c)!=intersection(a,intersection(b,c)): note("assoc",(a,b,c))
        if intersection(a,b,c)!=intersection(intersection(a,b),c): note("nary",(a,b,c))
for k,v in iss.items(): print(k, v)
# reconstruct failures only due to falsy? classify
cnt=0; nonfalsy=0
for a in S:
    for b in S:
        i=intersection(a,b); d=difference(a,b); r=copy.deepcopy(i); update_recursively(r, copy.deepcopy(d))
        if r!=a:
            cnt+=1
print("reconstruct failures", cnt, "of", len(S)**2)
