import itertools, copy, warnings
warnings.simplefilter("ignore")
import lena.core, lena.flow, lena.math, lena.context, lena.output, lena.variables, lena.structures
from lena.core import Split, Sequence, FillComputeSeq
from lena.flow import Zip, Count, StoreFilled
from lena.math import Sum, Mean, DSum, VarianceMeanCount, Vectorize
from lena.variables import Variable
def mutator(tag):
    def f(v):
        d,c=lena.flow.get_data_context(v); c.setdefault("seen",[]).append(tag)
        if isinstance(d,list): d.append(tag)
        return (d,c)
    return f
def ids(x, acc=None):
    acc=set() if acc is None else acc
    if isinstance(x,(dict,list)):
        if id(x) in acc: return acc
        acc.add(id(x)); 
        for y in (x.values() if isinstance(x,dict) else x): ids(y,acc)
    elif isinstance(x,tuple):
        for y in x: ids(y,acc)
    return acc
branches = {
 "mut;store": lambda t: (mutator(t), StoreFilled()),
 "var;sum": lambda t: (Variable("v"+t, lambda d: len(d)), Sum()),
 "upd;count": lambda t: (lena.context.UpdateContext("k"+t, t), lena.core.FillCompute(Count())),
 "mut": lambda t: (mutator(t),),
 "mkfn;mut": lambda t: (lena.output.MakeFilename("f"+t), mutator(t)),
}
bad=0;n=0
for names in itertools.product(branches, repeat=2):
  for bufsize in (1,2,5,None):
    for L in (0,1,3):
        flow=[([i],{"c":{"i":i}}) for i in range(L)]
        n+=1
        sp=Split([branches[nm](str(j)) for j,nm in enumerate(names)], bufsize=bufsize)
        got=list(sp.run(iter(copy.deepcopy(flow))))
        # alone
        exp_parts=[]
        for j,nm in enumerate(names):
            alone=list(Split([branches[nm](str(j))], bufsize=bufsize).run(iter(copy.deepcopy(flow))))
            exp_parts.append(alone)
        # compare multiset of reprs (schedule order differs); each branch tagged by j in outputs
        if sorted(map(repr,got))!=sorted(map(repr,[x for p in exp_parts for x in p])):
            bad+=1
            if bad<4: print("INTERFERENCE", names, bufsize, L, got, exp_parts)
print("split run cases",n,"bad",bad)
# fill driven
bad=0
for names in itertools.product([k for k in branches if "store" in k or "sum" in k or "count" in k], repeat=2):
    sp=Split([branches[nm](str(j)) for j,nm in enumerate(names)])
    flow=[([i],{"c":{"i":i}}) for i in range(3)]
    src=copy.deepcopy(flow)
    for v in src: sp.fill(v)
    got=list(sp.compute())
    exp=[]
    for j,nm in enumerate(names):
        f=FillComputeSeq(*branches[nm](str(j)))
        for v in copy.deepcopy(flow): f.fill(v)
        exp+=list(f.compute())
    if repr(got)!=repr(exp): bad+=1; print("FILL INTERFERENCE", names, got, exp)
print("fill bad",bad)
# accumulators: yielded ctx shares nothing with filled ctx nor earlier yields
accs={"Sum":Sum,"DSum":DSum,"Mean":Mean,"VMC":VarianceMeanCount,"Vec":lambda: Vectorize(Sum(),dim=1),"Count":Count,"Store":StoreFilled,"Hist":lambda: lena.structures.Histogram([0,5,10])}
for nm,mk in accs.items():
    el=mk(); vals=[((i if nm!="Vec" else [i]),{"c":{"i":i},"l":[1]}) for i in range(1,4)]
    for v in vals: el.fill(v)
    y1=list(el.compute()); y2=list(el.compute())
    fid=ids(vals); 
    c1=[lena.flow.get_context(y) for y in y1] if nm!="Store" else y1
    c2=[lena.flow.get_context(y) for y in y2] if nm!="Store" else y2
    s1=set().union(*[ids(c) for c in c1]); s2=set().union(*[ids(c) for c in c2])
    print(nm, "shares with filled:", bool(fid & s1), "shares with earlier yield:", bool(s1 & s2))
