import itertools, copy, warnings
warnings.simplefilter("ignore")
import lena.core, lena.flow
from lena.core import Split, Source, Sequence, FillComputeSeq, FillRequestSeq, FillRequest, LenaStopFill

class FC:  # tagged fill/compute, optional stop at fill index
    def __init__(self, tag, stop_at=None): self.tag=tag; self.vals=[]; self.stop_at=stop_at; self.n=0
    def fill(self, v):
        if self.stop_at is not None and self.n>=self.stop_at: raise LenaStopFill()
        self.n+=1; self.vals.append(v)
    def compute(self):
        yield (self.tag,"compute",tuple(self.vals))
class FR:
    def __init__(self, tag): self.tag=tag; self.vals=[]
    def fill(self, v): self.vals.append(v)
    def request(self):
        yield (self.tag,"request",tuple(self.vals)); self.vals=[]
    def reset(self): self.vals=[]
def mk(kind, tag, stop_at=None):
    if kind=="src": return Source(lambda tag=tag: iter([(tag,"src",0),(tag,"src",1)]))
    if kind=="fc": return FC(tag, stop_at)
    if kind=="fr": return FR(tag)
    if kind=="seq": return (lambda v, tag=tag: (tag,"map",v))
def spec(kinds, stops, bufsize, flow):
    out=[]; n=len(kinds)
    state=[[] for _ in kinds]; nfill=[0]*n
    active=list(range(n))
    blocks=[]
    if bufsize is None: blocks=[flow] if flow else []
    else: blocks=[flow[i:i+bufsize] for i in range(0,len(flow),bufsize)]
    for blk in blocks:
        for i in list(active):
            k=kinds[i]
            if k=="src":
                out+= [(i,"src",0),(i,"src",1)]; active.remove(i)
            elif k=="seq":
                out+=[(i,"map",v) for v in blk]
            elif k=="fc":
                stopped=False
                for v in blk:
                    if stops[i] is not None and nfill[i]>=stops[i]: stopped=True; break
                    nfill[i]+=1; state[i].append(v)
                if stopped:
                    out.append((i,"compute",tuple(state[i]))); active.remove(i)
            elif k=="fr":
                for v in blk: state[i].append(v)
                out.append((i,"request",tuple(state[i]))); state[i]=[]
    for i in active:
        k=kinds[i]
        if k=="src": out+=[(i,"src",0),(i,"src",1)]
        elif k=="fc": out.append((i,"compute",tuple(state[i])))
        elif k=="fr":
            if not flow: out.append((i,"request",()))
        elif k=="seq":
            if not flow: pass  # map over [] yields nothing
    return out
bad=0;n=0
for nb in range(0,4):
  for kinds in itertools.product(["src","fc","fr","seq"], repeat=nb):
    stop_opts=[ [None]+list(range(0,4)) if k=="fc" else [None] for k in kinds]
    for stops in itertools.product(*stop_opts):
      for L in range(0,5):
        flow=list(range(L))
        for bufsize in [1,2,3,L+1,1000,None]:
          for copy_buf in (True,False):
            n+=1
            seqs=[mk(k,i,stops[i]) for i,k in enumerate(kinds)]
            try:
                got=list(Split(seqs,bufsize=bufsize,copy_buf=copy_buf).run(iter(flow)))
            except Exception as e:
                got=("EXC",type(e).__name__,str(e)[:60])
            exp=spec(kinds,stops,bufsize,flow)
            if got!=exp:
                bad+=1
                if bad<12: print("MISMATCH",kinds,stops,L,bufsize,copy_buf,"\n  got",got,"\n  exp",exp)
print("cases",n,"bad",bad)
