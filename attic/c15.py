import itertools, copy, warnings, random
warnings.simplefilter("ignore")
import lena.core, lena.flow, lena.context
from lena.flow import Selector, Not, And, Or, SelectContext, Filter, GroupBy
random.seed(5)
class Boom(Exception): pass
def raising(v): raise Boom()
leaves = [("str a", "a"), ("str a.b", "a.b"), ("cls int", int), ("cls str", str), ("true", lambda v: True), ("false", lambda v: False), ("raise", raising)]
RAISE="RAISE"
def ref(spec, v, roe):
    # three-valued reference
    if isinstance(spec, tuple) and spec and spec[0]=="NOT":
        r=ref(spec[1], v, roe)
        if r==RAISE: return RAISE if roe else True   # Not with roe False: full negation
        return not r
    if isinstance(spec, list):
        for s in spec:
            r=ref(s,v,roe)
            if r==RAISE: return RAISE
            if r: return True
        return False
    if isinstance(spec, tuple):
        for s in spec:
            r=ref(s,v,roe)
            if r==RAISE: return RAISE
            if not r: return False
        return True
    try:
        if isinstance(spec,str): r=lena.context.contains(lena.flow.get_context(v), spec)
        elif isinstance(spec,type): r=isinstance(lena.flow.get_data(v), spec)
        else: r=spec(v)
    except Exception:
        return RAISE if roe else False
    return r
def build(spec, roe):
    if isinstance(spec, tuple) and spec and spec[0]=="NOT": return Not(build_raw(spec[1], roe), raise_on_error=roe)
    return Selector(build_raw(spec, roe), raise_on_error=roe)
def build_raw(spec, roe):
    if isinstance(spec, tuple) and spec and spec[0]=="NOT": return Not(build_raw(spec[1], roe), raise_on_error=roe)
    if isinstance(spec, list): return [build_raw(s, roe) for s in spec]
    if isinstance(spec, tuple): return tuple(build_raw(s, roe) for s in spec)
    return spec
def gen(depth):
    if depth==0 or random.random()<0.3: return random.choice(leaves)[1]
    k=random.choice(["list","tuple","not"])
    if k=="not": return ("NOT", gen(depth-1))
    items=[gen(depth-1) for _ in range(random.randint(0,3))]
    return items if k=="list" else tuple(items)
vals=[1, "s", (1,{"a":1}), ("s",{"a":{"b":2}}), (2.5,{"a":"b"}), (1,{})]
bad=0;n=0;ex=[]
for _ in range(4000):
    spec=gen(3)
    for roe in (True,False):
        try: sel=build(spec, roe)
        except Exception as e:
            ex.append((type(e).__name__, repr(spec)[:80])); continue
        for v in vals:
            n+=1
            try: got=bool(sel(v))
            except Boom: got=RAISE
            except Exception as e: got=("EXC",type(e).__name__)
            exp=ref(spec,v,roe)
            if got!=exp:
                bad+=1
                if bad<8: print("DIFF roe",roe,repr(spec)[:100],v,"got",got,"exp",exp)
print("cases",n,"bad",bad,"build exc",len(ex), ex[:3])
