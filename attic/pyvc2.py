"""Throw-away prototype 3: generators ($out as Seq, $pulled), input flows (array+len), abstract elements
(uninterpreted denotations), self fields, try/except StopIteration, `abandon` obligations at yields.
Targets (real AST): Run._call_run, Count.run (laziness + result), Cache._dump_flow_and_yield (abandon),
Sequence.run (fold invariant over an abstract element list)."""
import ast, sys, subprocess, tempfile, os, time, itertools

PRELUDE = """
(declare-sort V 0)            ; flow values
(declare-sort Obj 0)          ; elements
(declare-fun call_el (Obj V) V)                       ; denotation of a callable element
(declare-fun F_map (Obj (Array Int V) Int) (Seq V))   ; spec: map(call_el, flow[:i])
(define-fun F_map_unfold ((e Obj) (a (Array Int V)) (i Int)) Bool
  (= (F_map e a i) (ite (<= i 0) (as seq.empty (Seq V)) (seq.++ (F_map e a (- i 1)) (seq.unit (call_el e (select a (- i 1))))))))
(declare-fun prefix ((Array Int V) Int) (Seq V))      ; spec: flow[:i] as a Seq
(define-fun prefix_unfold ((a (Array Int V)) (i Int)) Bool
  (= (prefix a i) (ite (<= i 0) (as seq.empty (Seq V)) (seq.++ (prefix a (- i 1)) (seq.unit (select a (- i 1)))))))
(declare-fun with_count (V Int) V)                    ; (data, context updated with {name: n})
"""

class T:
    def __init__(self, s, sort): self.s, self.sort = s, sort
    def __repr__(self): return self.s
def app(op, *a, sort): return T("(%s %s)" % (op, " ".join(str(x) for x in a)), sort)
def NOT(x): return app("not", x, sort="Bool")
def I(n): return T(str(n), "Int")
TRUE = T("true", "Bool")
class Unsupported(Exception): pass

class Gen:
    """symbolic execution of one generator method; flow parameter = (array, len, cursor)"""
    def __init__(self, fn, spec):
        self.fn, self.spec, self.decls, self.vcs, self.fresh = fn, spec, [], [], itertools.count()
    def new(self, base, sort):
        n = "|%s!%d|" % (base, next(self.fresh)); self.decls.append("(declare-const %s %s)" % (n, sort)); return T(n, sort)
    def init_state(self):
        env = {"self": self.new("self", "Obj"), "flow#a": self.new("flow", "(Array Int V)"), "flow#n": self.new("n", "Int"),
               "$pulled": I(0), "$out": T("(as seq.empty (Seq V))", "Seq"), "self._el": self.new("el", "Obj"),
               "self.count": self.new("count", "Int"), "$file": T("(as seq.empty (Seq V))", "Seq"), "$file_exists": T("false", "Bool")}
        return dict(env=env, pc=[app(">=", env["flow#n"], I(0), sort="Bool")], trace="")
    def fork(self, st, c, tag): return dict(env=dict(st["env"]), pc=st["pc"] + [c], trace=st["trace"] + tag)
    def emit(self, name, st, goal, extra=()): self.vcs.append((name + "/" + st["trace"], st["pc"] + list(extra), goal))
    def ev(self, e, st):
        env = st["env"]
        if isinstance(e, ast.Constant) and isinstance(e.value, int): return I(e.value)
        if isinstance(e, ast.Name): return env[e.id]
        if isinstance(e, ast.Attribute) and isinstance(e.value, ast.Name) and e.value.id == "self": return env["self." + e.attr]
        if isinstance(e, ast.BinOp) and isinstance(e.op, ast.Add): return app("+", self.ev(e.left, st), self.ev(e.right, st), sort="Int")
        if isinstance(e, ast.Call):
            f = e.func
            if isinstance(f, ast.Attribute) and isinstance(f.value, ast.Name) and f.value.id == "self" and f.attr == "_el":
                return T("(call_el %s %s)" % (env["self._el"], self.ev(e.args[0], st)), "V")      # self._el(val)
        if isinstance(e, ast.Tuple) and len(e.elts) == 2 and getattr(e.elts[1], "id", "") == "context" and "ctx#count" in env:
            return T("(with_count %s %s)" % (env["ctx#of"], env["ctx#count"]), "V")                 # (data, context) after context.update
        raise Unsupported(ast.dump(e)[:100])
    def pull(self, st, on_exhausted, on_value):
        """next(flow): two continuations"""
        env = st["env"]
        ex = self.fork(st, app(">=", env["$pulled"], env["flow#n"], sort="Bool"), "E.")
        ok = self.fork(st, app("<", env["$pulled"], env["flow#n"], sort="Bool"), "V.")
        val = T("(select %s %s)" % (env["flow#a"], env["$pulled"]), "V")
        ok["env"]["$pulled"] = app("+", env["$pulled"], I(1), sort="Int")
        return on_exhausted(ex) + on_value(ok, val)
    def block(self, body, st):
        states = [st]
        for s in body: states = [y for x in states for y in self.stmt(s, x)]
        return states
    def stmt(self, s, st):
        env = st["env"]
        if isinstance(s, ast.Expr) and isinstance(s.value, ast.Constant): return [st]
        if isinstance(s, ast.Expr) and isinstance(s.value, ast.Yield):
            v = self.ev(s.value.value, st)
            for k, clause in enumerate(self.spec.get("lazy", [])):          # laziness clause, checked before the append
                self.emit("lazy#%d" % k, st, T(clause(env), "Bool"))
            env["$out"] = T("(seq.++ %s (seq.unit %s))" % (env["$out"], v), "Seq")
            for k, clause in enumerate(self.spec.get("abandon", [])):       # consumer may never come back
                self.emit("abandon#%d" % k, st, T(clause(env), "Bool"))
            return [st]
        if isinstance(s, ast.Expr) and isinstance(s.value, ast.Call) and getattr(s.value.func, "id", "") == "dump":
            env["$file"] = T("(seq.++ %s (seq.unit %s))" % (env["$file"], self.ev(s.value.args[0], st)), "Seq"); return [st]
        if isinstance(s, ast.Expr) and isinstance(s.value, ast.Call) and isinstance(s.value.func, ast.Attribute) and s.value.func.attr == "update":
            env["ctx#count"] = env["self.count"]; return [st]                # context.update({self.name: self.count})
        if isinstance(s, ast.Assign):
            t = s.targets[0]
            if isinstance(t, ast.Name) and isinstance(s.value, ast.Lambda): return [st]       # dump = lambda ...: modelled at the call
            if isinstance(t, ast.Tuple):                                       # data, context = get_data_context(val)
                env["ctx#of"] = self.ev(s.value.args[0], st); env["data"] = env["ctx#of"]; env["context"] = env["ctx#of"]; return [st]
            if isinstance(t, ast.Name): env[t.id] = self.ev(s.value, st); return [st]
        if isinstance(s, ast.AugAssign):
            key = "self." + s.target.attr if isinstance(s.target, ast.Attribute) else s.target.id
            env[key] = app("+", env[key], self.ev(s.value, st), sort="Int"); return [st]
        if isinstance(s, ast.Return): self.finish(st); return []
        if isinstance(s, ast.With):                                            # with open(self._filename, "wb") as f:
            env["$file"] = T("(as seq.empty (Seq V))", "Seq"); env["$file_exists"] = T("true", "Bool")   # "wb" creates/truncates
            return self.block(s.body, st)
        if isinstance(s, ast.Try):                                             # try: x = next(flow) except StopIteration: ...
            asg = s.body[0]; name = asg.targets[0].id
            def exh(st2): return self.block(s.handlers[0].body, st2)
            def val(st2, v): st2["env"][name] = v; return self.block(s.orelse, st2)
            return self.pull(st, exh, val)
        if isinstance(s, ast.For) and getattr(s.iter, "id", "") == "flow":
            L = self.spec["loop"]
            self.emit("inv.init", st, T(L(env), "Bool"), extra=self.unfolds(env))
            h = self.fork(st, TRUE, "L:")
            for k in L.havoc: h["env"][k] = self.new(k.strip("$").replace(".", "_"), L.havoc[k])
            h["pc"].append(T(L(h["env"]), "Bool"))
            def exh(st2): return [st2]                                         # loop exit
            def val(st2, v):
                st2["env"][s.target.id] = v
                for b in self.block(s.body, st2):
                    self.emit("inv.preserve", b, T(L(b["env"]), "Bool"), extra=self.unfolds(b["env"]))
                return []
            return self.pull(h, exh, val)
        raise Unsupported(type(s).__name__ + " " + ast.dump(s)[:80])
    def unfolds(self, env):
        a, e, p = env["flow#a"], env["self._el"], env["$pulled"]
        return [T("(F_map_unfold %s %s %s)" % (e, a, p), "Bool"), T("(prefix_unfold %s %s)" % (a, p), "Bool"),
                T("(prefix_unfold %s (- %s 1))" % (a, p), "Bool")]
    def finish(self, st):
        for k, clause in enumerate(self.spec["ensures"]):
            self.emit("post#%d" % k, st, T(clause(st["env"]), "Bool"), extra=self.unfolds(st["env"]))
    def run(self):
        st = self.init_state()
        for end in self.block(self.fn.body, st): self.finish(end)
        return self.vcs

class Inv:
    def __init__(self, f, havoc): self.f, self.havoc = f, havoc
    def __call__(self, env): return self.f(env)

def solve(text, timeout=20):
    with tempfile.NamedTemporaryFile("w", suffix=".smt2", delete=False) as f: f.write(text); p = f.name
    t = time.time(); r = subprocess.run(["z3-new", "-T:%d" % timeout, p], capture_output=True, text=True); os.unlink(p)
    return r.stdout.strip().split("\n")[0], time.time() - t

def find(path, qual):
    node = ast.parse(open(path).read())
    for p in qual.split("."):
        node = next(ch for ch in ast.iter_child_nodes(node) if isinstance(ch, (ast.FunctionDef, ast.ClassDef)) and ch.name == p)
    return node

def check(title, path, qual, spec):
    g = Gen(find(path, qual), spec); vcs = g.run(); ok = 0; tot = 0
    print("==", title)
    for name, hyps, goal in vcs:
        text = PRELUDE + "\n".join(g.decls) + "\n" + "\n".join("(assert %s)" % h for h in hyps) + "\n(assert (not %s))\n(check-sat)\n" % goal
        r, dt = solve(text, 10); tot += dt; ok += r == "unsat"
        print("   %-28s %s %.3fs" % (name, "PROVED" if r == "unsat" else r.upper(), dt))
    print("   obligations %d proved %d  %.2fs" % (len(vcs), ok, tot))

if __name__ == "__main__":
    root = sys.argv[1] if len(sys.argv) > 1 else "/repo"
    # ---- Run._call_run: out == map(call_el, flow[:pulled]); lazy: at each yield pulled == len(out)+1
    check("Run._call_run", root + "/lena/core/adapters.py", "Run._call_run", dict(
        loop=Inv(lambda e: "(and (= {o} (F_map {el} {a} {p})) (= (seq.len {o}) {p}) (<= 0 {p}) (<= {p} {n}))".format(o=e["$out"], el=e["self._el"], a=e["flow#a"], p=e["$pulled"], n=e["flow#n"]),
                 {"$out": "(Seq V)", "$pulled": "Int"}),
        lazy=[lambda e: "(= %s (+ (seq.len %s) 1))" % (e["$pulled"], e["$out"])],
        ensures=[lambda e: "(and (= %s (F_map %s %s %s)) (= %s %s))" % (e["$out"], e["self._el"], e["flow#a"], e["flow#n"], e["$pulled"], e["flow#n"])]))
    # ---- Count.run: one value of look-ahead; all but the last pass unchanged; last gets the count
    def count_inv(e):
        return "(and (<= 1 {p}) (<= {p} {n}) (= {o} (prefix {a} (- {p} 1))) (= (seq.len {o}) (- {p} 1)) (= {c} {p}) (= {pv} (select {a} (- {p} 1))) (= {sc} {sc0}))".format(
            o=e["$out"], a=e["flow#a"], p=e["$pulled"], n=e["flow#n"], c=e["count"], pv=e["prev_val"], sc=e["self.count"], sc0=COUNT0[0])
    COUNT0 = [None]
    class CountGen(Gen):
        def init_state(self):
            st = super().init_state(); COUNT0[0] = st["env"]["self.count"]; return st
    def check2(title, path, qual, spec, cls):
        g = cls(find(path, qual), spec); vcs = g.run(); ok = 0; tot = 0
        print("==", title)
        for name, hyps, goal in vcs:
            text = PRELUDE + "\n".join(g.decls) + "\n" + "\n".join("(assert %s)" % h for h in hyps) + "\n(assert (not %s))\n(check-sat)\n" % goal
            r, dt = solve(text, 10); tot += dt; ok += r == "unsat"
            print("   %-28s %s %.3fs" % (name, "PROVED" if r == "unsat" else r.upper(), dt))
        print("   obligations %d proved %d  %.2fs" % (len(vcs), ok, tot))
    check2("Count.run", root + "/lena/flow/elements.py", "Count.run", dict(
        loop=Inv(count_inv, {"$out": "(Seq V)", "$pulled": "Int", "count": "Int", "prev_val": "V"}),
        lazy=[lambda e: "(= %s (+ (seq.len %s) 2))" % (e["$pulled"], e["$out"]) if "ctx#count" not in e else "true"],   # k-th yield: pulled == k+1
        ensures=[lambda e: "(ite (= {n} 0) (= {o} (as seq.empty (Seq V))) (and (= {o} (seq.++ (prefix {a} (- {n} 1)) (seq.unit (with_count (select {a} (- {n} 1)) (+ {c0} {n}))))) (= {sc} (+ {c0} {n}))))".format(
            n=e["flow#n"], o=e["$out"], a=e["flow#a"], c0=COUNT0[0], sc=e["self.count"])]), CountGen)
    # ---- Cache._dump_flow_and_yield: file == flow[:pulled]; abandon: cache_exists => file is the whole flow
    check("Cache._dump_flow_and_yield", root + "/lena/flow/cache.py", "Cache._dump_flow_and_yield", dict(
        loop=Inv(lambda e: "(and (= {o} (prefix {a} {p})) (= {f} (prefix {a} {p})) (<= 0 {p}) (<= {p} {n}) {x})".format(o=e["$out"], f=e["$file"], a=e["flow#a"], p=e["$pulled"], n=e["flow#n"], x=e["$file_exists"]),
                 {"$out": "(Seq V)", "$pulled": "Int", "$file": "(Seq V)"}),
        abandon=[lambda e: "(=> %s (= %s (prefix %s %s)))" % (e["$file_exists"], e["$file"], e["flow#a"], e["flow#n"])],
        ensures=[lambda e: "(= %s (prefix %s %s))" % (e["$file"], e["flow#a"], e["flow#n"])]))
