import itertools, copy, warnings, random, math
from fractions import Fraction
warnings.simplefilter("ignore")
import lena.core, lena.flow, lena.math, lena.structures
from lena.math import Sum, DSum, Mean, VarianceMeanCount, Vectorize
from lena.flow import Count, StoreFilled, GroupBy
random.seed(3)
issues=[]
def comp(el):
    try: return list(el.compute())
    except Exception as e: return ("EXC", type(e).__name__)
makers = {
 "Sum": lambda: Sum(), "Sum5": lambda: Sum(5), "DSum": lambda: DSum(), "Mean": lambda: Mean(), "MeanD": lambda: Mean(sum_seq=DSum()),
 "VMC": lambda: VarianceMeanCount(), "VMCu": lambda: VarianceMeanCount(corrected=False),
 "Vec": lambda: Vectorize(Sum(), dim=2), "Count": lambda: Count(), "Count3": lambda: Count(count=3), "Store": lambda: StoreFilled(), "GroupBy": lambda: GroupBy("a"),
 "Hist": lambda: lena.structures.Histogram([0,1,2,3]), "HistB": lambda: lena.structures.Histogram([0,1,2,3], bins=[0,0,0]),
}
def val_for(name, x, ctx):
    d = (x, x+1) if name=="Vec" else x
    return (d, ctx) if ctx is not None else d
for name, mk in makers.items():
    for trial in range(60):
        el = mk()
        if not hasattr(el, "reset"): issues.append((name,"no reset")); break
        hist = [random.choice(["fill","fill","compute","reset"]) for _ in range(random.randint(0,8))]
        last_reset = max([i for i,h in enumerate(hist) if h=="reset"], default=None)
        if last_reset is None: continue
        fresh = mk()
        ok=True
        try:
            for i,h in enumerate(hist):
                x = random.choice([0.5, 1, 2.5, 1e16, -1e16, 1e-3])
                ctx = random.choice([None, {"a": random.randint(0,1)}])
                v = val_for(name, x, ctx)
                if h=="fill":
                    el.fill(copy.deepcopy(v))
                    if i>last_reset: fresh.fill(copy.deepcopy(v))
                elif h=="compute":
                    r=comp(el)
                    if i>last_reset:
                        rf=comp(fresh)
                        if repr(r)!=repr(rf): ok=False; issues.append((name,"after reset differs from fresh", hist, r, rf)); break
                else:
                    el.reset()
            if ok:
                r=comp(el); rf=comp(fresh)
                if repr(r)!=repr(rf): issues.append((name,"final differs", hist, r, rf))
        except Exception as e:
            issues.append((name, "EXC", type(e).__name__, str(e)[:60]))
seen=set()
for it in issues:
    k=(it[0],it[1])
    if k not in seen: seen.add(k); print(it)
# exactness of DSum
bad=0
for _ in range(2000):
    xs=[random.choice([1e16,-1e16,1.0,1e-16,3.3,0.1,2**60,-2**60, 1e300,-1e300, 5e-324]) for _ in range(random.randint(0,8))]
    d=DSum()
    for x in xs: d.fill(x)
    r=list(d.compute())[0]
    if Fraction(r)!=sum((Fraction(x) for x in xs), Fraction(0)): bad+=1
print("DSum inexact cases:", bad, type(r))
# Sum equals python sum, Mean
for _ in range(500):
    xs=[random.choice([0.1,0.2,0.3,1e16,-1e16,7]) for _ in range(random.randint(1,8))]
    s=Sum(); m=Mean()
    for x in xs: s.fill(x); m.fill(x)
    assert list(s.compute())[0]==sum(xs); assert list(m.compute())[0]==float(sum(xs))/float(len(xs))
print("Sum/Mean ok")
