import itertools, copy, random
exec(open('c07.py').read().split("import random; random.seed(7)")[0])
import lena.context.functions as F
def difference(d1, d2, level=-1):
    if not isinstance(d1, dict) or not isinstance(d2, dict): return d1
    if d1 == d2: return {}
    elif level == 0: return d1
    result = {}
    for key in d1:
        if key not in d2: result[key] = d1[key]
        elif d1[key] != d2[key]:
            v1, v2 = d1[key], d2[key]
            if isinstance(v1, dict) and isinstance(v2, dict) and level != 1:
                res = difference(v1, v2, level-1)
                if res: result[key] = res
            else:
                result[key] = v1
    return result
random.seed(7); S=random.sample(D2, 400); bad=0
for lvl in (-1,1,2,3):
  for a in S:
    for b in S:
        i=F.intersection(a,b,level=lvl); d=difference(a,b,lvl); r=copy.deepcopy(i); F.update_recursively(r, copy.deepcopy(d))
        if r!=a:
            bad+=1
            if bad<5: print(lvl,a,b,i,d,r)
print("bad with fix:", bad)
