"""Throw-away prototype 2: nested-dict values (Val datatype), dict iteration with $seen, recursion through
the function's own contract, truthiness, early returns.  Target: lena.context.functions.difference (real AST)."""
import ast, sys, subprocess, tempfile, os, time, itertools

PRELUDE = """
(set-option :produce-models true)
(declare-sort Key 0)
(declare-datatypes ((Val 0) (Opt 0)) (((S (sid Int)) (D (dm (Array Key Opt)))) ((none) (some (v Val)))))
(declare-fun truthy_s (Int) Bool)
(define-fun empty () (Array Key Opt) ((as const (Array Key Opt)) none))
(define-fun truthy ((x Val)) Bool (ite ((_ is D) x) (not (= (dm x) empty)) (truthy_s (sid x))))
(define-fun has ((x Val) (k Key)) Bool (not (= (select (dm x) k) none)))
(define-fun get ((x Val) (k Key)) Val (v (select (dm x) k)))
(declare-fun diff (Val Val Int) Val)
; ---- the PROPERTY's spec of one item of difference(a, b, l)  (Appendix A diff_spec), unfolded one level
(define-fun bothd ((a Val) (b Val) (k Key)) Bool (and ((_ is D) (get a k)) ((_ is D) (get b k))))
(define-fun subd ((a Val) (b Val) (l Int) (k Key)) Val (diff (get a k) (get b k) (- l 1)))
(define-fun diff_item ((a Val) (b Val) (l Int) (k Key)) Opt
  (ite (not (has a k)) none
  (ite (not (has b k)) (select (dm a) k)
  (ite (= (get a k) (get b k)) none
  (ite (and (bothd a b k) (not (= l 1)))
       (ite (= (subd a b l k) (D empty)) none (some (subd a b l k)))
       (select (dm a) k))))))
; base cases of the spec function, available for any call result (depth-1 facts)
(define-fun diff_base ((a Val) (b Val) (l Int)) Bool
  (and (=> (or (not ((_ is D) a)) (not ((_ is D) b))) (= (diff a b l) a))
       (=> (and ((_ is D) a) ((_ is D) b) (= a b)) (= (diff a b l) (D empty)))
       (=> (and ((_ is D) a) ((_ is D) b) (not (= a b)) (= l 0)) (= (diff a b l) a))
       (=> (and ((_ is D) a) ((_ is D) b)) ((_ is D) (diff a b l)))))
"""

class T:
    def __init__(self, s, sort): self.s, self.sort = s, sort
    def __repr__(self): return self.s
def app(op, *a, sort): return T("(%s %s)" % (op, " ".join(str(x) for x in a)), sort)
def NOT(x): return app("not", x, sort="Bool")
def AND(*xs): return xs[0] if len(xs) == 1 else app("and", *xs, sort="Bool")
def I(n): return T(str(n) if n >= 0 else "(- %d)" % -n, "Int")
TRUE = T("true", "Bool")
class Unsupported(Exception): pass

class Exec:
    def __init__(self, fn):
        self.fn, self.decls, self.vcs, self.fresh = fn, [], [], itertools.count()
        self.qf_inst = []      # terms at which quantified invariants get instantiated for model finding
    def new(self, base, sort):
        n = "|%s!%d|" % (base, next(self.fresh)); self.decls.append("(declare-const %s %s)" % (n, sort)); return T(n, sort)
    # ---- expressions
    def ev(self, e, st):
        env = st["env"]
        if isinstance(e, ast.Constant) and isinstance(e.value, int) and not isinstance(e.value, bool): return I(e.value)
        if isinstance(e, ast.Name): return env[e.id]
        if isinstance(e, ast.Dict) and not e.keys: return T("(D empty)", "Val")
        if isinstance(e, ast.UnaryOp) and isinstance(e.op, ast.Not): return NOT(self.truth(self.ev(e.operand, st)))
        if isinstance(e, ast.UnaryOp) and isinstance(e.op, ast.USub): return app("-", self.ev(e.operand, st), sort="Int")
        if isinstance(e, ast.BoolOp):
            return app("and" if isinstance(e.op, ast.And) else "or", *[self.truth(self.ev(v, st)) for v in e.values], sort="Bool")
        if isinstance(e, ast.BinOp) and isinstance(e.op, ast.Sub): return app("-", self.ev(e.left, st), self.ev(e.right, st), sort="Int")
        if isinstance(e, ast.Compare) and len(e.ops) == 1:
            a, b, op = self.ev(e.left, st), self.ev(e.comparators[0], st), e.ops[0]
            if isinstance(op, ast.Eq): return app("=", a, b, sort="Bool")
            if isinstance(op, ast.NotEq): return NOT(app("=", a, b, sort="Bool"))
            if isinstance(op, (ast.In, ast.NotIn)):
                # `k in d`: d must be a dict here (TypeError obligation on scalars is part of the real engine)
                st["oblig"].append(("in-on-dict", T("((_ is D) %s)" % b, "Bool")))
                r = T("(has %s %s)" % (b, a), "Bool"); return r if isinstance(op, ast.In) else NOT(r)
        if isinstance(e, ast.Subscript):
            d, k = self.ev(e.value, st), self.ev(e.slice, st)
            st["oblig"].append(("KeyError-free", T("(has %s %s)" % (d, k), "Bool")))
            return T("(get %s %s)" % (d, k), "Val")
        if isinstance(e, ast.Call) and isinstance(e.func, ast.Name):
            if e.func.id == "isinstance" and isinstance(e.args[1], ast.Name) and e.args[1].id == "dict":
                return T("((_ is D) %s)" % self.ev(e.args[0], st), "Bool")
            if e.func.id == self.fn.name:       # recursive call -> own contract (post: result == diff(args)), + base facts
                a = [self.ev(x, st) for x in e.args]
                st["pc"].append(T("(diff_base %s %s %s)" % tuple(a), "Bool"))
                st["calls"].append(a)
                return T("(diff %s %s %s)" % tuple(a), "Val")
        raise Unsupported(ast.dump(e)[:90])
    def truth(self, t): return t if t.sort == "Bool" else T("(truthy %s)" % t, "Bool") if t.sort == "Val" else NOT(app("=", t, I(0), sort="Bool"))
    # ---- statements
    def fork(self, st, cond, tag):
        return dict(env=dict(st["env"]), pc=st["pc"] + [cond], trace=st["trace"] + tag, oblig=list(st["oblig"]), calls=list(st["calls"]))
    def block(self, body, st, loop):
        states = [st]
        for s in body:
            states = [y for x in states for y in self.stmt(s, x, loop)]
        return states
    def stmt(self, s, st, loop):
        if isinstance(s, ast.Expr) and isinstance(s.value, ast.Constant): return [st]
        if isinstance(s, ast.Assign):
            tgt = s.targets[0]
            if isinstance(tgt, ast.Name): st["env"][tgt.id] = self.ev(s.value, st); return [st]
            if isinstance(tgt, ast.Subscript) and isinstance(tgt.value, ast.Name):       # d[k] = v  (d a local dict value)
                d = st["env"][tgt.value.id]; k = self.ev(tgt.slice, st); v = self.ev(s.value, st)
                st["env"][tgt.value.id] = T("(D (store (dm %s) %s (some %s)))" % (d, k, v), "Val"); return [st]
        if isinstance(s, ast.If):
            c = self.truth(self.ev(s.test, st))
            return self.block(s.body, self.fork(st, c, "T."), loop) + self.block(s.orelse, self.fork(st, NOT(c), "F."), loop)
        if isinstance(s, ast.Return):
            r = self.ev(s.value, st)
            self.emit("post/" + st["trace"], st, self.post(r, st)); return []
        if isinstance(s, ast.For) and isinstance(s.target, ast.Name) and isinstance(s.iter, ast.Name):
            d = st["env"][s.iter.id]                        # for key in d:  ghost seen-set, arbitrary unvisited key
            seen0 = T("((as const (Array Key Bool)) false)", "Seen")
            self.emit("loop#0.init/" + st["trace"], st, self.inv(st["env"], seen0))
            h = self.fork(st, TRUE, "L0:")
            mod = sorted({t.value.id if isinstance(t, ast.Subscript) else t.id for n in ast.walk(s) if isinstance(n, ast.Assign) for t in n.targets})
            for m in mod:
                if m in h["env"]: h["env"][m] = self.new(m, "Val")
            seen = self.new("seen", "(Array Key Bool)"); key = self.new(s.target.id, "Key")
            h["pc"] += [self.inv(h["env"], seen, quant=True), T("(has %s %s)" % (d, key), "Bool"), NOT(T("(select %s %s)" % (seen, key), "Bool"))]
            self.qf = (h, seen, key)
            h["env"][s.target.id] = key
            for b in self.block(s.body, h, loop):
                seen2 = T("(store %s %s true)" % (seen, key), "Seen")
                self.emit("loop#0.preserve/" + b["trace"], b, self.inv(b["env"], seen2, quant=True), inst=[key])
            # exit: all keys of d seen
            ex = self.fork(st, TRUE, "X.")
            for m in mod:
                if m in ex["env"]: ex["env"][m] = self.new(m, "Val")
            seenx = self.new("seenx", "(Array Key Bool)")
            ex["pc"] += [self.inv(ex["env"], seenx, quant=True),
                         T("(forall ((k Key)) (= (select %s k) (has %s k)))" % (seenx, d), "Bool")]
            return [ex]
        raise Unsupported(type(s).__name__)
    # ---- contract of `difference` (Appendix B.5)
    def inv(self, env, seen, quant=False):
        d1, d2, lv, res = self.env0["d1"], self.env0["d2"], self.env0["level"], env["result"]
        body = "(and ((_ is D) {r}) (=> (select {s} k) (= (select (dm {r}) k) (diff_item {a} {b} {l} k))) (=> (not (select {s} k)) (= (select (dm {r}) k) none)))".format(
            r=res, s=seen, a=d1, b=d2, l=lv)
        self.last_inv_body = body
        return T("(forall ((k Key)) %s)" % body, "Bool")
    def post(self, r, st):
        d1, d2, lv = self.env0["d1"], self.env0["d2"], self.env0["level"]
        # result == diff_spec(d1,d2,level), stated by cases (one unfolding of the spec)
        return T("""(and (=> (or (not ((_ is D) {a})) (not ((_ is D) {b}))) (= {r} {a}))
                 (=> (and ((_ is D) {a}) ((_ is D) {b}) (= {a} {b})) (= {r} (D empty)))
                 (=> (and ((_ is D) {a}) ((_ is D) {b}) (not (= {a} {b})) (= {l} 0)) (= {r} {a}))
                 (=> (and ((_ is D) {a}) ((_ is D) {b}) (not (= {a} {b})) (not (= {l} 0)))
                     (and ((_ is D) {r}) (forall ((k Key)) (= (select (dm {r}) k) (diff_item {a} {b} {l} k))))))""".format(a=d1, b=d2, l=lv, r=r), "Bool")
    def emit(self, name, st, goal, inst=None):
        self.vcs.append((name, list(st["pc"]), goal, list(st["oblig"]), inst))
    def run(self):
        env = {a.arg: self.new(a.arg, "Int" if a.arg == "level" else "Val") for a in self.fn.args.args}
        self.env0 = dict(env)
        st = dict(env=env, pc=[], trace="", oblig=[], calls=[])
        self.block(self.fn.body, st, None)
        return self.vcs

def solve(text, timeout=20, solver="z3-new"):
    with tempfile.NamedTemporaryFile("w", suffix=".smt2", delete=False) as f: f.write(text); p = f.name
    t = time.time()
    cmd = [solver, "-T:%d" % timeout, p] if solver.startswith("z3") else ["cvc5", "--tlimit=%d" % (timeout * 1000), p]
    r = subprocess.run(cmd, capture_output=True, text=True); os.unlink(p)
    return r.stdout.strip().split("\n")[0], time.time() - t

def find(tree, name): return next(n for n in ast.walk(tree) if isinstance(n, ast.FunctionDef) and n.name == name)

if __name__ == "__main__":
    src = sys.argv[1] if len(sys.argv) > 1 else "/repo/lena/context/functions.py"
    ex = Exec(find(ast.parse(open(src).read()), "difference")); vcs = ex.run()
    n_ok = 0; tot = 0.0
    for name, hyps, goal, obl, inst in vcs:
        text = PRELUDE + "\n".join(ex.decls) + "\n" + "\n".join("(assert %s)" % h for h in hyps) + "\n(assert (not %s))\n(check-sat)\n" % goal
        r, dt = solve(text, 10); tot += dt
        status = "PROVED" if r == "unsat" else r.upper()
        if r != "unsat":
            # model finding: drop quantified hypotheses, instantiate invariant at the loop key and a skolem key
            qf_h = [h for h in hyps if "forall" not in h.s]
            k0 = "|k0!sk|"
            h_state, seen, key = ex.qf
            insts = []
            for h in hyps:
                if h.s.startswith("(forall ((k Key)) (and ((_ is D)"):
                    body = h.s[len("(forall ((k Key)) "):-1]
                    for kk in (key.s, k0): insts.append(body.replace(" k)", " %s)" % kk).replace(" k ", " %s " % kk))
            g = goal.s
            if g.startswith("(forall ((k Key)) "): g = g[len("(forall ((k Key)) "):-1].replace(" k)", " %s)" % k0).replace(" k ", " %s " % k0)
            text2 = PRELUDE + "\n".join(ex.decls) + "\n(declare-const %s Key)\n" % k0 + "\n".join("(assert %s)" % h for h in qf_h + insts) + \
                "\n(assert (not %s))\n(check-sat)\n(get-value (%s (select (dm %s) %s) (select (dm %s) %s) %s))\n" % (
                    g, ex.env0["level"], ex.env0["d1"], key, ex.env0["d2"], key, "(= %s %s)" % (k0, key))
            with tempfile.NamedTemporaryFile("w", suffix=".smt2", delete=False) as f: f.write(text2); p = f.name
            out = subprocess.run(["z3-new", "-T:10", p], capture_output=True, text=True).stdout; os.unlink(p)
            status += "  | QF candidate: " + " ".join(out.split())[:260]
        else: n_ok += 1
        print("  %-32s %s  %.3fs" % (name, status, dt))
    print("obligations", len(vcs), "proved", n_ok, "solver time %.2fs" % tot)
