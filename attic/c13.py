import itertools, copy, warnings, os
warnings.simplefilter("ignore")
import lena.core, lena.flow, lena.context, lena.output, lena.meta
from lena.core import Sequence, Source, Split, LenaKeyError
from lena.meta import SetContext, StoreContext, UpdateContextFromStatic
from lena.output import MakeFilename, Write
from lena.flow import Cache
os.chdir("/tmp/explore")
# consumers before a later SetContext
w=Write("out_{{a}}_{{b}}", verbose=False); c=Cache("c_{{a}}_{{b}}.pkl"); sc=StoreContext(); u=UpdateContextFromStatic(); mf=MakeFilename("{{a}}{{b}}")
s=Sequence(SetContext("a","A"), w, c, sc, u, mf, SetContext("b","B"))
print("Write dir:", w.output_directory, "| Cache:", c._filename, "| Store:", sc.context, "| UCFS:", u._context, "| MF:", mf._context)
# split: branch contexts independent, export intersection
s1=StoreContext(); s2=StoreContext(); s3=StoreContext()
s=Sequence(SetContext("x",1), Split([(SetContext("y",1), SetContext("c","k"), s1), (SetContext("y",2), SetContext("c","k"), s2)]), s3)
print("branch1:", s1.context, "branch2:", s2.context, "after split:", s3.context)
# sibling leakage in Split via UCFS/MF?
u1=UpdateContextFromStatic(); u2=UpdateContextFromStatic()
s=Sequence(SetContext("x",1), Split([(u1, SetContext("y",1)), (u2, SetContext("y",2))]))
print("UCFS in branches:", u1._context, u2._context)
# nested sequence: inner later SetContext affects outer earlier consumer?
u=UpdateContextFromStatic()
s=Sequence(SetContext("x",1), u, Sequence(SetContext("y",2)))
print("UCFS before nested:", u._context)
# formatting: unresolved key
try:
    s=Sequence(SetContext("a","{{zz}}")); print("no error at construction"); s._get_context()
except LenaKeyError as e: print("LenaKeyError:", e)
s=Sequence(SetContext("z","Z"), Sequence(SetContext("a","{{z}}_x")))
print(s._get_context())
# formatting resolved against same prefix; later element cannot change earlier formatted
s=Sequence(SetContext("z","1"), SetContext("a","{{z}}"), SetContext("z","2")); print(s._get_context())
# static context doesn't leak into runtime
s=Sequence(SetContext("z","1"), lambda v: v); print(list(s.run(iter([(1,{})]))))
# outer context precedence: "external and previous elements take precedence"?
sc=StoreContext(); s=Sequence(SetContext("k","outer"), Sequence(SetContext("k","inner"), sc)); print("inner store:", sc.context, s._get_context())
for f in os.listdir("."):
    if f.startswith(("out_","c_")): 
        import shutil; (shutil.rmtree if os.path.isdir(f) else os.remove)(f)
