import itertools, warnings
warnings.simplefilter("ignore")
import lena.flow, lena.core
from lena.flow import Slice, Reverse, Chain, CountFrom, RunningChunkBy, StoreFilled
bad=0; n=0
vals=[None]+list(range(-7,8))
for start in vals:
  for stop in vals:
    for step in [None,1,2,3,4]:
      for L in range(0,11):
        xs=list(range(L))
        for args in ([start,stop,step],) + (([stop],) if start is None and step is None and stop is not None else ()) + (([start,stop],) if step is None else ()):
            n+=1
            try:
                s=Slice(*args)
                got=list(s.run(iter(xs)))
            except Exception as e:
                got=("EXC",type(e).__name__)
            exp=xs[slice(*args)]
            if got!=exp:
                bad+=1
                if bad<15: print("RUN mismatch", args, L, got, exp)
print("run cases",n,"bad",bad)
# fill_into nonneg
bad=0;n=0
nn=[None]+list(range(0,8))
for start in nn:
  for stop in nn:
    for step in [None,1,2,3,4]:
      for L in range(0,11):
        xs=list(range(L)); n+=1
        args=[start,stop,step]
        s=Slice(*args); st=StoreFilled(); stopped_at=None
        for i,x in enumerate(xs):
            try: s.fill_into(st,x)
            except lena.core.LenaStopFill:
                stopped_at=i; break
        exp=xs[slice(*args)]
        ok = st.group==exp if stopped_at is None else (st.group==exp)
        # stop only when no later index could be selected
        if stopped_at is not None:
            later=[j for j in range(stopped_at,L+20) if j in range(*slice(*args).indices(L+20))]
            if later: ok=False
        if not ok:
            bad+=1
            if bad<10: print("FILL mismatch", args, L, st.group, exp, stopped_at)
print("fill cases",n,"bad",bad)
print(list(Reverse().run(iter([1,2,3]))), list(Chain([1,2],(3,))()), list(itertools.islice(CountFrom(3,2)(),3)))
for cs in range(1,6):
    for L in range(0,8):
        xs=list(range(L)); got=list(RunningChunkBy(cs).run(xs)); exp=[tuple(xs[i:i+cs]) for i in range(L-cs+1)]
        if got!=exp: print("RCB", cs, L, got, exp)
try: Slice(0,5,0)
except Exception as e: print("step 0:", type(e).__name__)
try: Slice(-1,5,0)
except Exception as e: print("neg step 0:", type(e).__name__)
try: Slice(0,5,-1)
except Exception as e: print("step -1:", type(e).__name__)
try: Slice(0,5,1.5)
except Exception as e: print("step 1.5:", type(e).__name__)
try: print(list(Slice(-3,None,2.0).run(iter(range(6)))))
except Exception as e: print("step 2.0 neg:", type(e).__name__, e)
