import itertools, copy, warnings
warnings.simplefilter("ignore")
import lena.core, lena.flow
from lena.variables import Variable, Compose, Combine
from lena.core import Sequence
def mkvars(n, types=True):
    return [Variable("v%d"%i, (lambda i: (lambda x: (x, i)))(i), type=("t%d"%i if types else ""), extra="e%d"%i) for i in range(n)]
bad=0
for n in range(1,6):
  for typed in (True, False):
    for pre in [None, {}, {"a": 1}, {"variable": {"name": "old", "type": "told", "told": {"name": "old"}}}, {"variable": {"name": "old"}}]:
        vs = mkvars(n, typed)
        x = 7 if pre is None else (7, copy.deepcopy(pre))
        comp = Compose(*vs)
        vc_before = copy.deepcopy([v.var_context for v in vs] + [comp.var_context])
        r1 = comp(copy.deepcopy(x))
        r2 = list(Sequence(*vs).run(iter([copy.deepcopy(x)])))[0]
        r3 = comp(copy.deepcopy(x))
        vc_after = [v.var_context for v in vs] + [comp.var_context]
        if r1[0]!=r2[0] or r1[1]!=r2[1] or r1!=r3 or vc_before!=vc_after:
            bad+=1
            print("DIFF n",n,"typed",typed,"pre",pre)
            print("  compose :", r1)
            print("  sequence:", r2)
            print("  idem:", r1==r3, "varctx unchanged:", vc_before==vc_after)
        if typed and pre in (None, {}, {"a":1}):
            varc = r2[1]["variable"]
            if n>1:
                ok = varc.get("compose")==["t%d"%i for i in range(n)] and all(("t%d"%i) in varc and varc["t%d"%i].get("name")=="v%d"%i and varc["t%d"%i].get("extra")=="e%d"%i for i in range(n))
            else: ok = varc.get("name")=="v0"
            ok = ok and varc["name"]=="v%d"%(n-1)
            if not ok: bad+=1; print("TYPES LOST n",n, varc)
print("bad",bad)
c = Combine(*mkvars(3)); print(c(5))
