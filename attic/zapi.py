import z3, re
exec(open('pyvc1.py').read().split('class T:')[0])   # PRELUDE
text = PRELUDE + """
(declare-const d1 Val) (declare-const d2 Val) (declare-const k Key)
(assert ((_ is D) d1)) (assert ((_ is D) d2)) (assert (has d1 k)) (assert (has d2 k))
(assert (not (= (get d1 k) (get d2 k)))) (assert (not (truthy (get d1 k)))) (assert (not ((_ is D) (get d1 k))))
"""
s = z3.Solver(); s.from_string(text); print(s.check())
m = s.model()
names = {d.name(): d for d in m.decls()}
print(sorted(names))
d1 = m[names['d1']]; print("d1 =", d1)
# walk the datatype value: is it D? get the array, evaluate at k
Val = d1.sort(); 
dm = Val.accessor(1,0); isD = Val.recognizer(1); S_sid = Val.accessor(0,0)
kk = m[names['k']]
arr = m.eval(dm(d1)); print("d1[k] =", m.eval(z3.Select(arr, kk)))
ts = names['truthy_s']; print("truthy_s interp:", m[ts])
