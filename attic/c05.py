import itertools, copy, warnings
warnings.simplefilter("ignore")
import lena.core, lena.flow, lena.math, lena.variables
from lena.core import Split, Sequence, FillComputeSeq, LenaStopFill
from lena.flow import Filter, Slice, RunIf, Count, StoreFilled
from lena.math import Sum, Mean
from lena.variables import Variable

pre_makers = {
 "inc": lambda: (lambda v: v+1),
 "var": lambda: Variable("dbl", lambda x: x*2),
 "even": lambda: Filter(lambda v: lena.flow.get_data(v)%2==0),
 "none": lambda: Filter(lambda v: False),
 "sl2": lambda: Slice(2),
 "sl13": lambda: Slice(1,3),
 "sl052": lambda: Slice(0,5,2),
 "sl0": lambda: Slice(0),
 "runif": lambda: RunIf(lambda v: lena.flow.get_data(v)>1, lambda v: (lena.flow.get_data(v)*10)),
}
acc_makers = {
 "sum": lambda: Sum(), "fccount": lambda: lena.core.FillCompute(Count()), "store": lambda: StoreFilled(), "mean": lambda: Mean(pass_on_empty=True),
}
post_makers = {"id": lambda: [], "tag": lambda: [lambda v: ("post", v)]}
def run_driver(chain, flow): return list(Sequence(*chain).run(iter(copy.deepcopy(flow))))
def split_driver(chain, flow, bufsize): return list(Split([tuple(chain)], bufsize=bufsize).run(iter(copy.deepcopy(flow))))
def fill_driver(chain, flow):
    fcs = FillComputeSeq(*chain)
    for v in copy.deepcopy(flow):
        try: fcs.fill(v)
        except LenaStopFill: break
    return list(fcs.compute())
def norm(x):
    try: return repr(x)
    except Exception: return str(x)
bad=0;n=0;seen=set()
for npre in range(0,3):
  for pres in itertools.product(pre_makers, repeat=npre):
    for acc in acc_makers:
      for post in post_makers:
        for L in range(0,6):
          flow=list(range(L))
          def chain(): return [pre_makers[p]() for p in pres]+[acc_makers[acc]()]+post_makers[post]()
          try: a=run_driver(chain(),flow)
          except Exception as e: a=("EXC",type(e).__name__,str(e)[:50])
          res={"run":a}
          try: res["fill"]=fill_driver(chain(),flow)
          except Exception as e: res["fill"]=("EXC",type(e).__name__,str(e)[:50])
          for b in [1,2,L+1,1000,None]:
              try: res["split%s"%b]=split_driver(chain(),flow,b)
              except Exception as e: res["split%s"%b]=("EXC",type(e).__name__,str(e)[:50])
          n+=1
          vals=set(norm(v) for v in res.values())
          if len(vals)>1:
              key=(pres,acc,post)
              bad+=1
              if key not in seen and len(seen)<14:
                  seen.add(key); print("DIFF",pres,acc,post,L); [print("   ",k,v) for k,v in res.items()]
print("cases",n,"bad",bad,"distinct chains bad",len(seen))
