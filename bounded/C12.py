"""C12 bounded stand-in: histogram and graph arithmetic, scaling and conversions keep every cell.

The REAL histogram.scale/add/get_nevents/set_nevents, integral, graph.scale, hist_to_graph, iter_bins,
iter_bins_with_edges, iter_cells, hist1d_to_csv, hist2d_to_csv, ToCSV, scale_to, GroupScale and ScaleTo are run
against a reference written from the property text: the cells of a histogram are enumerated by explicit nested
indexing (`ref_cells`), all expected numbers are computed with exact rationals (`fractions.Fraction`) and compared
"up to rounding" (relative 1e-9 of the magnitude of the terms), CSV text is parsed back with `float`.

Every check function returns a list of (fid, text); a fid names the function and the clause of the property that
failed, so that one defect always maps to the same fid and different ways of breaking a function to different ones.
Shared list objects: besides tagged structures built from separate lists, every operation is run on structures in which
ONE list object occurs in several places (two rows / all rows of the bins, two axes of the edges, two or more columns of
a graph such as graph([xs, xs]) or one list for error_y_low and error_y_high, two structures of a group over the same
lists) and on the same values in separate lists (`chk_shared`): every cell / column is multiplied exactly once, operands
and other structures over the same lists stay as they were (a second histogram / graph object over the same lists is
compared before and after in the ordinary scale / set_nevents / graph.scale cases too), results share no list with the
operands.  Failures that appear only when lists are shared carry '<function>/shared-lists/<clause>'.
Reading decisions: container types of the iterators are not compared (DESIGN section 9); a refused `add` may raise
any exception (the property only says "only for equal edges"); for `coord_ranges` of `iter_cells` only the
consistency of the yielded cells and the cells wholly inside / wholly outside the range are demanded."""
import copy
import itertools
import math
import numbers
import os
import sys
import traceback
from fractions import Fraction

sys.path.insert(0, os.path.dirname(os.path.dirname(os.path.abspath(__file__))))
from bounded.common import Run, watchdog, Timeout

import lena.core
import lena.flow
from lena.core import LenaValueError
from lena.structures import (histogram, graph, hist_to_graph, iter_bins, iter_bins_with_edges, iter_cells,
                             integral, ScaleTo)
from lena.output import hist1d_to_csv, hist2d_to_csv, ToCSV
from lena.flow import GroupScale
from lena.flow.group_scale import scale_to as real_scale_to


# ------------------------------------------------------------------------------------------------ reference
def is_num(x):
    return isinstance(x, numbers.Real) and not isinstance(x, bool)


def close(x, ref, mag=0):
    """x (a number produced by the real code) equals the exact rational ref up to rounding"""
    if not is_num(x) or (isinstance(x, float) and not math.isfinite(x)):
        return False
    tol = Fraction(1, 10 ** 9) * max(abs(Fraction(ref)), abs(Fraction(mag)))
    return abs(Fraction(x) - Fraction(ref)) <= tol


def ref_cells(edges_md, bins):
    """every cell once, in the order of the nested lists: [(index, content, ((low, high), ...)), ...]"""
    dim = len(edges_md)
    out = []

    def rec(sub, idx):
        if len(idx) == dim:
            out.append((tuple(idx), sub, tuple((edges_md[d][i], edges_md[d][i + 1]) for d, i in enumerate(idx))))
            return
        for i in range(len(edges_md[len(idx)]) - 1):
            rec(sub[i], idx + [i])

    rec(bins, [])
    return out


def vol(cell_edges):
    v = Fraction(1)
    for lo, hi in cell_edges:
        v *= Fraction(hi) - Fraction(lo)
    return v


def ref_integral(cells):
    """sum over the cells of volume * content, and the sum of the magnitudes of the terms"""
    tot = Fraction(0)
    mag = Fraction(0)
    for _, c, e in cells:
        t = vol(e) * Fraction(c)
        tot += t
        mag += abs(t)
    return tot, mag


def flat(bins):
    if isinstance(bins, list):
        out = []
        for b in bins:
            out.extend(flat(b))
        return out
    return [bins]


def same_shape(a, b):
    if isinstance(a, list) != isinstance(b, list):
        return False
    if not isinstance(a, list):
        return True
    return len(a) == len(b) and all(same_shape(x, y) for x, y in zip(a, b))


def lists_of(obj, acc):
    """all list objects reachable from obj (kept alive by the caller, so ids are not reused)"""
    if isinstance(obj, list):
        acc.append(obj)
        for x in obj:
            lists_of(x, acc)
    return acc


def hedges(edges_md):
    return edges_md[0] if len(edges_md) == 1 else edges_md


def _at(nested, path):
    for i in path:
        nested = nested[i]
    return nested


def share_hist_lists(edges_md, bins, alias):
    """alias = {"bins": [[path, path2], ...], "edges": [[d, d2], ...]}: the list at bins[path2] (edges_md[d2]) is replaced
    by the very list object at bins[path] (edges_md[d]); the values must already be equal, so that the same arguments
    without *alias* describe the same histogram built from separate lists"""
    for src, dst in alias.get("bins", ()):
        a, parent = _at(bins, src), _at(bins, dst[:-1])
        if not isinstance(a, list) or repr(parent[dst[-1]]) != repr(a):
            raise ValueError("alias %r joins unequal lists in %r" % (alias, bins))
        parent[dst[-1]] = a
    for src, dst in alias.get("edges", ()):
        if repr(edges_md[dst]) != repr(edges_md[src]):
            raise ValueError("alias %r joins unequal edges in %r" % (alias, edges_md))
        edges_md[dst] = edges_md[src]


def equalise(edges_md, bins, alias):
    """copies of (edges_md, bins) with the VALUES of every alias source copied to its target (still separate lists)"""
    e, b = copy.deepcopy(edges_md), copy.deepcopy(bins)
    for src, dst in alias.get("bins", ()):
        _at(b, dst[:-1])[dst[-1]] = copy.deepcopy(_at(b, src))
    for src, dst in alias.get("edges", ()):
        e[dst] = list(e[src])
    return e, b


def mk_hist(edges_md, bins, noor=0, alias=None):
    e = copy.deepcopy(edges_md)
    b = copy.deepcopy(bins)
    if alias:
        share_hist_lists(e, b, alias)
    h = histogram(hedges(e), b)
    h.n_out_of_range = noor
    return h


def mk_twin(h, noor=0):
    """another histogram object over the very same bins and edges lists"""
    t = histogram(h.edges, h.bins)
    t.n_out_of_range = noor
    return t


def snap(h):
    return repr((h.bins, h.edges, h.n_out_of_range))


def exc_name(f):
    """run f(); return (value, None) or (None, name of the exception class)"""
    try:
        return f(), None
    except Exception as e:  # the class is what is compared
        return None, type(e).__name__


def hist_scaled(v, base, h, edges_md, cells, noor, f, ctx):
    """h must be the histogram (edges_md, cells, noor) with every content multiplied by the rational f"""
    orig = [c for _, c, _ in cells]
    got = flat(h.bins)
    if len(got) != len(orig) or not same_shape(h.bins, bins_of(cells, edges_md)):
        v.append((base + "/shape-changed", "%s: bins became %r" % (ctx, h.bins)))
        return False
    ok = True
    for k, (g, c) in enumerate(zip(got, orig)):
        if not close(g, Fraction(c) * f, 0):
            v.append((base + "/bins-not-multiplied", "%s: cell %r holds %r, expected %r * %s = %s" % (
                ctx, cells[k][0], g, c, f, float(Fraction(c) * f))))
            ok = False
            break
    if not close(h.n_out_of_range, Fraction(noor) * f, 0):
        v.append((base + "/n_out_of_range-not-multiplied", "%s: n_out_of_range %r -> %r, expected %s" % (
            ctx, noor, h.n_out_of_range, float(Fraction(noor) * f))))
        ok = False
    if repr(h.edges) != repr(hedges(edges_md)):
        v.append((base + "/edges-changed", "%s: edges %r -> %r" % (ctx, hedges(edges_md), h.edges)))
        ok = False
    return ok


def bins_of(cells, edges_md):
    """nested bins rebuilt from the reference cells (shape from the edges)"""
    it = iter([c for _, c, _ in cells])

    def rec(d):
        n = len(edges_md[d]) - 1
        if d == len(edges_md) - 1:
            return [next(it) for _ in range(n)]
        return [rec(d + 1) for _ in range(n)]

    return rec(0)


def hist_unscaled(v, fid, h, before, ctx):
    if snap(h) != before:
        v.append((fid, "%s: histogram changed to %s" % (ctx, snap(h))))


# ------------------------------------------------------------------------------------ histogram.scale / integral
def chk_scale(edges_md, bins, noor, s, s2, pre, alias=None):
    v = []
    ctx = "histogram(%r, %r) n_out_of_range=%r [%s]" % (hedges(edges_md), bins, noor, pre)
    cells = ref_cells(edges_md, bins)
    I, mag = ref_integral(cells)
    got, ex = exc_name(lambda: integral(copy.deepcopy(bins), copy.deepcopy(edges_md)))
    if ex or not close(got, I, mag):
        v.append(("integral/value", "integral(%r, %r) = %r, expected %s" % (bins, edges_md, ex or got, float(I))))
    h = mk_hist(edges_md, bins, noor, alias)
    before = snap(h)
    twin = mk_twin(h, noor)
    if pre == "cached":
        got, ex = exc_name(lambda: h.scale())
        if ex or not close(got, I, mag):
            v.append(("histogram.scale/get-not-integral", "%s: scale() = %r, expected %s" % (ctx, ex or got, float(I))))
        hist_unscaled(v, "histogram.scale/get-modifies", h, before, ctx + " scale()")
    _, ex = exc_name(lambda: h.scale(s))
    if I == 0:
        if ex != "LenaValueError":
            v.append(("histogram.scale/zero-scale-not-LenaValueError",
                      "%s has scale 0, scale(%r) %s" % (ctx, s, "raised " + ex if ex else "did not raise")))
        return v
    if ex:
        v.append(("histogram.scale/raised-on-nonzero-scale", "%s has scale %s, scale(%r) raised %s" % (ctx, float(I), s, ex)))
        return v
    f = Fraction(s) / I
    if not hist_scaled(v, "histogram.scale", h, edges_md, cells, noor, f, ctx + " scale(%r)" % s):
        return v
    hist_unscaled(v, "histogram.scale/histogram-sharing-lists-changed", twin, before,
                  ctx + " scale(%r): another histogram object over the same bins and edges lists" % s)
    got, ex = exc_name(lambda: h.scale())
    if ex or not close(got, s, mag * abs(f)):
        v.append(("histogram.scale/stored-scale-differs", "%s: after scale(%r), scale() = %r" % (ctx, s, ex or got)))
    # a second rescale starts from the scale just set
    _, ex = exc_name(lambda: h.scale(s2))
    f2 = Fraction(s2) / I
    if ex:
        v.append(("histogram.scale/second-rescale-wrong", "%s: scale(%r); scale(%r) raised %s" % (ctx, s, s2, ex)))
        return v
    c2 = ctx + " scale(%r); scale(%r)" % (s, s2)
    vv = []
    if not hist_scaled(vv, "histogram.scale", h, edges_md, cells, noor, f2, c2):
        v.append(("histogram.scale/second-rescale-wrong", vv[0][1]))
        return v
    got, ex = exc_name(lambda: h.scale(recompute=True))
    if ex or not close(got, s2, mag * abs(f2)):
        v.append(("histogram.scale/recomputed-scale-differs", "%s: scale(recompute=True) = %r, expected %r" % (c2, ex or got, s2)))
    # after a change of the contents the recomputed scale is the integral of the new contents
    low = [e[0] for e in edges_md]
    _, ex = exc_name(lambda: h.fill(low if len(low) > 1 else low[0], 2))
    new = Fraction(s2) + 2 * vol(cells[0][2])
    got, ex2 = exc_name(lambda: h.scale(recompute=True))
    if ex or ex2 or not close(got, new, mag * abs(f2) + 2 * vol(cells[0][2])):
        v.append(("histogram.scale/recompute-not-fresh", "%s; fill(%r, 2): scale(recompute=True) = %r, expected %s" % (
            c2, low, ex or ex2 or got, float(new))))
    return v


# ------------------------------------------------------------------------------------------------ histogram.add
def chk_add(edges_md, bins_a, noor_a, bins_b, noor_b, w, mode, alias=None):
    """mode: 'pos' a.add(b, w); 'kw' a.add(b, weight=w); 'default' a.add(b) (w must be 1); 'self' a.add(a, w);
    alias: {"a": list sharing inside a, "b": inside b, "share": True -> b is another histogram object over the very
    bins and edges lists of a (bins_b must equal bins_a)}"""
    v = []
    alias = alias or {}
    a = mk_hist(edges_md, bins_a, noor_a, alias.get("a"))
    if mode == "self":
        b, bins_b, noor_b = a, bins_a, noor_a
    elif alias.get("share"):
        if repr(bins_b) != repr(bins_a):
            raise ValueError("share needs equal bins")
        b = mk_twin(a, noor_b)
    else:
        b = mk_hist(edges_md, bins_b, noor_b, alias.get("b"))
    ctx = "histogram(%r, %r)[n_out=%r].add(histogram(.., %r)[n_out=%r], %r) [%s]" % (
        hedges(edges_md), bins_a, noor_a, bins_b, noor_b, w, mode)
    sa, sb = snap(a), snap(b)
    if mode == "kw":
        r, ex = exc_name(lambda: a.add(b, weight=w))
    elif mode == "default":
        r, ex = exc_name(lambda: a.add(b))
    else:
        r, ex = exc_name(lambda: a.add(b, w))
    if ex:
        v.append(("histogram.add/raised-on-equal-edges", "%s raised %s" % (ctx, ex)))
        return v
    if snap(a) != sa or snap(b) != sb:
        v.append(("histogram.add/operand-modified", "%s: operands became %s and %s" % (ctx, snap(a), snap(b))))
    if not isinstance(r, histogram) or r is a or r is b:
        v.append(("histogram.add/result-not-a-new-histogram", "%s returned %r" % (ctx, r)))
        return v
    ca, cb = ref_cells(edges_md, bins_a), ref_cells(edges_md, bins_b)
    got = flat(r.bins)
    if len(got) != len(ca) or not same_shape(r.bins, bins_a):
        v.append(("histogram.add/cell-wise-sum", "%s: result bins %r have another shape" % (ctx, r.bins)))
    else:
        for k, g in enumerate(got):
            exp = Fraction(ca[k][1]) + Fraction(w) * Fraction(cb[k][1])
            if not close(g, exp, abs(Fraction(ca[k][1])) + abs(Fraction(w) * Fraction(cb[k][1]))):
                v.append(("histogram.add/cell-wise-sum", "%s: cell %r = %r, expected %r + %r*%r = %s" % (
                    ctx, ca[k][0], g, ca[k][1], w, cb[k][1], float(exp))))
                break
    exp = Fraction(noor_a) + Fraction(w) * Fraction(noor_b)
    if not close(r.n_out_of_range, exp, abs(Fraction(noor_a)) + abs(Fraction(w) * Fraction(noor_b))):
        v.append(("histogram.add/n_out_of_range", "%s: n_out_of_range = %r, expected %s" % (ctx, r.n_out_of_range, float(exp))))
    if repr(r.edges) != repr(hedges(edges_md)) or r.dim != len(edges_md):
        v.append(("histogram.add/result-edges", "%s: result edges %r" % (ctx, r.edges)))
        return v
    mine = lists_of([r.bins, r.edges], [])
    theirs = lists_of([a.bins, a.edges, b.bins, b.edges], [])
    if set(map(id, mine[1:])) & set(map(id, theirs[1:])):
        v.append(("histogram.add/result-shares-operand", "%s: the result shares a list with an operand" % ctx))
    # using the result afterwards leaves the operands alone
    low = [e[0] for e in edges_md]
    exc_name(lambda: r.fill(low if len(low) > 1 else low[0], 5))
    exc_name(lambda: r.set_nevents(3))
    exc_name(lambda: r.scale(7))
    if snap(a) != sa or snap(b) != sb:
        v.append(("histogram.add/operand-changed-via-result", "%s; fill/set_nevents/scale of the result changed an operand "
                  "to %s / %s" % (ctx, snap(a), snap(b))))
    return v


def tag_bins(edges_md, mult):
    cnt = [0]

    def rec(d):
        n = len(edges_md[d]) - 1
        if d == len(edges_md) - 1:
            out = []
            for _ in range(n):
                cnt[0] += 1
                out.append(cnt[0] * mult)
            return out
        return [rec(d + 1) for _ in range(n)]

    return rec(0)


def chk_add_unequal(edges_a, edges_b, w):
    """edges differ (far beyond the documented tolerance): add must refuse"""
    v = []
    a = mk_hist(edges_a, tag_bins(edges_a, 1), 1)
    b = mk_hist(edges_b, tag_bins(edges_b, 100), 2)
    r, ex = exc_name(lambda: a.add(b, w))
    if ex is None:
        if [len(e) for e in edges_a] == [len(e) for e in edges_b] and len(edges_a) == len(edges_b):
            kind = "different-edges-accepted"
        elif len(edges_a) == len(edges_b) and all(len(x) <= len(y) and x == y[:len(x)] for x, y in zip(edges_a, edges_b)):
            kind = "longer-edges-accepted"
        else:
            kind = "other-shape-accepted"
        v.append(("histogram.add/" + kind, "histogram(%r, %r).add(histogram(%r, %r), %r) returned %r instead of refusing "
                  "unequal edges" % (hedges(edges_a), a.bins, hedges(edges_b), b.bins, w, r)))
    return v


def chk_add_tol(edges_a, edges_b, tols, style):
    """"only for equal edges", as documented: edges are compared with math.isclose semantics under edges_abs_tol and
    edges_rel_tol (defaults 0 and 1e-9).  tols = {} or {"abs": x, "rel": y}; style 'kw' / 'pos'.  The cases are chosen
    well away from the threshold (factor >= 2), so rounding cannot decide."""
    import math as _m
    v = []
    a = mk_hist(edges_a, tag_bins(edges_a, 1), 1)
    b = mk_hist(edges_b, tag_bins(edges_b, 100), 2)
    at, rt = tols.get("abs", 0.0), tols.get("rel", 1e-9)
    close = all(_m.isclose(x, y, rel_tol=rt, abs_tol=at) for ea, eb in zip(edges_a, edges_b) for x, y in zip(ea, eb))
    if style == "pos":
        r, ex = exc_name(lambda: a.add(b, 1, at, rt))
    else:
        kw = {}
        if "abs" in tols:
            kw["edges_abs_tol"] = at
        if "rel" in tols:
            kw["edges_rel_tol"] = rt
        r, ex = exc_name(lambda: a.add(b, **kw))
    ctx = "histogram(%r, ..).add(histogram(%r, ..)%s) [%s]" % (hedges(edges_a), hedges(edges_b),
                                                              "".join(", edges_%s_tol=%r" % (k, tols[k]) for k in sorted(tols)), style)
    if close and ex is not None:
        v.append(("histogram.add/raised-on-equal-edges", "%s raised %s although every edge pair is within the tolerance" % (ctx, ex)))
    if not close and ex is None:
        v.append(("histogram.add/different-edges-accepted", "%s returned %r although the edges differ by more than the tolerance" % (ctx, r)))
    if not close and ex is not None and ex != "LenaValueError":
        v.append(("histogram.add/wrong-exception-for-different-edges", "%s raised %s" % (ctx, ex)))
    return v


# ----------------------------------------------------------------------------------- get_nevents / set_nevents
def chk_nevents(edges_md, bins, noor, n, inc, style, alias=None):
    v = []
    h = mk_hist(edges_md, bins, noor, alias)
    twin = mk_twin(h, noor)
    ctx = "histogram(%r, %r) n_out_of_range=%r" % (hedges(edges_md), bins, noor)
    cells = ref_cells(edges_md, bins)
    T = sum(Fraction(c) for _, c, _ in cells)
    mag = sum(abs(Fraction(c)) for _, c, _ in cells)
    before = snap(h)
    got, ex = exc_name(lambda: h.get_nevents())
    if ex or not close(got, T, mag):
        v.append(("get_nevents/in-range-sum", "%s: get_nevents() = %r, expected %s" % (ctx, ex or got, float(T))))
    got, ex = exc_name(lambda: h.get_nevents(True))
    if ex or not close(got, T + Fraction(noor), mag + abs(Fraction(noor))):
        v.append(("get_nevents/include_out_of_range", "%s: get_nevents(True) = %r, expected %s" % (
            ctx, ex or got, float(T + Fraction(noor)))))
    got, ex = exc_name(lambda: h.get_nevents(include_out_of_range=False))
    if ex or not close(got, T, mag):
        v.append(("get_nevents/in-range-sum", "%s: get_nevents(include_out_of_range=False) = %r, expected %s" % (
            ctx, ex or got, float(T))))
    hist_unscaled(v, "get_nevents/modifies", h, before, ctx + " get_nevents()")
    old = T + Fraction(noor) if inc else T
    if style == "default":
        _, ex = exc_name(lambda: h.set_nevents(n))
    elif style == "pos":
        _, ex = exc_name(lambda: h.set_nevents(n, inc))
    else:
        _, ex = exc_name(lambda: h.set_nevents(n, include_out_of_range=inc))
    call = "set_nevents(%r, include_out_of_range=%r)" % (n, inc)
    if old == 0:
        if ex != "LenaValueError":
            v.append(("set_nevents/zero-events-not-LenaValueError", "%s holds 0 events, %s %s" % (
                ctx, call, "raised " + ex if ex else "did not raise")))
        return v
    if ex:
        v.append(("set_nevents/raised", "%s: %s raised %s" % (ctx, call, ex)))
        return v
    f = Fraction(n) / old
    hist_scaled(v, "set_nevents", h, edges_md, cells, noor, f, ctx + " " + call)
    hist_unscaled(v, "set_nevents/histogram-sharing-lists-changed", twin, before,
                  ctx + " " + call + ": another histogram object over the same bins and edges lists")
    if style == "default":
        got, ex = exc_name(lambda: h.get_nevents())
    else:
        got, ex = exc_name(lambda: h.get_nevents(include_out_of_range=inc))
    if ex or not close(got, n, (mag + abs(Fraction(noor))) * abs(f)):
        v.append(("set_nevents/get_nevents-differs", "%s: after %s get_nevents(%r) = %r" % (ctx, call, inc, ex or got)))
    return v


# ------------------------------------------------------------------------------------------------ graph.scale
def parse_names_ref(names):
    """reference reading of graph field names: (dim, {error column: its coordinate}) or None when invalid.
    Coordinates first, then fields 'error_' + coordinate name [+ '_' + anything], each belonging to exactly one."""
    coords, errs, started = [], [], False
    for i, nm in enumerate(names):
        if nm.startswith("error_"):
            started = True
            errs.append(i)
        else:
            if started:
                return None
            coords.append(nm)
    if not coords or len(set(names)) != len(names):
        return None
    owner = {}
    for i in errs:
        main = names[i][len("error_"):]
        own = [c for c in coords if main == c or main.startswith(c + "_")]
        if len(own) != 1:
            return None
        owner[i] = own[0]
    return len(coords), owner


def share_columns(cols, alias):
    """alias[i] = index of the column whose list object column i uses (alias[i] == i: a list of its own); the values of
    joined columns must already be equal"""
    for i, c in enumerate(alias):
        if c != i:
            if repr(cols[i]) != repr(cols[c]):
                raise ValueError("alias %r joins unequal columns in %r" % (alias, cols))
            cols[i] = cols[c]
    return cols


def chk_graph_scale(names, coords, scale0, s, s2, fmt, alias=None):
    """fmt: 'tuple', 'comma' (field names as "x,y"), 'space' ("x y"); alias: see share_columns"""
    v = []
    names = tuple(names)
    dim, owner = parse_names_ref(names)
    fn = names if fmt == "tuple" else (", " if fmt == "comma" else " ").join(names)
    ctx = "graph(%r, field_names=%r, scale=%r)" % (coords, fn, scale0)
    cols = copy.deepcopy(coords)
    if alias:
        share_columns(cols, alias)
    g, ex = exc_name(lambda: graph(cols, field_names=fn, scale=scale0))
    if ex:
        v.append(("graph/valid-naming-rejected", "%s raised %s" % (ctx, ex)))
        return v
    # another graph with a coords list of its own over the very same column lists
    twin, _ = exc_name(lambda: graph(list(cols), field_names=fn, scale=scale0))
    if g.dim != dim or tuple(g.field_names) != names:
        v.append(("graph/dim", "%s: dim = %r, field_names = %r, expected %d coordinates" % (ctx, g.dim, g.field_names, dim)))
    got, ex = exc_name(lambda: g.scale())
    if ex or repr(got) != repr(scale0):
        v.append(("graph.scale/get", "%s: scale() = %r" % (ctx, ex or got)))
    _, ex = exc_name(lambda: g.scale(s))
    if scale0 is None or scale0 == 0:
        if ex != "LenaValueError":
            v.append(("graph.scale/zero-or-unknown-scale-not-LenaValueError", "%s.scale(%r) %s" % (
                ctx, s, "raised " + ex if ex else "did not raise")))
        return v
    if ex:
        v.append(("graph.scale/raised-on-known-scale", "%s.scale(%r) raised %s" % (ctx, s, ex)))
        return v
    last = names[dim - 1]

    def columns(f, call, second):
        if not isinstance(g.coords, list) or len(g.coords) != len(coords) or any(
                len(c) != len(o) for c, o in zip(g.coords, coords)):
            v.append(("graph.scale/columns-lost", "%s%s: coords became %r" % (ctx, call, g.coords)))
            return
        for i, col in enumerate(coords):
            scaled = i == dim - 1 or owner.get(i) == last
            if scaled:
                if not all(close(x, Fraction(o) * f) for x, o in zip(g.coords[i], col)):
                    fid = "second-rescale-wrong" if second else (
                        "last-coordinate-not-multiplied" if i == dim - 1 else "error-of-last-coordinate-not-multiplied")
                    v.append(("graph.scale/" + fid, "%s%s: column %r = %r, expected %r * %s" % (
                        ctx, call, names[i], g.coords[i], col, float(f))))
            elif repr(list(g.coords[i])) != repr(col):
                fid = "other-coordinate-changed" if i < dim else "other-error-changed"
                v.append(("graph.scale/" + fid, "%s%s: column %r = %r, was %r" % (ctx, call, names[i], g.coords[i], col)))

    columns(Fraction(s) / Fraction(scale0), ".scale(%r)" % s, False)
    if twin is not None and (repr([list(c) for c in twin.coords]) != repr(coords) or repr(twin.scale()) != repr(scale0)):
        v.append(("graph.scale/graph-sharing-columns-changed", "%s.scale(%r): another graph built from the same column lists "
                  "became %r" % (ctx, s, twin)))
    got, ex = exc_name(lambda: g.scale())
    if ex or not is_num(got) or got != s:
        v.append(("graph.scale/stored-scale-differs", "%s.scale(%r): scale() = %r" % (ctx, s, ex or got)))
    _, ex = exc_name(lambda: g.scale(s2))
    if ex:
        v.append(("graph.scale/second-rescale-wrong", "%s.scale(%r); scale(%r) raised %s" % (ctx, s, s2, ex)))
    else:
        columns(Fraction(s2) / Fraction(scale0), ".scale(%r); scale(%r)" % (s, s2), True)
    return v


# ---------------------------------------------------------------------------------------------- hist_to_graph
def _mv(b):
    return (b, b * 0.5)


def chk_h2g(edges_md, bins, mode, scale_arg, mk, fmt, alias=None):
    v = []
    dim = len(edges_md)
    names = ("x", "y", "z", "t")[:dim + 1]
    if mk:
        names = names + ("error_" + names[-1],)
    fn = names if fmt == "tuple" else ",".join(names)
    h = mk_hist(edges_md, bins, 3, alias)
    before = snap(h)
    cells = ref_cells(edges_md, bins)
    ctx = "hist_to_graph(histogram(%r, %r), get_coordinate=%r, field_names=%r, scale=%r%s)" % (
        hedges(edges_md), bins, mode, fn, scale_arg, ", make_value=(b, b/2)" if mk else "")
    g, ex = exc_name(lambda: hist_to_graph(h, make_value=_mv if mk else None, get_coordinate=mode, field_names=fn,
                                           scale=scale_arg))
    if mode not in ("left", "right", "middle"):
        if ex != "LenaValueError":
            v.append(("hist_to_graph/bad-get_coordinate-not-LenaValueError", "%s %s" % (ctx, ex or "did not raise")))
        return v
    if ex or not isinstance(g, graph):
        v.append(("hist_to_graph/raised", "%s: %s" % (ctx, ex or repr(g))))
        return v
    hist_unscaled(v, "hist_to_graph/histogram-modified", h, before, ctx)
    pts, ex = exc_name(lambda: list(g))
    if ex or len(pts) != len(cells) or len(g.coords) != len(names) or any(len(c) != len(cells) for c in g.coords):
        v.append(("hist_to_graph/point-count", "%s: %r points in %r columns, expected %d points in %d columns (%r)" % (
            ctx, ex or len(pts), len(g.coords), len(cells), len(names), g.coords)))
        return v
    for p, (idx, c, e) in zip(pts, cells):
        if mode == "left":
            co = [Fraction(lo) for lo, hi in e]
        elif mode == "right":
            co = [Fraction(hi) for lo, hi in e]
        else:
            co = [(Fraction(lo) + Fraction(hi)) / 2 for lo, hi in e]
        if len(p) != len(names) or not all(close(x, r, abs(r)) for x, r in zip(p[:dim], co)):
            v.append(("hist_to_graph/coordinate-" + mode, "%s: point %r for cell %r with edges %r" % (ctx, p, idx, e)))
            break
        if not is_num(p[dim]) or p[dim] != c:
            v.append(("hist_to_graph/value", "%s: point %r for cell %r with content %r" % (ctx, p, idx, c)))
            break
        if mk and not close(p[dim + 1], Fraction(c) / 2):
            v.append(("hist_to_graph/make_value", "%s: point %r for cell %r with content %r" % (ctx, p, idx, c)))
            break
    if tuple(g.field_names) != names or g.dim != dim + 1:
        v.append(("hist_to_graph/fields", "%s: field_names %r dim %r" % (ctx, g.field_names, g.dim)))
    sc = g.scale()
    if scale_arg is None:
        ok = sc is None
    elif scale_arg is True:
        I, mag = ref_integral(cells)
        ok = close(sc, I, mag)
    else:
        ok = is_num(sc) and sc == scale_arg
    if not ok:
        v.append(("hist_to_graph/scale-arg", "%s: graph scale %r" % (ctx, sc)))
    # the graph is a structure of its own: no list of the histogram in it, and rescaling it leaves the histogram alone
    mine = lists_of(g.coords, [])
    theirs = lists_of([h.bins, h.edges], [])
    if set(map(id, mine)) & set(map(id, theirs)):
        v.append(("hist_to_graph/graph-shares-histogram-list", "%s: a column of the graph is a list of the histogram" % ctx))
    if ok and sc:
        _, ex = exc_name(lambda: g.scale(sc * 4))
        if ex is None:
            hist_unscaled(v, "hist_to_graph/histogram-changed-via-graph", h, before, ctx + "; rescaling the graph")
            if not all(close(x, Fraction(c) * 4) for x, (_, c, _) in zip(g.coords[dim], cells)):
                v.append(("hist_to_graph/value-column-not-rescalable", "%s; graph.scale(%r): values %r, cell contents were %r" % (
                    ctx, sc * 4, g.coords[dim], [c for _, c, _ in cells])))
    return v


# -------------------------------------------------------------------------------------------------- iterators
def norm_edges(e):
    """((low, high), ...) whatever the container types; a bare (low, high) pair counts as one axis"""
    e = list(e)
    if len(e) == 2 and not hasattr(e[0], "__iter__"):
        e = [e]
    return tuple(tuple(p) for p in e)


def cmp_cell(v, base, got_idx, got_c, got_e, ref, ctx):
    idx, c, e = ref
    if got_idx is not None and (not isinstance(got_idx, (tuple, list)) or tuple(got_idx) != idx):
        v.append((base + "/index", "%s: yields index %r where the cell in order is %r" % (ctx, got_idx, idx)))
        return False
    if not is_num(got_c) or got_c != c or type(got_c) is not type(c):
        v.append((base + "/content", "%s: yields content %r for cell %r holding %r" % (ctx, got_c, idx, c)))
        return False
    if got_e is not None:
        ne, ex = exc_name(lambda: norm_edges(got_e))
        if ex or ne != e:
            v.append((base + "/edges", "%s: yields edges %r for cell %r with edges %r" % (ctx, got_e, idx, e)))
            return False
    return True


def chk_iter(edges_md, bins, alias=None):
    v = []
    h = mk_hist(edges_md, bins, 0, alias)
    before = snap(h)
    cells = ref_cells(edges_md, bins)
    ctx = "histogram(%r, %r)" % (hedges(edges_md), bins)
    a, ex = exc_name(lambda: list(iter_bins(h.bins)))
    if ex or len(a) != len(cells):
        v.append(("iter_bins/count", "iter_bins of %s: %r items, expected %d" % (ctx, ex or len(a), len(cells))))
    else:
        for it, ref in zip(a, cells):
            if not (isinstance(it, tuple) and len(it) == 2):
                v.append(("iter_bins/index", "iter_bins of %s yields %r" % (ctx, it)))
                break
            if not cmp_cell(v, "iter_bins", it[0], it[1], None, ref, "iter_bins of " + ctx):
                break
    for form in ("hist", "md"):
        ed = h.edges if form == "hist" else copy.deepcopy(edges_md)
        b, ex = exc_name(lambda: list(iter_bins_with_edges(h.bins, ed)))
        name = "iter_bins_with_edges(%r, %r)" % (bins, ed)
        if ex or len(b) != len(cells):
            v.append(("iter_bins_with_edges/count", "%s: %r items, expected %d" % (name, ex or len(b), len(cells))))
        else:
            for it, ref in zip(b, cells):
                if not (isinstance(it, tuple) and len(it) == 2):
                    v.append(("iter_bins_with_edges/content", "%s yields %r" % (name, it)))
                    break
                if not cmp_cell(v, "iter_bins_with_edges", None, it[0], it[1], ref, name):
                    break
    for rng_arg in ("none", "all-None"):
        if rng_arg == "none":
            c, ex = exc_name(lambda: list(iter_cells(h)))
        else:
            c, ex = exc_name(lambda: list(iter_cells(h, ranges=((None, None),) * len(edges_md))))
        name = "iter_cells(%s%s)" % (ctx, "" if rng_arg == "none" else ", ranges=((None, None),)*dim")
        if ex or len(c) != len(cells):
            v.append(("iter_cells/count", "%s: %r cells, expected %d" % (name, ex or len(c), len(cells))))
        else:
            for it, ref in zip(c, cells):
                got, ex = exc_name(lambda: (it.index, it.bin, it.edges))
                if ex or len(it) != 3:
                    v.append(("iter_cells/index", "%s yields %r" % (name, it)))
                    break
                if not cmp_cell(v, "iter_cells", got[0], got[1], got[2], ref, name):
                    break
    hist_unscaled(v, "iterators/histogram-modified", h, before, "iterating " + ctx)
    return v


def chk_iter_ranges(edges_md, bins, ranges):
    """index ranges: low included, up excluded, None = no limit; LenaValueError iff some low < 0 or up > nbins"""
    v = []
    h = mk_hist(edges_md, bins, 0)
    cells = ref_cells(edges_md, bins)
    rt = tuple((lo, up) for lo, up in ranges)
    name = "iter_cells(histogram(%r, %r), ranges=%r)" % (hedges(edges_md), bins, rt)
    bad = any((lo is not None and lo < 0) or (up is not None and up > len(e) - 1) for (lo, up), e in zip(rt, edges_md))
    c, ex = exc_name(lambda: list(iter_cells(h, ranges=rt)))
    if bad:
        if ex != "LenaValueError":
            v.append(("iter_cells/bad-range-not-LenaValueError", "%s %s" % (name, "raised " + ex if ex else "yielded %r" % (c,))))
        return v
    if ex:
        v.append(("iter_cells/valid-range-raised", "%s raised %s" % (name, ex)))
        return v
    exp = [cl for cl in cells if all((lo is None or lo <= i) and (up is None or i < up) for i, (lo, up) in zip(cl[0], rt))]
    if len(c) != len(exp):
        v.append(("iter_cells/range-selection", "%s yields cells %r, expected %r" % (
            name, [getattr(x, "index", x) for x in c], [x[0] for x in exp])))
        return v
    for it, ref in zip(c, exp):
        got, ex = exc_name(lambda: (it.index, it.bin, it.edges))
        if ex:
            v.append(("iter_cells/range-selection", "%s yields %r" % (name, it)))
            break
        if isinstance(got[0], (tuple, list)) and tuple(got[0]) != ref[0]:
            v.append(("iter_cells/range-selection", "%s yields cells %r, expected %r" % (
                name, [getattr(x, "index", x) for x in c], [x[0] for x in exp])))
            break
        if not cmp_cell(v, "iter_cells", got[0], got[1], got[2], ref, name):
            break
    return v


def chk_iter_coord(edges_md, bins, cranges):
    """coordinate ranges away from the edges: every yielded cell is a cell of the histogram with its own content and
    edges, in order, once; cells wholly inside the range are yielded, cells wholly outside are not"""
    v = []
    h = mk_hist(edges_md, bins, 0)
    cells = ref_cells(edges_md, bins)
    byidx = dict((cl[0], cl) for cl in cells)
    order = dict((cl[0], k) for k, cl in enumerate(cells))
    rt = tuple((lo, hi) for lo, hi in cranges)
    name = "iter_cells(histogram(%r, %r), coord_ranges=%r)" % (hedges(edges_md), bins, rt)
    c, ex = exc_name(lambda: list(iter_cells(h, coord_ranges=rt)))
    if ex:
        v.append(("iter_cells/coord-range-raised", "%s raised %s" % (name, ex)))
        return v
    seen = []
    for it in c:
        got, ex = exc_name(lambda: (tuple(it.index), it.bin, it.edges))
        if ex or got[0] not in byidx:
            v.append(("iter_cells/index", "%s yields %r" % (name, it)))
            return v
        if not cmp_cell(v, "iter_cells", got[0], got[1], got[2], byidx[got[0]], name):
            return v
        seen.append(got[0])
    if [order[i] for i in seen] != sorted(set(order[i] for i in seen)):
        v.append(("iter_cells/coord-range-order", "%s yields cells %r: not once each in order" % (name, seen)))
    for idx, _, e in cells:
        inside = all(lo <= a and b <= hi for (a, b), (lo, hi) in zip(e, rt))
        outside = any(b <= lo or a >= hi for (a, b), (lo, hi) in zip(e, rt))
        if (inside and idx not in seen) or (outside and idx in seen):
            v.append(("iter_cells/coord-range-selection", "%s yields cells %r; cell %r with edges %r is wholly %s the range" % (
                name, seen, idx, e, "inside" if inside else "outside")))
            break
    return v


# -------------------------------------------------------------------------------------------------------- CSV
def csv_rows_ref(edges_md, bins, dup):
    """one row per cell: its lower edges and content; when requested, rows that repeat the last content at the
    last edge of an axis: [(kind, (edge coordinates), content)]"""
    if len(edges_md) == 1:
        e = edges_md[0]
        rows = [("cell", (e[i],), bins[i]) for i in range(len(e) - 1)]
        if dup:
            rows.append(("dup", (e[-1],), bins[-1]))
        return rows
    ex, ey = edges_md
    rows = []
    for i in range(len(ex) - 1):
        for j in range(len(ey) - 1):
            rows.append(("cell", (ex[i], ey[j]), bins[i][j]))
        if dup:
            rows.append(("dup", (ex[i], ey[-1]), bins[i][-1]))
    if dup:
        for j in range(len(ey) - 1):
            rows.append(("dup", (ex[-1], ey[j]), bins[-1][j]))
        rows.append(("dup", (ex[-1], ey[-1]), bins[-1][-1]))
    return rows


def printed_close(x, true):
    """x was parsed from '{:f}' text of true: six digits after the point"""
    return abs(Fraction(x) - Fraction(true)) <= Fraction(500001, 10 ** 12) + abs(Fraction(true)) / 10 ** 15


def chk_csv(edges_md, bins, dup, sep, header, via, alias=None):
    """via: 'func' (hist1d_to_csv / hist2d_to_csv), 'func-default' (all defaults: dup True, ',', no header),
    'ToCSV', 'ToCSV-default', 'ToCSV-ctx' (context.output.duplicate_last_bin overrides the element's opposite value),
    'ToCSV-rowend' (row_end=';;', last_row_end='!')"""
    v = []
    dim = len(edges_md)
    h = mk_hist(edges_md, bins, 2, alias)
    before = snap(h)
    fname = "hist%dd_to_csv" % dim
    func = hist1d_to_csv if dim == 1 else hist2d_to_csv
    hs = "histogram(%r, %r)" % (hedges(edges_md), bins)
    if via == "func":
        base = fname
        ctx = "%s(%s, header=%r, separator=%r, duplicate_last_bin=%r)" % (fname, hs, header, sep, dup)
        lines, ex = exc_name(lambda: list(func(h, header=header, separator=sep, duplicate_last_bin=dup)))
    elif via == "func-default":
        base = fname
        ctx = "%s(%s)" % (fname, hs)
        lines, ex = exc_name(lambda: list(func(h)))
    else:
        base = "ToCSV.hist%dd" % dim
        if via == "ToCSV":
            el, val = ToCSV(separator=sep, header=header, duplicate_last_bin=dup), h
            ctx = "ToCSV(separator=%r, header=%r, duplicate_last_bin=%r).run([%s])" % (sep, header, dup, hs)
        elif via == "ToCSV-default":
            el, val = ToCSV(), (h, {})
            ctx = "ToCSV().run([(%s, {})])" % hs
        elif via == "ToCSV-ctx":
            el = ToCSV(separator=sep, header=header, duplicate_last_bin=not dup)
            val = (h, {"output": {"duplicate_last_bin": dup}})
            ctx = "ToCSV(separator=%r, header=%r, duplicate_last_bin=%r).run([(%s, {output: {duplicate_last_bin: %r}})])" % (
                sep, header, not dup, hs, dup)
        else:
            el, val = ToCSV(separator=sep, header=header, duplicate_last_bin=dup, row_end=";;", last_row_end="!"), h
            ctx = "ToCSV(separator=%r, header=%r, duplicate_last_bin=%r, row_end=';;', last_row_end='!').run([%s])" % (
                sep, header, dup, hs)
        out, ex = exc_name(lambda: list(el.run([val])))
        lines = None
        if not ex:
            if not (len(out) == 1 and isinstance(out[0], tuple) and len(out[0]) == 2 and isinstance(out[0][0], str)
                    and isinstance(out[0][1], dict)):
                v.append((base + "/not-one-text", "%s yields %r" % (ctx, out)))
                return v
            text = out[0][0]
            if via == "ToCSV-rowend":
                if not text.endswith("!"):
                    v.append((base + "/row_end", "%s: text %r does not end with last_row_end" % (ctx, text)))
                    return v
                lines = text[:-1].split(";;\n")
            else:
                lines = text.split("\n")
    if ex:
        v.append((base + "/raised", "%s raised %s" % (ctx, ex)))
        return v
    hist_unscaled(v, base + "/histogram-modified", h, before, ctx)
    if header:
        if not lines or lines[0] != header:
            v.append((base + "/header", "%s: first line %r, expected the header" % (ctx, lines[:1])))
            return v
        lines = lines[1:]
    exp = csv_rows_ref(edges_md, bins, dup)
    if len(lines) != len(exp):
        ncell = sum(1 for r in exp if r[0] == "cell")
        if dup:
            fid = "/duplicate-rows-missing" if len(lines) == ncell else "/row-count-with-duplicates"
        else:
            fid = "/unrequested-duplicate-rows" if len(lines) == len(csv_rows_ref(edges_md, bins, True)) else "/cell-row-count"
        v.append((base + fid, "%s: %d rows %r, expected %d (%d cells%s)" % (
            ctx, len(lines), lines, len(exp), ncell, " + duplicated last edge" if dup else "")))
        return v
    for line, (kind, ed, c) in zip(lines, exp):
        fields = line.split(sep) if isinstance(line, str) else []
        vals, ex = exc_name(lambda: [float(x) for x in fields])
        if ex or len(fields) != dim + 1:
            v.append((base + "/row-format", "%s: row %r does not parse into %d numbers" % (ctx, line, dim + 1)))
            break
        if not all(printed_close(x, t) for x, t in zip(vals[:dim], ed)):
            v.append((base + "/%s-row-edge" % kind, "%s: row %r, expected edges %r (rows %r)" % (ctx, line, ed, lines)))
            break
        if not printed_close(vals[dim], c):
            v.append((base + "/%s-row-content" % kind, "%s: row %r, expected content %r (rows %r)" % (ctx, line, c, lines)))
            break
    return v


def chk_tocsv_flow(edges1, bins1, edges2, bins2, edges3, bins3):
    """a flow of a 1-d histogram, a skipped one (output.to_csv False), a 3-d one (passed on unchanged), a string,
    a number, a 2-d histogram and a graph: one output per input, in order, everything not converted is the same object"""
    v = []
    h1, h2, h3 = mk_hist(edges1, bins1), mk_hist(edges2, bins2), mk_hist(edges3, bins3)
    g = hist_to_graph(mk_hist(edges1, bins1), field_names=("x", "y"))
    skipped = (mk_hist(edges1, bins1), {"output": {"to_csv": False}})
    flow = [h1, skipped, (h3, {"a": 1}), "text", 5, (h2, {"b": 2}), (g, {})]
    ctx = "ToCSV().run(%r)" % (flow,)
    out, ex = exc_name(lambda: list(ToCSV(duplicate_last_bin=False).run(iter(flow))))
    if ex or len(out) != len(flow):
        v.append(("ToCSV/flow-length", "%s: %r" % (ctx, ex or out)))
        return v
    if out[1] is not skipped:
        v.append(("ToCSV/to_csv-false-not-passed-on", "%s: second output %r" % (ctx, out[1])))
    if out[2] is not flow[2]:
        v.append(("ToCSV/3d-histogram-not-passed-on", "%s: third output %r" % (ctx, out[2])))
    if out[3] != "text" or out[4] != 5:
        v.append(("ToCSV/foreign-value-changed", "%s: outputs %r" % (ctx, out[3:5])))

    def rows(o):
        return [tuple(float(x) for x in line.split(",")) for line in o[0].split("\n")]

    for k, (em, b) in ((0, (edges1, bins1)), (5, (edges2, bins2))):
        got, ex = exc_name(lambda: rows(out[k]))
        exp = [tuple(ed) + (c,) for _, ed, c in csv_rows_ref(em, b, False)]
        if ex or len(got) != len(exp) or not all(len(r) == len(e) and all(printed_close(x, t) for x, t in zip(r, e))
                                                 for r, e in zip(got, exp)):
            v.append(("ToCSV/flow-order", "%s: output %d is %r, expected rows %r" % (ctx, k, out[k], exp)))
    got, ex = exc_name(lambda: rows(out[6]))
    exp = [(ed[0], c) for _, ed, c in csv_rows_ref(edges1, bins1, False)]
    if ex or got != [tuple(float(x) for x in r) for r in exp]:
        v.append(("ToCSV.graph/rows", "%s: graph output %r, expected rows %r" % (ctx, out[6], exp)))
    if isinstance(out[5], tuple) and isinstance(out[5][1], dict) and out[5][1].get("b") != 2:
        v.append(("ToCSV/context-lost", "%s: context of the 2-d histogram became %r" % (ctx, out[5][1])))
    return v


# --------------------------------------------------------------------------- scale_to / GroupScale / ScaleTo
def _sel(k):
    return lambda val: lena.flow.get_context(val).get("k") == k


def chk_scale_to(items, target, via, allow, alias=None):
    """items: ['h', edges_md, bins, n_out_of_range, 'fresh'|'cached'] or ['g', names, coords, scale];
    target: ['num', s] | ['sel', k] (callable selecting item k) | ['str', k] (context string selecting item k);
    via: 'scale_to' | 'GroupScale' | 'ScaleTo' (only 'num'; applied to each value, odd items without context);
    alias: per item None, a sharing inside the item (see share_hist_lists / share_columns), or how it shares lists with
    an earlier item j that holds the same values: ['same', j] the very same structure object a second time,
    ['bins', j] another histogram object over the bins and edges lists of histogram j, ['cols', j] another graph (with a
    coords list of its own) over the column lists of graph j"""
    v = []
    objs, info = [], []
    for k, it in enumerate(items):
        al = alias[k] if alias else None
        link = al if isinstance(al, list) and al and isinstance(al[0], str) else None
        if link:
            if repr(items[link[1]][:4]) != repr(it[:4]) or link[1] >= k:
                raise ValueError("alias %r links unequal items" % (alias,))
            if link[0] == "same":
                objs.append(objs[link[1]])
                info.append(info[link[1]])
                continue
        if it[0] == "h":
            if link:
                h = mk_twin(objs[link[1]], it[3])
            else:
                h = mk_hist(it[1], it[2], it[3], al)
            cells = ref_cells(it[1], it[2])
            I, mag = ref_integral(cells)
            if it[4] == "cached":
                exc_name(lambda: h.scale())
            objs.append(h)
            info.append((I if I != 0 else None, cells))
        else:
            if link:
                cols = list(objs[link[1]].coords)
            else:
                cols = copy.deepcopy(it[2])
                if al:
                    share_columns(cols, al)
            g, ex = exc_name(lambda: graph(cols, field_names=tuple(it[1]), scale=it[3]))
            if ex:
                return [("graph/valid-naming-rejected", "graph(%r, field_names=%r, scale=%r) raised %s" % (it[2], tuple(it[1]), it[3], ex))]
            objs.append(g)
            info.append((Fraction(it[3]) if it[3] else None, None))
    if target[0] == "num":
        s, sarg = target[1], target[1]
    else:
        s = info[target[1]][0]
        sarg = _sel(target[1]) if target[0] == "sel" else "name.item%d" % target[1]
    group = [(o, {"k": k, "name": "item%d" % k}) for k, o in enumerate(objs)]
    snaps = [snap(o) if isinstance(o, histogram) else repr((o.coords, o.scale())) for o in objs]
    ctx = "%s(%r, %r%s)" % (via, target, items, ", allow_zero_scale=True" if allow else "")
    bad = [k for k, (sc, _) in enumerate(info) if sc is None]
    if via == "ScaleTo":
        exs = []
        for k, val in enumerate(group):
            arg = val if k % 2 == 0 else val[0]
            r, ex = exc_name(lambda: ScaleTo(sarg)(arg))
            exs.append(ex)
            if k in bad:
                if ex != "LenaValueError":
                    v.append(("ScaleTo/zero-or-unknown-scale-not-LenaValueError", "%s: item %d %s" % (
                        ctx, k, "raised " + ex if ex else "did not raise")))
            elif ex:
                v.append(("ScaleTo/raised", "%s: item %d raised %s" % (ctx, k, ex)))
            elif not (isinstance(r, tuple) and len(r) == 2 and r[0] is val[0] and r[1] == (val[1] if k % 2 == 0 else {})):
                v.append(("ScaleTo/result-not-data-context", "%s: item %d returned %r" % (ctx, k, r)))
        done = [k for k in range(len(objs)) if k not in bad and not exs[k]]
    else:
        if via == "scale_to":
            r, ex = exc_name(lambda: real_scale_to(sarg, group, allow_zero_scale=allow) if allow else real_scale_to(sarg, group))
        else:
            r, ex = exc_name(lambda: GroupScale(sarg, allow_zero_scale=allow)(group))
        if bad and not allow:
            if ex != "LenaValueError":
                v.append((via + "/zero-or-unknown-scale-not-LenaValueError", "%s: items %r have zero or unknown scale, %s" % (
                    ctx, bad, "raised " + ex if ex else "did not raise")))
            return v
        if ex:
            v.append((via + "/raised", "%s raised %s" % (ctx, ex)))
            return v
        if via == "GroupScale" and r is not group:
            v.append(("GroupScale/result-not-the-group", "%s returned %r" % (ctx, r)))
        done = [k for k in range(len(objs)) if k not in bad]
        for k in bad:
            o = objs[k]
            now = snap(o) if isinstance(o, histogram) else repr((o.coords, o.scale()))
            if now != snaps[k]:
                v.append((via + "/unscalable-item-changed", "%s: item %d became %s" % (ctx, k, now)))
    for k in done:
        o, (sc, cells), it = objs[k], info[k], items[k]
        f = Fraction(s) / sc
        if it[0] == "h":
            if hist_scaled(v, via + "/histogram", o, it[1], cells, it[3], f, "%s: item %d" % (ctx, k)):
                got, ex = exc_name(lambda: o.scale(recompute=True))
                if ex or not close(got, s, ref_integral(cells)[1] * abs(f)):
                    v.append((via + "/histogram-scale-differs", "%s: item %d has recomputed scale %r, expected %s" % (
                        ctx, k, ex or got, float(s))))
        else:
            dim, owner = parse_names_ref(tuple(it[1]))
            for i, col in enumerate(it[2]):
                if i == dim - 1 or owner.get(i) == it[1][dim - 1]:
                    okc = len(o.coords[i]) == len(col) and all(close(x, Fraction(c) * f) for x, c in zip(o.coords[i], col))
                else:
                    okc = repr(list(o.coords[i])) == repr(col)
                if not okc:
                    v.append((via + "/graph", "%s: item %d column %r became %r" % (ctx, k, it[1][i], o.coords[i])))
                    break
            if not close(o.scale(), s):
                v.append((via + "/graph-scale-differs", "%s: item %d has scale %r, expected %s" % (ctx, k, o.scale(), float(s))))
    return v


# ------------------------------------------------------------------------------------------- shared list objects
def chk_shared(fn, alias, *args):
    """The check *fn* on structures in which one list object occurs in several places (*alias*: rows of the bins, axes of
    the edges, columns of a graph, lists of two structures of a group).  The arguments hold EQUAL values in the joined
    places, so the reference is the one of the same arguments built from separate lists, which is checked too:
    what already fails with separate (equal-valued) lists is reported under the ordinary fid, what fails only because
    the lists are shared under '<function>/shared-lists/<clause>'."""
    plain = CHECKS[fn](*args)
    got = CHECKS[fn](*args, alias=alias)
    known = set(f for f, _ in plain)
    out = list(plain)
    for f, m in got:
        if f not in known:
            head, _, tail = f.partition("/")
            out.append((head + "/shared-lists" + ("/" + tail if tail else ""),
                        "%s [one list object in several places: %r; passes when built from separate equal lists]" % (m, alias)))
    return out


CHECKS = {"scale": chk_scale, "add": chk_add, "add_unequal": chk_add_unequal, "add_tol": chk_add_tol, "nevents": chk_nevents,
          "graph_scale": chk_graph_scale, "h2g": chk_h2g, "iter": chk_iter, "iter_ranges": chk_iter_ranges,
          "iter_coord": chk_iter_coord, "csv": chk_csv, "tocsv_flow": chk_tocsv_flow, "scale_to": chk_scale_to,
          "shared": chk_shared}


def make_replayer(fn):
    def rp(fid, *args):
        try:
            with watchdog(30):
                return any(f == fid for f, _ in CHECKS[fn](*args))
        except Timeout:
            return fid.endswith("/non-termination")
    return rp


def run_case(R, fn, args, nontrivial=True):
    sample = {"check": fn, "args": args} if R.cur["cases"] < 2 else None
    try:
        try:
            with watchdog(5):
                viols = CHECKS[fn](*args)
        except Timeout:
            # a stalled machine is not a hang: only a second, longer attempt counts
            with watchdog(30):
                viols = CHECKS[fn](*args)
    except Timeout:
        viols = [(fn + "/non-termination", "no result within 5 s and again within 30 s")]
    except Exception as e:
        viols = [(fn + "/harness-exception-" + type(e).__name__, traceback.format_exc()[-300:])]
    R.case(nontrivial, sample)
    for fid, msg in viols:
        R.fail(fid, msg[:700], {"check": fn, "args": args}, {"fn": fn, "args": [fid] + list(args)})
    return viols


# ------------------------------------------------------------------------------------------------ generators
AX = [[0, 1, 3, 6, 10], [-2, -1.5, -1.25, 2.75, 3.75], [10, 18, 34, 66, 70]]


def shapes(maxbins, dims=(1, 2, 3)):
    for dim in dims:
        for shp in itertools.product(range(1, maxbins + 1), repeat=dim):
            yield list(shp)


def ex_edges(shape):
    return [AX[d][:n + 1] for d, n in enumerate(shape)]


def build(shape, f):
    cnt = [0]

    def rec(d):
        if d == len(shape) - 1:
            out = []
            for _ in range(shape[d]):
                out.append(f(cnt[0]))
                cnt[0] += 1
            return out
        return [rec(d + 1) for _ in range(shape[d])]

    return rec(0)


PATTERNS = ("int", "float", "mixed", "zero", "cancel")


def pattern(name, shape):
    """tagged contents: every cell differs, so that a cell taken from the wrong place is visible"""
    if name == "int":
        return build(shape, lambda k: k + 1)
    if name == "float":
        return build(shape, lambda k: 0.5 + 0.25 * (k + 1))
    if name == "mixed":
        return build(shape, lambda k: 0 if k % 3 == 1 else (k + 2) * (-0.5 if k % 2 else 1))
    if name == "zero":
        return build(shape, lambda k: 0)
    # cancel: the integral vanishes although the contents do not
    em = ex_edges(shape)
    cells = ref_cells(em, build(shape, lambda k: k))
    if len(cells) < 2:
        return build(shape, lambda k: 0.0)
    v0, v1 = vol(cells[0][2]), vol(cells[1][2])
    return build(shape, lambda k: float(v1) if k == 0 else (-float(v0) if k == 1 else 0))


def rand_edges_1(rng, kind, maxbins=4):
    n = rng.randint(1, maxbins)
    if kind == "int":
        return sorted(rng.sample(range(-8, 12), n + 1))
    if kind == "dyadic":
        x = rng.choice([-3, -0.75, 0, 2, 100])
        out = [x]
        for _ in range(n):
            x = x + rng.choice([0.25, 0.5, 1, 1.5, 2, 4])
            out.append(x)
        return out
    x = rng.uniform(-10, 10)
    out = [x]
    for _ in range(n):
        x = x + rng.uniform(0.01, 5)
        out.append(x)
    return out


def rand_content(rng, kind):
    if kind == "int":
        return rng.randint(-3, 9)
    if kind == "dyadic":
        return rng.choice([-1.5, -0.25, 0, 0.5, 0.75, 2, 3.25, 10, 1, 0.0])
    return rng.uniform(-5, 20) * rng.choice([1e-3, 1, 1, 1e4])


def rand_hist(rng, dims=(1, 2, 3), maxbins=4):
    """(edges_md, bins, n_out_of_range, exact) - exact when all arithmetic on it is exact in floats"""
    dim = rng.choice(dims)
    ek = rng.choice(["int", "dyadic", "float"])
    ck = rng.choice(["int", "dyadic", "float", "int", "dyadic"])
    edges_md = [rand_edges_1(rng, ek, maxbins) for _ in range(dim)]
    bins = build([len(e) - 1 for e in edges_md], lambda k: rand_content(rng, ck))
    noor = rng.choice([0, 0, 1, 3, 2.5]) if ck != "float" else rng.choice([0, rng.uniform(0, 9)])
    return edges_md, bins, noor, (ek != "float" and ck != "float")


def rand_scale(rng):
    if rng.random() < 0.6:
        return rng.choice([1, 2, -3, 0.5, 10, 7.25, -0.125, 1000, 0.001, 3, -1])
    return rng.uniform(0.1, 50) * rng.choice([1, -1])


def well_conditioned(edges_md, bins):
    I, mag = ref_integral(ref_cells(edges_md, bins))
    return mag == 0 or abs(I) >= mag / 10 ** 6


COORD_TUPLES = [("x",), ("x", "y"), ("x", "y", "z"), ("y", "x"), ("E", "time"), ("x", "xy"), ("xy", "x"), ("x_a", "x"),
                ("a", "b", "ab"), ("z", "y", "x"), ("x", "error"), ("time", "E_kin", "n")]


def valid_namings():
    """every valid naming with 1..3 coordinates (from COORD_TUPLES) and 0..3 error fields: all ordered selections of
    distinct fields error_<c>, error_<c>_low, error_<c>_high that the reference reading accepts"""
    for ct in COORD_TUPLES:
        cands = []
        for c in ct:
            cands += ["error_" + c, "error_" + c + "_low", "error_" + c + "_high"]
        for ne in range(0, 4):
            for errs in itertools.permutations(cands, ne):
                names = ct + errs
                if parse_names_ref(names) is not None:
                    yield list(names)


def graph_coords(ncols, npts, flavour):
    """tagged columns: column c, point p -> a value that names both"""
    if flavour == "int":
        return [[10 * (c + 1) + p for p in range(npts)] for c in range(ncols)]
    return [[(c + 1) * 1.5 - p * 0.25 if (c + p) % 3 else -(c + 2) * (p + 1) for p in range(npts)] for c in range(ncols)]


def hist_sharings(shape):
    """the ways one list object occurs in several places of a histogram of this shape: two rows bins[i], bins[j]; all
    rows one list; (3 dimensions) two inner rows bins[i][j], bins[k][l]; all inner rows one list; all inner rows and all
    planes one list each (the [[[0]*n]*m]*k pattern); two axes with equally many bins sharing their edges list, alone and
    together with the first sharing of bins"""
    dim, out = len(shape), []
    if dim >= 2:
        rows = list(range(shape[0]))
        for i, j in itertools.combinations(rows, 2):
            out.append({"bins": [[[i], [j]]]})
        if len(rows) >= 3:
            out.append({"bins": [[[0], [j]] for j in rows[1:]]})
    if dim == 3:
        inner = [[i, j] for i in range(shape[0]) for j in range(shape[1])]
        for a, b in itertools.combinations(inner, 2):
            out.append({"bins": [[a, b]]})
        if len(inner) >= 3:
            out.append({"bins": [[inner[0], b] for b in inner[1:]]})
        if shape[0] >= 2 and shape[1] >= 2:
            out.append({"bins": [[[0, 0], [0, j]] for j in range(1, shape[1])] + [[[0], [i]] for i in range(1, shape[0])]})
    first = out[0] if out else None
    for d, e in itertools.combinations(range(dim), 2):
        if shape[d] == shape[e]:
            out.append({"edges": [[d, e]]})
            if first:
                out.append({"bins": first["bins"], "edges": [[d, e]]})
    return out


def column_sharings(ncols, every_partition):
    """alias vectors for a graph with ncols columns: every pair of columns one list, all columns one list; with
    every_partition every partition of the columns into groups sharing one list"""
    out = []
    if every_partition:
        def rec(vec):
            if len(vec) == ncols:
                if vec != list(range(ncols)):
                    out.append(list(vec))
                return
            i = len(vec)
            for c in sorted(set(vec)) + [i]:
                rec(vec + [c])
        rec([])
        return out
    for i, j in itertools.combinations(range(ncols), 2):
        vec = list(range(ncols))
        vec[j] = i
        out.append(vec)
    if ncols >= 3:
        out.append([0] * ncols)
    return out


def equal_columns(coords, alias):
    return [list(coords[c]) for c in alias]


# ------------------------------------------------------------------------------------------------------ body
def body(R):
    rng = R.rng
    T = R.thorough
    maxb = 4 if T else 3

    # ---- histogram.scale / integral
    svals = [(1, 2), (2, -3), (-3, 0.5), (0.5, 10), (10, 7.25), (7.25, 1)] if T else [(2, -3), (0.5, 7.25), (-3, 1)]
    R.scope("histogram.scale / integral (exhaustive shapes)",
            "all %d shapes with 1..%d bins per axis in 1..3 dimensions (non-uniform dyadic edges), 5 tagged content patterns "
            "(ints, floats, mixed sign with zeros, all zero, cancelling to scale 0), n_out_of_range in {0, 3, 1.5}, "
            "%d (target, second target) pairs, scale computed before or not" % (len(list(shapes(maxb))), maxb, len(svals)), True)
    for shp in shapes(maxb):
        em = ex_edges(shp)
        for pn in PATTERNS:
            bins = pattern(pn, shp)
            for noor in (0, 3, 1.5):
                for s, s2 in svals:
                    for pre in ("fresh", "cached"):
                        run_case(R, "scale", [em, bins, noor, s, s2, pre])
    n = 25000 if T else 1500
    R.scope("histogram.scale / integral (random)",
            "%d random histograms: 1..3 dimensions, 1..4 bins per axis, integer / dyadic / arbitrary float edges and "
            "contents (magnitudes 1e-3..1e5), random non-zero targets in +-[1e-3, 1e3]; ill-conditioned float integrals "
            "(|integral| < 1e-6 * sum |terms|) are skipped" % n, False)
    for _ in range(n):
        em, bins, noor, exact = rand_hist(rng)
        args = [em, bins, noor, rand_scale(rng), rand_scale(rng), rng.choice(["fresh", "cached"])]
        if not exact and not well_conditioned(em, bins):
            R.case(False)
            continue
        run_case(R, "scale", args)

    # ---- histogram.add
    wvals = [1, 2, -1, 0.5, -2.5] if T else [1, -1, 0.5]
    pairs = [(a, b) for a in ("int", "float", "mixed") for b in ("int", "float", "mixed")] if T else [
        ("int", "float"), ("mixed", "int"), ("float", "mixed")]
    R.scope("histogram.add (equal edges, exhaustive shapes)",
            "all shapes with 1..%d bins per axis in 1..3 dimensions, %d pairs of tagged content patterns, weights %r "
            "(1 also through the default argument and weight=), a.add(a, w); operands compared before/after, also after "
            "the result was filled and rescaled" % (maxb, len(pairs), wvals), True)
    for shp in shapes(maxb):
        em = ex_edges(shp)
        for pa, pb in pairs:
            ba, bb = pattern(pa, shp), pattern(pb, shp)
            for w in wvals:
                modes = ["pos", "kw", "self"] + (["default"] if w == 1 else [])
                for mode in modes:
                    run_case(R, "add", [em, ba, 2, bb, 1.5, w, mode])
    n = 12000 if T else 800
    R.scope("histogram.add (equal edges, random)", "%d random pairs of histograms on the same random edges (1..3 dimensions, "
            "1..4 bins per axis), random non-zero weights" % n, False)
    for _ in range(n):
        em, ba, na, _ = rand_hist(rng)
        bb = build([len(e) - 1 for e in em], lambda k: rand_content(rng, rng.choice(["int", "dyadic", "float"])))
        w = rand_scale(rng)
        run_case(R, "add", [em, ba, na, bb, rng.choice([0, 1, 2.5]), w, rng.choice(["pos", "kw", "self"])])
    R.scope("histogram.add (unequal edges, exhaustive)",
            "all shapes with 1..2 bins per axis in 1..3 dimensions; on each axis the other histogram's edges are: one edge "
            "moved, all scaled by 1.001, extended by one edge, shortened by one edge, extended and moved; also one more / "
            "one less axis; weights {1, 2}: add must refuse", True)
    for shp in shapes(2):
        em = ex_edges(shp)
        variants = []
        for d, e in enumerate(em):
            alts = [e[:-1] + [e[-1] + 0.5], [x * 1.001 + 0.001 for x in e], e + [e[-1] + 1], e + [e[-1] + 1, e[-1] + 3],
                    [e[0] - 0.25] + e[1:] + [e[-1] + 2]]
            if len(e) > 2:
                alts.append(e[:-1])
                alts.append(e[1:])
            for alt in alts:
                variants.append(em[:d] + [alt] + em[d + 1:])
        variants.append(em + [[0, 1]])
        variants.append(em + [[0, 1, 2]])
        if len(em) > 1:
            variants.append(em[:-1])
        for other in variants:
            for w in (1, 2):
                run_case(R, "add_unequal", [em, other, w])
                run_case(R, "add_unequal", [other, em, w])
    n = 6000 if T else 500
    R.scope("histogram.add (unequal edges, random)", "%d random pairs of different edges of the same dimension (independent "
            "draws, or one axis cut / extended / perturbed by >= 1e-3)" % n, False)
    for _ in range(n):
        em, _, _, _ = rand_hist(rng)
        other = copy.deepcopy(em)
        d = rng.randrange(len(em))
        how = rng.choice(["new", "extend", "cut", "perturb"])
        if how == "new":
            other[d] = rand_edges_1(rng, "float")
        elif how == "extend":
            other[d] = other[d] + [other[d][-1] + rng.choice([0.5, 1, 3])]
        elif how == "cut" and len(other[d]) > 2:
            other[d] = other[d][:-1]
        else:
            k = rng.randrange(len(other[d]))
            other[d] = [x + (0.001 * (1 + abs(x)) if i >= k else 0) for i, x in enumerate(other[d])]
        if other == em:
            R.case(False)
            continue
        run_case(R, "add_unequal", [em, other, rng.choice([1, 2, -0.5])] if rng.random() < 0.5 else [other, em, rng.choice([1, 3])])

    R.scope("histogram.add: edges compared with the documented tolerances at every magnitude",
            "1- and 2-dimensional edges at magnitudes 1e-10, 1e-3, 1, 1e6; the other histogram's edges equal, moved by a "
            "relative 1e-12 (equal by default), by 25% of a bin (different by default); explicit edges_abs_tol / "
            "edges_rel_tol (by keyword and positionally) that make the 25% shift acceptable or the 1e-12 shift not; "
            "decision compared with element-wise math.isclose", True)
    base1 = [0.0, 1.0, 2.0, 4.0]
    for mag in (1e-10, 1e-3, 1.0, 1e6):
        for dim in (1, 2):
            em = [[x * mag for x in base1]] if dim == 1 else [[0.0, 1.0, 2.0], [x * mag for x in base1]]
            for shift in (0.0, 1e-12, 0.25):
                other = copy.deepcopy(em)
                other[-1] = [x + (shift * mag if i in (1, 2) else 0.0) for i, x in enumerate(em[-1])]
                tolsets = [{}, {"abs": 0.5 * mag}, {"abs": 0.5 * mag, "rel": 0.0}, {"rel": 0.5}, {"abs": 0.0, "rel": 0.5},
                           {"abs": 0.0, "rel": 0.0}, {"abs": 1e-14 * mag, "rel": 1e-15}, {"abs": 0.1 * mag, "rel": 1e-15}]
                for tols in tolsets:
                    for style in ("kw", "pos"):
                        run_case(R, "add_tol", [em, other, tols, style])
                        run_case(R, "add_tol", [other, em, tols, style])

    # ---- get_nevents / set_nevents
    nvals = [1, 10, 2.5, -4, 0.001, 3] if T else [10, -2.5]
    R.scope("get_nevents / set_nevents (exhaustive shapes)",
            "all shapes with 1..%d bins per axis in 1..3 dimensions, 5 tagged content patterns, n_out_of_range in "
            "{0, 3, 1.5, -(sum of cells) i.e. zero events with out-of-range included}, n in %r, include_out_of_range "
            "False/True by keyword, positionally and by default" % (maxb, nvals), True)
    for shp in shapes(maxb):
        em = ex_edges(shp)
        for pn in PATTERNS:
            bins = pattern(pn, shp)
            tot = sum(flat(bins))
            for noor in (0, 3, 1.5, -tot):
                for nv in nvals:
                    for inc, style in ((False, "default"), (False, "kw"), (True, "kw"), (True, "pos")):
                        run_case(R, "nevents", [em, bins, noor, nv, inc, style])
    n = 15000 if T else 1000
    R.scope("get_nevents / set_nevents (random)", "%d random histograms as for scale, random non-zero n; float sums with "
            "cancellation below 1e-6 of the magnitudes are skipped" % n, False)
    for _ in range(n):
        em, bins, noor, exact = rand_hist(rng)
        inc = rng.random() < 0.5
        fl = [Fraction(x) for x in flat(bins)]
        tot = sum(fl) + (Fraction(noor) if inc else 0)
        if not exact and abs(tot) * 10 ** 6 < sum(abs(x) for x in fl) + abs(Fraction(noor)):
            R.case(False)
            continue
        run_case(R, "nevents", [em, bins, noor, rand_scale(rng), inc, rng.choice(["kw", "pos"]) if inc else rng.choice(["default", "kw"])])

    # ---- graph.scale
    namings = list(valid_namings())
    spairs = [(2, 5, -1), (0.5, -3, 4), (-4, 1, 0.25), (3, 7.5, 2)] if T else [(2, 5, -1), (-4, 0.5, 3)]
    npts = (0, 1, 3) if T else (2,)
    R.scope("graph.scale (every valid naming)",
            "all %d valid namings: %d coordinate tuples of 1..3 names (some a prefix of another, 'error' as a name), every "
            "ordered selection of 0..3 distinct error fields error_c / error_c_low / error_c_high accepted by the reference "
            "reading; %r points, int and float tagged columns (quick tier: alternating), (scale, target, second target) in %r; field names as tuple, "
            "and as comma / space separated string; plus scale None / 0 / 0.0 for every naming" % (
                len(namings), len(COORD_TUPLES), npts, spairs), True)
    for k, names in enumerate(namings):
        for npt in npts:
            for fl in (("int", "float") if T else (("int", "float")[k % 2],)):
                coords = graph_coords(len(names), npt, fl)
                for sc, s, s2 in spairs:
                    run_case(R, "graph_scale", [names, coords, sc, s, s2, "tuple"])
        coords = graph_coords(len(names), 2, "float")
        run_case(R, "graph_scale", [names, coords, 2, 3, 0.5, ("comma", "space")[k % 2]])
        for sc in (None, 0, 0.0):
            run_case(R, "graph_scale", [names, coords, sc, 3, 2, "tuple"])
    n = 6000 if T else 500
    R.scope("graph.scale (random)", "%d random graphs: random valid naming, 0..5 points, random int/float columns, random "
            "non-zero scale and targets" % n, False)
    for _ in range(n):
        names = rng.choice(namings)
        npt = rng.randint(0, 5)
        coords = [[rand_content(rng, rng.choice(["int", "dyadic", "float"])) for _ in range(npt)] for _ in names]
        run_case(R, "graph_scale", [names, coords, rand_scale(rng), rand_scale(rng), rand_scale(rng), "tuple"])

    # ---- hist_to_graph
    R.scope("hist_to_graph (exhaustive shapes)",
            "all shapes with 1..%d bins per axis in 1..3 dimensions, tagged int and mixed float contents, get_coordinate in "
            "{left, right, middle} (+ one invalid value), scale in {None, True, 7}, with and without make_value returning "
            "(value, error), field names as tuple and as string" % maxb, True)
    for shp in shapes(maxb):
        em = ex_edges(shp)
        for pn in ("int", "mixed"):
            bins = pattern(pn, shp)
            for mode in ("left", "right", "middle"):
                for sa in (None, True, 7):
                    for mk in (False, True):
                        run_case(R, "h2g", [em, bins, mode, sa, mk, "tuple" if sa is not True else "str"])
            run_case(R, "h2g", [em, bins, "center", None, False, "tuple"])
    n = 8000 if T else 600
    R.scope("hist_to_graph (random)", "%d random histograms as for scale (1..3 dimensions, 1..4 bins per axis), random mode" % n, False)
    for _ in range(n):
        em, bins, _, _ = rand_hist(rng)
        run_case(R, "h2g", [em, bins, rng.choice(["left", "right", "middle"]), rng.choice([None, True, 2.5]),
                            rng.random() < 0.3, "tuple"])

    # ---- iterators
    R.scope("iter_bins / iter_bins_with_edges / iter_cells (whole histogram)",
            "all shapes with 1..%d bins per axis in 1..3 dimensions, 3 tagged content patterns; each iterator against the "
            "cells enumerated by explicit indexing (content with its type, index, edges; count and order); "
            "iter_bins_with_edges with the histogram's own and with list-of-lists edges; iter_cells without ranges and with "
            "((None, None),)*dim" % maxb, True)
    for shp in shapes(maxb):
        em = ex_edges(shp)
        for pn in ("int", "float", "mixed"):
            run_case(R, "iter", [em, pattern(pn, shp)])
    n = 4000 if T else 400
    R.scope("iter_bins / iter_bins_with_edges / iter_cells (random)", "%d random histograms (1..3 dimensions, 1..4 bins per axis)" % n, False)
    for _ in range(n):
        em, bins, _, _ = rand_hist(rng)
        run_case(R, "iter", [em, bins])
    rdims = (1, 2, 3) if T else (1, 2)
    R.scope("iter_cells index ranges (exhaustive)",
            "dimensions %r: all shapes with 1..%d bins per axis (3 dimensions: 1..2 bins), on every axis all (low, up) with "
            "low in {None, -1, 0..n} and up in {None, 0..n+1}: LenaValueError iff low < 0 or up > n, otherwise exactly the "
            "cells with low <= i < up in order" % (rdims, maxb), True)
    for dim in rdims:
        for shp in shapes(maxb if dim < 3 else 2, (dim,)):
            em = ex_edges(shp)
            bins = pattern("int", shp)
            per_axis = [[(lo, up) for lo in [None, -1] + list(range(nb + 1)) for up in [None] + list(range(nb + 2))]
                        for nb in shp]
            for ranges in itertools.product(*per_axis):
                run_case(R, "iter_ranges", [em, bins, [list(r) for r in ranges]])
    n = 10000 if T else 1500
    R.scope("iter_cells index ranges (random, incl. 3 dimensions)", "%d random histograms (1..3 dimensions, 1..4 bins per axis) "
            "with random (low, up) per axis from {None, -1..n+1}" % n, False)
    for _ in range(n):
        em, bins, _, _ = rand_hist(rng)
        ranges = []
        for e in em:
            nb = len(e) - 1
            if rng.random() < 0.85:
                ranges.append([rng.choice([None] + list(range(nb + 1))), rng.choice([None] + list(range(nb + 1)))])
            else:
                ranges.append([rng.choice([None, -1, 0, nb]), rng.choice([None, 0, nb, nb + 1])])
        run_case(R, "iter_ranges", [em, bins, ranges])
    n = 5000 if T else 600
    R.scope("iter_cells coord_ranges (random)", "%d random histograms with integer edges (1..3 dimensions, 1..4 bins per "
            "axis); per axis a range whose ends are bin middles or lie outside the edges (never on an edge), low < high" % n, False)
    for _ in range(n):
        dim = rng.randint(1, 3)
        em = [rand_edges_1(rng, "int") for _ in range(dim)]
        bins = build([len(e) - 1 for e in em], lambda k: k + 1)
        cr = []
        for e in em:
            pts = [e[0] - 2.5, e[0] - 0.5] + [(a + b) / 2 for a, b in zip(e, e[1:])] + [e[-1] + 0.5, e[-1] + 2.5]
            i = rng.randrange(len(pts) - 1)
            j = rng.randrange(i + 1, len(pts))
            cr.append([pts[i], pts[j]])
        run_case(R, "iter_coord", [em, bins, cr])

    # ---- CSV
    csv_contents = {
        "int": lambda k: k + 1,
        "mixed": lambda k: 0 if k % 3 == 1 else (k + 2) * (-0.5 if k % 2 else 1),
        "float": lambda k: [0.1, -2.7182818, 123456.789012345, 1e-7, 3.0000004, -0.0000015, 1e15, 2.5][k % 8] * (1 + k // 8),
    }
    csv_edges = [AX[0], [-2.5, -1.25, 0.3333333333, 1e3, 1e6 + 0.5]]
    seps = [",", ";", "\t", " | "] if T else [",", ";"]
    R.scope("hist1d_to_csv / hist2d_to_csv / ToCSV (exhaustive shapes)",
            "1-dimensional histograms with 1..4 bins and 2-dimensional ones with 1..3 x 1..3 bins on 2 edge sets, 3 tagged "
            "content patterns (ints, mixed, floats from 1e-7 to 1e15), duplicate_last_bin True/False, separators %r, with / "
            "without header; through the functions (also with all defaults), ToCSV (also defaults, context "
            "output.duplicate_last_bin against the element's value, row_end / last_row_end); every row parsed back with "
            "float() within 0.5e-6" % (seps,), True)
    csv_shapes = [[n1] for n1 in range(1, 5)] + [[a, b] for a in range(1, 4) for b in range(1, 4)]
    for shp in csv_shapes:
        for es in (0, 1):
            em = [(csv_edges[es] if d == 0 else AX[1])[:nb + 1] for d, nb in enumerate(shp)]
            for cn in ("int", "mixed", "float"):
                bins = build(shp, csv_contents[cn])
                for dup in (True, False):
                    for sep in seps:
                        for header in (None, "a header"):
                            for via in ("func", "ToCSV", "ToCSV-ctx", "ToCSV-rowend"):
                                run_case(R, "csv", [em, bins, dup, sep, header, via])
                run_case(R, "csv", [em, bins, True, ",", None, "func-default"])
                run_case(R, "csv", [em, bins, True, ",", None, "ToCSV-default"])
    n = 8000 if T else 600
    R.scope("hist1d_to_csv / hist2d_to_csv / ToCSV (random)", "%d random 1- and 2-dimensional histograms (1..4 bins per axis, "
            "int / dyadic / float edges and contents), random options" % n, False)
    for _ in range(n):
        em, bins, _, _ = rand_hist(rng, dims=(1, 2))
        run_case(R, "csv", [em, bins, rng.random() < 0.5, rng.choice([",", ";", "\t"]), rng.choice([None, "h1,h2"]),
                            rng.choice(["func", "ToCSV", "ToCSV-ctx", "ToCSV-rowend"])])
    R.scope("ToCSV.run on a mixed flow", "all 1-d shapes 1..3 x 2-d shapes (1..2)^2 x one 3-d shape: histogram, skipped "
            "histogram (output.to_csv False), 3-d histogram, string, number, 2-d histogram with context, graph", True)
    for n1 in range(1, 4):
        for shp2 in shapes(2, (2,)):
            for pn in ("int", "mixed"):
                run_case(R, "tocsv_flow", [ex_edges([n1]), pattern(pn, [n1]), ex_edges(shp2), pattern(pn, shp2),
                                           ex_edges([1, 2, 1]), pattern(pn, [1, 2, 1])])

    # ---- scale_to / GroupScale / ScaleTo
    R.scope("scale_to / GroupScale / ScaleTo (exhaustive small groups)",
            "groups of 1..3 structures out of 7 kinds (1-/2-/3-d histogram fresh or with cached scale, histogram with zero "
            "scale, graphs with errors with known / zero / unknown scale); target a number in {3, -0.5} or the scale of a "
            "selected rescalable item (callable and context-string selectors); allow_zero_scale False/True; ScaleTo on every "
            "value with and without context", True)
    kinds = [
        ["h", ex_edges([3]), pattern("int", [3]), 2, "fresh"],
        ["h", ex_edges([2, 2]), pattern("mixed", [2, 2]), 1.5, "cached"],
        ["h", ex_edges([1, 2, 2]), pattern("float", [1, 2, 2]), 0, "fresh"],
        ["h", ex_edges([2]), pattern("cancel", [2]), 1, "fresh"],
        ["g", ["x", "y", "error_x", "error_y_low"], graph_coords(4, 3, "float"), 4],
        ["g", ["x", "y", "z", "error_z"], graph_coords(4, 2, "int"), 0],
        ["g", ["x", "y"], graph_coords(2, 2, "int"), None],
    ]
    scalable = {0, 1, 2, 4}
    for glen in (1, 2, 3):
        for combo in itertools.product(range(len(kinds)), repeat=glen):
            if glen == 3 and not T and (combo[0] + 2 * combo[1] + 3 * combo[2]) % 4:
                continue
            items = [kinds[k] for k in combo]
            targets = [["num", 3], ["num", -0.5]]
            sel = [i for i, k in enumerate(combo) if k in scalable]
            if sel:
                targets.append(["sel", sel[0]])
                targets.append(["str", sel[-1]])
            for target in targets:
                for via in ("scale_to", "GroupScale") + (("ScaleTo",) if target[0] == "num" else ()):
                    for allow in ((False, True) if via != "ScaleTo" else (False,)):
                        run_case(R, "scale_to", [items, target, via, allow])
    n = 3000 if T else 300
    R.scope("scale_to / GroupScale / ScaleTo (random)", "%d random groups of 1..4 random histograms (1..3 dimensions) and graphs "
            "(random valid naming), random numeric target or selected item" % n, False)
    for _ in range(n):
        items = []
        for _k in range(rng.randint(1, 4)):
            if rng.random() < 0.6:
                em, bins, noor, exact = rand_hist(rng)
                if not exact and not well_conditioned(em, bins):
                    continue
                items.append(["h", em, bins, noor, rng.choice(["fresh", "cached"])])
            else:
                names = rng.choice(namings)
                npt = rng.randint(0, 4)
                items.append(["g", names, [[rand_content(rng, "dyadic") for _ in range(npt)] for _ in names],
                              rng.choice([None, 0, 2, -1.5, 8, rand_scale(rng)])])
        if not items:
            R.case(False)
            continue
        ok = [i for i, it in enumerate(items) if (it[0] == "g" and it[3]) or
              (it[0] == "h" and ref_integral(ref_cells(it[1], it[2]))[0] != 0)]
        target = ["num", rand_scale(rng)] if not ok or rng.random() < 0.6 else [rng.choice(["sel", "str"]), rng.choice(ok)]
        via = rng.choice(["scale_to", "GroupScale", "ScaleTo"] if target[0] == "num" else ["scale_to", "GroupScale"])
        run_case(R, "scale_to", [items, target, via, via != "ScaleTo" and rng.random() < 0.5])

    shared_scopes(R, namings, kinds, scalable)


def shared_scopes(R, namings, kinds, scalable):
    """structures in which one list object occurs in several places (and, inside every case, the same values in
    separate lists): every operation must treat every cell / column once and leave everything else alone"""
    rng = R.rng
    T = R.thorough
    maxb = 4 if T else 3
    rot = itertools.count()

    def pick(seq):
        return seq[next(rot) % len(seq)]

    # ---- histograms
    svals = [(2, -3), (0.5, 7.25), (-3, 1), (10, 0.5)]
    nvals = [(10, False, "default"), (-2.5, True, "kw"), (3, True, "pos"), (0.5, False, "kw")]
    wmodes = [(1, "pos"), (2, "kw"), (-0.5, "pos"), (1, "default"), (1, "self"), (-2.5, "self")]
    h2gs = [("left", True, False), ("middle", True, True), ("right", 7, False), ("left", None, True)]
    csvs = [(True, ",", None, "func"), (False, ";", "a header", "ToCSV"), (True, ";", None, "ToCSV-ctx"),
            (False, ",", None, "func"), (True, ",", "a header", "ToCSV-rowend")]
    if T:
        hshapes = list(shapes(4, (2,))) + list(shapes(3, (3,))) + [[4, 1, 2], [1, 4, 1], [2, 2, 4], [4, 3, 1]]
    else:
        hshapes = list(shapes(3, (2,))) + list(shapes(2, (3,))) + [[3, 2, 1], [2, 3, 2], [1, 3, 3]]
    R.scope("histogram operations on shared lists",
            "%s; every sharing of one list object inside the histogram: "
            "any two rows bins[i] / bins[j], all rows, (3 dimensions) any two inner rows bins[i][j] / bins[k][l], all inner "
            "rows, all inner rows and all planes (the [[[0]*n]*m]*k pattern), two axes sharing one edges list (alone and "
            "with shared rows); tagged int / float contents%s; operations: scale (fresh and cached, two targets), set_nevents, "
            "add with the sharing in a, in b, in both, and with b a second histogram object over a's very lists (weights "
            "and call styles rotating, incl. a.add(a)), hist_to_graph, the three iterators, CSV (2 dimensions); options "
            "rotate with the case number; every case also runs on the same values in separate lists"
            % ("all 2-dimensional shapes with 1..4 bins per axis, all 3-dimensional ones with 1..3 bins per axis and 4x1x2, 1x4x1, "
               "2x2x4, 4x3x1" if T else "all 2-dimensional shapes with 1..3 bins per axis, all 3-dimensional ones with 1..2 bins "
               "per axis and 3x2x1, 2x3x2, 1x3x3", "" if T else " alternating"), True)
    for shp in hshapes:
        for al in hist_sharings(shp):
            for pn in (("int", "float") if T else (("int", "float")[next(rot) % 2],)):
                em, bins = equalise(ex_edges(shp), pattern(pn, shp), al)
                other = pattern("mixed" if pn == "int" else "int", shp)
                _, other_eq = equalise(ex_edges(shp), other, al)
                for pre in ("fresh", "cached"):
                    s1, s2 = pick(svals)
                    run_case(R, "shared", ["scale", al, em, bins, pick([0, 3, 1.5]), s1, s2, pre])
                nv, inc, style = pick(nvals)
                run_case(R, "shared", ["nevents", al, em, bins, pick([0, 3, 1.5]), nv, inc, style])
                w, mode = pick(wmodes)
                run_case(R, "shared", ["add", {"a": al}, em, bins, 2, other, 1.5, w, mode])
                w, mode = pick(wmodes[:4])
                run_case(R, "shared", ["add", {"b": al}, em, other, 2, bins, 1.5, w, mode])
                w, mode = pick(wmodes[:4])
                run_case(R, "shared", ["add", {"a": al, "b": al}, em, bins, 2, other_eq, 1.5, w, mode])
                w, mode = pick(wmodes[:4])
                run_case(R, "shared", ["add", {"a": al, "share": True}, em, bins, 2, bins, 1.5, w, mode])
                mode, sa, mk = pick(h2gs)
                run_case(R, "shared", ["h2g", al, em, bins, mode, sa, mk, "tuple"])
                run_case(R, "shared", ["iter", al, em, bins])
                if len(shp) == 2:
                    dup, sep, header, via = pick(csvs)
                    run_case(R, "shared", ["csv", al, em, bins, dup, sep, header, via])
    R.scope("histogram.add of two histogram objects over the same lists",
            "all shapes with 1..%d bins per axis in 1..3 dimensions (no sharing inside the histogram): b is a second "
            "histogram object over the bins and edges lists of a; weights 1, 2, -0.5, positional / keyword / default" % maxb, True)
    for shp in shapes(maxb):
        for pn in ("int", "float"):
            bins = pattern(pn, shp)
            for w, mode in wmodes[:4]:
                run_case(R, "shared", ["add", {"share": True}, ex_edges(shp), bins, 2, bins, 1.5, w, mode])

    # ---- graphs
    std = [n for n in namings if tuple(n[:parse_names_ref(tuple(n))[0]]) in (("x",), ("x", "y"), ("x", "y", "z"), ("x", "xy"))]
    if not T:
        std = [n for k, n in enumerate(std) if len(n) <= 4 or (len(n) == 5 and k % 3 == 0) or k % 11 == 0]
    spairs = [(2, 5, -1), (-4, 0.5, 3), (0.5, -3, 4), (3, 7.5, 2)]
    R.scope("graph.scale on shared columns",
            "%d valid namings over the coordinate tuples (x), (x, y), (x, y, z), (x, xy) with 0..3 error fields%s; for each, "
            "every pair of columns being one list object and all columns being one list%s (e.g. graph([xs, xs]), the same "
            "list for error_y_low and error_y_high, a coordinate shared with an error of another one); %s points, tagged int "
            "/ float values alternating, (scale, target, second target) rotating over %r; every case also runs on the same "
            "values in separate lists" % (
                len(std), "" if T else " (all with <= 4 columns, a third of those with 5, every 11th otherwise)",
                "; for <= 5 columns every partition of the columns into groups sharing one list" if T else "",
                "1 and 3" if T else "2", spairs), True)
    for names in std:
        if len(names) < 2:
            continue
        for al in column_sharings(len(names), T and len(names) <= 5):
            for npt in ((1, 3) if T else (2,)):
                coords = equal_columns(graph_coords(len(names), npt, pick(["int", "float"])), al)
                sc, s1, s2 = pick(spairs)
                run_case(R, "shared", ["graph_scale", al, names, coords, sc, s1, s2, "tuple"])
    n = 4000 if T else 400
    R.scope("graph.scale on shared columns (random)", "%d random graphs: random valid naming (all %d), 1..4 points, a random "
            "assignment of the columns to shared lists, random dyadic values, random non-zero scale and targets" % (n, len(namings)), False)
    for _ in range(n):
        names = rng.choice(namings)
        al = []
        for i in range(len(names)):
            al.append(rng.choice(sorted(set(al)) + [i, i]))
        npt = rng.randint(1, 4)
        coords = equal_columns([[rand_content(rng, "dyadic") for _ in range(npt)] for _ in names], al)
        run_case(R, "shared", ["graph_scale", al, names, coords, rand_scale(rng), rand_scale(rng), rand_scale(rng), "tuple"])

    # ---- groups
    inner = {1: {"bins": [[[0], [1]]]}, 2: {"bins": [[[0, 0], [0, 1]]]}, 4: [0, 1, 2, 2], 5: [0, 0, 2, 2]}
    R.scope("scale_to / GroupScale / ScaleTo on groups sharing lists",
            "groups of 2..3 structures out of the 7 kinds above in which one structure occurs a second time (the very same "
            "object), or a second histogram object over the same bins and edges lists, or a second graph over the same "
            "column lists; first / last / both positions around one other structure; also single structures with shared "
            "rows / columns inside; numeric targets {3, -0.5} and the scale of a selected item; allow_zero_scale both; every "
            "case also runs on the same values in separate lists", True)
    for k, kind in enumerate(kinds):
        links = [["same", 0], ["bins", 0] if kind[0] == "h" else ["cols", 0]]
        groups = []
        for link in links:
            groups.append(([kind, kind], [None, link]))
            for o in (0, 4) if T else (pick([0, 4]),):
                groups.append(([kind, kinds[o], kind], [None, None, link]))
                groups.append(([kinds[o], kind, kind], [None, None, [link[0], 1]]))
        if k in inner:
            e_items = list(kind)
            if kind[0] == "h":
                e_items[1], e_items[2] = equalise(kind[1], kind[2], inner[k])
            else:
                e_items[2] = equal_columns(kind[2], inner[k])
            groups.append(([e_items], [inner[k]]))
            groups.append(([e_items, kinds[0], e_items], [inner[k], None, ["same", 0]]))
            groups.append(([e_items, e_items], [inner[k], ["bins", 0] if kind[0] == "h" else ["cols", 0]]))
        for items, al in groups:
            targets = [["num", 3], ["num", -0.5]]
            if k in scalable:
                targets.append(["sel", len(items) - 1])
                targets.append(["str", 0])
            for target in targets:
                for via in ("scale_to", "GroupScale") + (("ScaleTo",) if target[0] == "num" else ()):
                    for allow in ((False, True) if via != "ScaleTo" else (False,)):
                        run_case(R, "shared", ["scale_to", al, items, target, via, allow])


if __name__ == "__main__":
    R = Run("C12", dict((fn, make_replayer(fn)) for fn in CHECKS))
    sys.exit(R.main(body, "real functions against an exact-rational reference over enumerated shapes (1..3 dimensions) and "
                          "seeded random histograms / graphs; a case is non-trivial when the real code was executed and "
                          "compared with the reference (ill-conditioned float cases are counted as trivial and skipped)"))
