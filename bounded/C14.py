"""C14 bounded stand-in: real Variable / Compose / Combine (lena/variables/variable.py) against the property text.

Reference (written from the property, not from the code):
 * data of Compose(v1..vn)(x) and of Sequence(v1..vn) is vn.getter(...v1.getter(x)...) (own fold over tagged pure
   functions), data of Combine is the tuple of the getters' results;
 * the context of Compose(v1..vn)(x) equals the context of the Sequence (v1..vn) on an equal x;
 * context.variable carries the name and the attributes of the resulting (= last applied) variable; for Combine the
   documented name ("_".join of names unless given), dim and per-variable contexts under "combine";
 * for pairwise distinct non-empty types (including those of an earlier, pre-existing typed context.variable written in
   the format of the module docstring) every composed variable's name and attributes are available under its type and
   "compose" is the list of types in application order;
 * frame: the context outside "variable" is untouched, no var_context (of the variable, of its components) and no getter
   changes, a repeated application to an equal value gives an equal result -- also after the first result has been
   scribbled over (sharing between a result and the variable would make the second result differ).

Not demanded (reading decisions): exact key set of context.variable (only what the property names), LenaTypeError
conditions, dot-attribute access, lena.variables.functions (abs, Cm: documented as unsound, not named by the property),
associativity of nested Compose beyond "Compose == Sequence" (for nested chains both the per-element and the flattened
list of types are accepted for "compose"), a type= keyword of Compose.

Failures expected on the unchanged tree (bc9989c + C20 fixes), each with its own fid:
 * FID_17A  DESIGN section 6 row 17, first half (variable.py:209 list.extend of the type *string*);
 * FID_17B  row 17, second half: chains containing an untyped variable (outside the quantifier's "distinct types",
            inside the statement's "for any variables");
 * Compose/name-keyword-ignored/...  Compose(..., name=X) keeps the last variable's name (docstring: name "can set the
            name of the composed variable"; the property: context.variable carries the name of the resulting variable)."""
import copy
import itertools
import os
import sys
sys.path.insert(0, os.path.dirname(os.path.dirname(os.path.abspath(__file__))))
from bounded.common import Run, watchdog, Timeout

import lena.core
import lena.flow
from lena.core import Sequence
from lena.variables import Variable, Compose, Combine

# row 17 of DESIGN section 6, first half: a Compose of >= 2 typed variables applied after a typed variable
FID_17A = "Compose-after-typed-variable/compose-list=earlier-types+characters-of-last-type"
# row 17, second half: chain containing an untyped variable, value with a typed context.variable
FID_17B = "Compose-vs-Sequence/chain-with-untyped-variable/after-typed-variable/type-history-differs"


# ---------------------------------------------------------------- strict structural equality
def same(a, b):
    """structural equality that also tells True from 1, 0 from False and a list from a tuple"""
    ta = type(a)
    if ta is not type(b):
        return False
    if ta is dict:
        return len(a) == len(b) and all(k in b and same(v, b[k]) for k, v in a.items())
    if ta is list or ta is tuple:
        return len(a) == len(b) and all(same(x, y) for x, y in zip(a, b))
    return a == b


def has_items(d, items):
    return isinstance(d, dict) and all(k in d and same(d[k], v) for k, v in items.items())


def scribble(o):
    """mutate every container reachable from o"""
    if isinstance(o, dict):
        for v in list(o.values()):
            scribble(v)
        o["__scribbled__"] = 1
    elif isinstance(o, list):
        for v in o:
            scribble(v)
        o.append("__scribbled__")
    elif isinstance(o, tuple):
        for v in o:
            scribble(v)


# ---------------------------------------------------------------- specs -> real variables + pure references
def V(name, type_, attrs, tag):
    return {"k": "var", "name": name, "type": type_, "attrs": attrs, "tag": tag}


def Cp(*of):
    return {"k": "compose", "of": list(of)}


def Cb(of, kw=None):
    return {"k": "combine", "of": list(of), "kw": kw or {}}


def s_name(s):
    if s["k"] == "var":
        return s["name"]
    if s["k"] == "compose":
        return s_name(s["of"][-1])
    return s["kw"].get("name", "_".join(s_name(c) for c in s["of"]))


def s_type(s):
    if s["k"] == "var":
        return s["type"]
    if s["k"] == "compose":
        return s_type(s["of"][-1])
    return s["kw"].get("type", "")


def s_attrs(s):
    if s["k"] == "var":
        return s["attrs"]
    if s["k"] == "compose":
        return s_attrs(s["of"][-1])
    d = {k: v for k, v in s["kw"].items() if k not in ("name", "type")}
    d["dim"] = len(s["of"])
    return d


def s_flat(s):
    """the composed variables, in application order (a Combine is one variable)"""
    if s["k"] == "compose":
        return [x for c in s["of"] for x in s_flat(c)]
    return [s]


def s_ref(s):
    """pure reference function on data"""
    if s["k"] == "var":
        tag = s["tag"]
        return lambda x: [tag, x]
    fs = [s_ref(c) for c in s["of"]]
    if s["k"] == "compose":
        def f(x):
            for g in fs:
                x = g(x)
            return x
        return f
    return lambda x: tuple(g(x) for g in fs)


class Node(object):
    def __init__(self, spec, pool):
        self.spec = spec
        self.kids = []
        if spec["k"] == "var":
            tag = spec["tag"]

            def getter(x, tag=tag):
                return [tag, x]
            self.real = Variable(spec["name"], getter, type=spec["type"], **copy.deepcopy(spec["attrs"]))
        else:
            self.kids = [Node(c, pool) for c in spec["of"]]
            before = [copy.deepcopy(k.real.var_context) for k in self.kids]
            if spec["k"] == "compose":
                self.real = Compose(*[k.real for k in self.kids])
            else:
                self.real = Combine(*[k.real for k in self.kids], **copy.deepcopy(spec["kw"]))
            self.built_clean = all(same(b, k.real.var_context) for b, k in zip(before, self.kids))
        self.snap = copy.deepcopy(self.real.var_context)
        self.getter = self.real.getter
        pool.append(self)


def changed_nodes(pool):
    return [n for n in pool if not same(n.snap, n.real.var_context) or n.real.getter is not n.getter]


CONFIRMED_HANGS = [0]


def attempt(f):
    """(True, result) or (False, kind of failure).  Variables are stateless, so a call that ran into the 2 s wall-clock
    watchdog is repeated once with 8 s before it is reported: on a loaded machine the process may simply not have been
    scheduled (after 3 confirmed hangs no more second chances, to keep the run bounded)."""
    for seconds in (2, 8):
        try:
            with watchdog(seconds):
                return True, f()
        except Timeout:
            if seconds == 8 or CONFIRMED_HANGS[0] >= 3:
                CONFIRMED_HANGS[0] += 1
                return False, "NON-TERMINATION"
        except RecursionError:
            return False, "RecursionError"
        except Exception as e:
            return False, "%s" % type(e).__name__


def make_value(data, pre):
    d = copy.deepcopy(data)
    return d if pre is None else (d, copy.deepcopy(pre))


def run_seq(seq, value):
    res = list(seq.run(iter([value])))
    if len(res) != 1:
        raise ValueError("Sequence yielded %d values for 1" % len(res))
    return res[0]


def pre_info(pre):
    """(kind, types, entries) of the pre-existing context (harness-made, in the module docstring's format)"""
    if pre is None:
        return "bare-data", [], {}
    if "variable" not in pre:
        return "no-variable", [], {}
    pv = pre["variable"]
    if not (isinstance(pv, dict) and pv.get("type")):
        return "untyped-variable", [], {}
    types = list(pv.get("compose", [pv["type"]]))
    return "typed-variable", types, {t: pv[t] for t in types if t in pv}


def ref_varctx(entries):
    """context.variable after typed variables (name, type, attrs), as the docstring shows it"""
    name, type_, attrs = entries[-1]
    d = {"name": name}
    d.update(copy.deepcopy(attrs))
    d["type"] = type_
    for n, t, a in entries:
        sub = {"name": n}
        sub.update(copy.deepcopy(a))
        d[t] = sub
    if len(entries) >= 2:
        d["compose"] = [t for _, t, _ in entries]
    return d


def spelled(acc, elems):
    """classification only: the list in which every Compose (>= 2 variables) applied after a typed variable
    contributes the characters of its type instead of its types"""
    acc = list(acc)
    for e in elems:
        if e["k"] == "compose" and len(e["of"]) == 1:
            acc = spelled(acc, e["of"])
        elif e["k"] == "compose":
            if acc:
                acc.extend(list(s_type(e)))
            else:
                acc = spelled([], e["of"])
        else:
            acc.append(s_type(e))
    return acc


def get_varc(res):
    if not (isinstance(res, tuple) and len(res) == 2 and isinstance(res[1], dict)):
        return None
    v = res[1].get("variable")
    return v if isinstance(v, dict) else None


def frame_ok(res, pre):
    rest = {k: v for k, v in res[1].items() if k != "variable"}
    exp = {k: v for k, v in (pre or {}).items() if k != "variable"}
    return same(rest, exp)


# ---------------------------------------------------------------- chains: Compose / Sequence
def check_chain(chain, pre, data, kw=None, repeats=2):
    """-> list of (fid, text); kw: keyword arguments of the Compose (then it is not compared with the Sequence)"""
    kw = kw or {}
    out = []

    def bad(fid, text):
        out.append((fid, text))
    pre0 = copy.deepcopy(pre)
    pkind, ptypes, pentries = pre_info(pre)
    flat = [x for e in chain for x in s_flat(e)]
    ftypes = [s_type(x) for x in flat]
    nested = any(e["k"] != "var" for e in chain)
    typed = all(ftypes) and len(set(ftypes + ptypes)) == len(ftypes + ptypes)
    ckind = ("nested-" if nested else "") + ("typed-chain" if typed else "chain-with-untyped-variable")
    where = "%s/%s" % (ckind, pkind)
    desc = "chain %s%s on %r with context %r" % ([(s_name(e), s_type(e)) if e["k"] == "var" else describe(e) for e in chain],
                                                 (" Compose keywords %r" % kw) if kw else "", data, pre)

    pool = []
    ok, nodes = attempt(lambda: [Node(e, pool) for e in chain])
    if not ok:
        bad("construct/unexpected-%s/%s" % (nodes, ckind), "constructing " + desc)
        return out
    for n in pool:
        if n.kids and not n.built_clean:
            bad("%s/construction-changes-component-var_context" % type(n.real).__name__, "building " + desc)
    vs = [n.real for n in nodes]
    top_before = [copy.deepcopy(v.var_context) for v in vs]
    ok, comp = attempt(lambda: Compose(*vs, **copy.deepcopy(kw)))
    if not ok:
        bad("Compose/construct/unexpected-%s/%s" % (comp, ckind), "Compose of " + desc)
        return out
    if not all(same(b, v.var_context) for b, v in zip(top_before, vs)):
        bad("Compose/construction-changes-component-var_context", "Compose of " + desc)
        for n in pool:
            n.snap = copy.deepcopy(n.real.var_context)
    comp_snap = copy.deepcopy(comp.var_context)
    comp_getter = comp.getter
    ok, seq = attempt(lambda: Sequence(*vs))
    if not ok:
        bad("Sequence/construct/unexpected-%s" % seq, "Sequence of " + desc)
        return out

    ref = data
    for e in chain:
        ref = s_ref(e)(ref)

    ok1, rc = attempt(lambda: comp(make_value(data, pre)))
    ok2, rs = attempt(lambda: run_seq(seq, make_value(data, pre)))
    if not ok1:
        bad("Compose/call/unexpected-%s/%s" % (rc, where), "Compose, " + desc)
    if not ok2:
        bad("Sequence/call/unexpected-%s/%s" % (rs, where), "Sequence, " + desc)
    if "NON-TERMINATION" in (rc if not ok1 else "", rs if not ok2 else ""):
        return out
    if not same(pre, pre0):
        bad("harness/pre-changed", desc)
    results = []
    if ok1:
        results.append(("Compose", rc))
    if ok2:
        results.append(("Sequence", rs))
    last = chain[-1]
    reserved = set(["name", "type", "compose"]) | set(ftypes) | set(ptypes)
    earlier_attrs = set(k for x in flat[:-1] for k in s_attrs(x))
    if pre is not None and isinstance(pre.get("variable"), dict):
        earlier_attrs |= set(pre["variable"])
    for who, r in results:
        vc = get_varc(r)
        if vc is None:
            bad("%s/result-not-(data,context)-with-variable/%s" % (who, where), "%s, %s -> %r" % (who, desc, r))
            continue
        name_exp, attrs_exp = s_name(last), dict(s_attrs(last))
        if who == "Compose" and kw:
            name_exp = kw.get("name", name_exp)
            attrs_exp.update({k: v for k, v in kw.items() if k != "name"})
        if not same(r[0], ref):
            bad("%s/data-not-nested-getters" % who, "%s, %s: data %r, expected %r" % (who, desc, r[0], ref))
        if not frame_ok(r, pre0):
            bad("%s/frame/context-outside-variable-changed/%s" % (who, pkind), "%s, %s -> context %r" % (who, desc, r[1]))
        if vc.get("name") != name_exp:
            if who == "Compose" and "name" in kw and vc.get("name") == s_name(last):
                bad("Compose/name-keyword-ignored/variable.name-is-last-variable's",
                    "%s: name %r, expected %r" % (desc, vc.get("name"), name_exp))
            else:
                bad("%s/variable.name-not-of-last-variable/%s" % (who, where),
                    "%s, %s: name %r, expected %r" % (who, desc, vc.get("name"), name_exp))
        if not has_items(vc, attrs_exp):
            bad("%s/variable-attributes-of-last-variable-missing/%s" % (who, where),
                "%s, %s: variable %r lacks %r" % (who, desc, vc, attrs_exp))
        if s_type(last) and vc.get("type") != s_type(last):
            bad("%s/variable.type-not-of-last-variable/%s" % (who, where),
                "%s, %s: type %r, expected %r" % (who, desc, vc.get("type"), s_type(last)))
        stale = sorted(k for k in earlier_attrs if k not in reserved and k not in attrs_exp and k in vc)
        if stale:
            bad("%s/attribute-of-earlier-variable-at-top-level-of-context.variable/%s" % (who, pkind),
                "%s, %s: variable %r still has %r of an earlier variable" % (who, desc, vc, stale))

    # sentence 1: same context
    if not kw and ok1 and ok2 and get_varc(rc) is not None and get_varc(rs) is not None and not same(rc[1], rs[1]):
        cv, sv = get_varc(rc), get_varc(rs)
        alltypes = set(ftypes + ptypes)
        diffkeys = set(k for k in set(cv) | set(sv) if k not in cv or k not in sv or not same(cv[k], sv[k]))
        parts = sorted(set("compose-list" if k == "compose" else "type-subcontext" if k in alltypes else "other-keys"
                           for k in diffkeys))
        text = "%s: Compose gives variable %r, Sequence gives %r" % (desc, cv, sv)
        if not same({k: v for k, v in rc[1].items() if k != "variable"}, {k: v for k, v in rs[1].items() if k != "variable"}):
            bad("Compose-vs-Sequence/context-outside-variable-differs/%s" % where, text)
        elif (typed and not nested and ptypes and len(chain) >= 2 and diffkeys == {"compose"}
              and cv.get("compose") == spelled(ptypes, [Cp(*chain)]) and sv.get("compose") == ptypes + ftypes):
            bad(FID_17A, text)
        elif (not typed and not nested and ptypes and len(chain) >= 2 and "other-keys" not in parts
              and isinstance(cv.get("compose"), list) and cv["compose"][:len(ptypes)] == ptypes):
            bad(FID_17B, text)
        else:
            bad("Compose-vs-Sequence/context.variable-differs/%s/%s" % ("+".join(parts), where), text)

    # sentence 2, second half: types (checked on the Sequence; the Compose must equal it)
    if ok2 and typed and get_varc(rs) is not None:
        sv = get_varc(rs)
        accepted = [ptypes + [s_type(e) for e in chain], ptypes + ftypes]
        got = sv.get("compose", None)
        must_have = flat
        if got is None and len(accepted[0]) == 1:
            pass
        elif nested and got == accepted[0] and got != accepted[1]:
            # per-element reading: a Compose element counts as one variable of its (last) type
            must_have = [s_flat(e)[-1] for e in chain]
        elif got not in accepted:
            text = "%s: compose = %r, expected %r" % (desc, got, accepted[-1])
            if nested and got == spelled(ptypes, chain):
                bad(FID_17A, text)
                # types missing from the list are not carried on by later variables: a consequence, not a second finding
                must_have = [flat[-1]]
            else:
                bad("Sequence/compose-not-types-in-application-order/%s" % where, text)
        for x in must_have:
            want = {"name": s_name(x)}
            want.update(s_attrs(x))
            if not has_items(sv.get(s_type(x)), want):
                bad("Sequence/attributes-not-available-under-type/%s" % where,
                    "%s: variable[%r] = %r, expected to contain %r" % (desc, s_type(x), sv.get(s_type(x)), want))
                break
        for t in ptypes:
            if t in pentries and not has_items(sv.get(t), pentries[t]):
                bad("Sequence/earlier-type-not-kept/%s" % where,
                    "%s: variable[%r] = %r, expected to contain %r" % (desc, t, sv.get(t), pentries[t]))
                break

    # frame on the variables; repeated application
    ch = changed_nodes(pool)
    if ch:
        bad("Variable/var_context-or-getter-changed-by-application/%s" % type(ch[0].real).__name__,
            "%s: var_context %r became %r" % (desc, ch[0].snap, ch[0].real.var_context))
    if not same(comp_snap, comp.var_context) or comp.getter is not comp_getter:
        bad("Compose/var_context-or-getter-changed-by-application", "%s: %r became %r" % (desc, comp_snap, comp.var_context))
    snap_c = copy.deepcopy(rc) if ok1 else None
    snap_s = copy.deepcopy(rs) if ok2 else None
    other = (["other"], {"variable": ref_varctx([("elsewhere", "t_elsewhere", {"unit": "other"})]), "q": [1]})
    for k in range(repeats):
        if k == 1:
            # results of the first application are overwritten; an unrelated value goes through in between
            if ok1:
                scribble(rc[1])
            if ok2:
                scribble(rs[1])
            attempt(lambda: comp(copy.deepcopy(other)))
            attempt(lambda: run_seq(seq, copy.deepcopy(other)))
        tag = "after-result-was-mutated" if k >= 1 else "immediately"
        if ok1:
            okr, r = attempt(lambda: comp(make_value(data, pre)))
            if not okr or not same(r, snap_c):
                bad("Compose/repeated-application-differs/%s" % tag, "%s: first %r, then %r" % (desc, snap_c, r))
        if ok2:
            okr, r = attempt(lambda: run_seq(seq, make_value(data, pre)))
            if not okr or not same(r, snap_s):
                bad("Sequence/repeated-application-differs/%s" % tag, "%s: first %r, then %r" % (desc, snap_s, r))
            okr, r = attempt(lambda: run_seq(Sequence(*vs), make_value(data, pre)))
            if not okr or not same(r, snap_s):
                bad("Sequence/fresh-Sequence-of-same-variables-differs/%s" % tag, "%s: first %r, then %r" % (desc, snap_s, r))
    ch = changed_nodes(pool)
    if ch:
        bad("Variable/var_context-changed-after-result-was-mutated/%s" % type(ch[0].real).__name__,
            "%s: var_context %r became %r" % (desc, ch[0].snap, ch[0].real.var_context))
    if not same(comp_snap, comp.var_context):
        bad("Compose/var_context-changed-after-result-was-mutated", "%s: %r became %r" % (desc, comp_snap, comp.var_context))
    seen = set()
    return [(f, t) for f, t in out if not (f in seen or seen.add(f))]


def describe(e):
    if e["k"] == "var":
        return "%s:%s" % (e["name"], e["type"])
    inner = ",".join(describe(c) for c in e["of"])
    if e["k"] == "compose":
        return "Compose(%s)" % inner
    return "Combine(%s%s)" % (inner, "".join(",%s=%r" % kv for kv in sorted(e["kw"].items())))


# ---------------------------------------------------------------- Combine
def check_combine(spec, pre, data, repeats=2):
    out = []

    def bad(fid, text):
        out.append((fid, text))
    pre0 = copy.deepcopy(pre)
    pkind, ptypes, pentries = pre_info(pre)
    desc = "%s on %r with context %r" % (describe(spec), data, pre)
    pool = []
    ok, node = attempt(lambda: Node(spec, pool))
    if not ok:
        bad("Combine/construct/unexpected-%s" % node, desc)
        return out
    for n in pool:
        if n.kids and not n.built_clean:
            bad("%s/construction-changes-component-var_context" % type(n.real).__name__, desc)
    comb = node.real
    n = len(spec["of"])
    ref = tuple(s_ref(c)(data) for c in spec["of"])
    ok1, r1 = attempt(lambda: comb(make_value(data, pre)))
    if not ok1:
        bad("Combine/call/unexpected-%s/%s" % (r1, pkind), desc)
        return out
    vc = get_varc(r1)
    if vc is None:
        bad("Combine/result-not-(data,context)-with-variable/%s" % pkind, "%s -> %r" % (desc, r1))
        return out
    if not same(r1[0], ref):
        bad("Combine/data-not-tuple-of-getters-results", "%s: data %r, expected %r" % (desc, r1[0], ref))
    if not frame_ok(r1, pre0):
        bad("Combine/frame/context-outside-variable-changed/%s" % pkind, "%s -> context %r" % (desc, r1[1]))
    if vc.get("name") != s_name(spec):
        bad("Combine/variable.name", "%s: name %r, expected %r" % (desc, vc.get("name"), s_name(spec)))
    if not has_items(vc, s_attrs(spec)):
        bad("Combine/variable-attributes-or-dim-missing", "%s: variable %r lacks %r" % (desc, vc, s_attrs(spec)))
    if pre is not None and isinstance(pre.get("variable"), dict):
        stale = sorted(k for k in pre["variable"] if k not in ("name", "type", "compose") and k not in ptypes
                       and k not in s_attrs(spec) and k != "combine" and k in vc)
        if stale:
            bad("Combine/attribute-of-earlier-variable-at-top-level-of-context.variable/%s" % pkind,
                "%s: variable %r still has %r of the earlier variable" % (desc, vc, stale))
    cb = vc.get("combine")
    good = isinstance(cb, (tuple, list)) and len(cb) == n
    if good:
        for c, got in zip(spec["of"], cb):
            want = {"name": s_name(c)}
            want.update(s_attrs(c))
            if s_type(c):
                want["type"] = s_type(c)
            good = good and has_items(got, want)
    if not good:
        bad("Combine/combine-does-not-hold-each-variable's-context", "%s: combine = %r" % (desc, cb))
    t = s_type(spec)
    if t:
        want = {"name": s_name(spec)}
        want.update(s_attrs(spec))
        if vc.get("type") != t or not has_items(vc.get(t), want):
            bad("Combine/typed/attributes-not-available-under-type", "%s: variable %r" % (desc, vc))
        if t not in ptypes:
            exp = ptypes + [t]
            if not (vc.get("compose") == exp or (len(exp) == 1 and "compose" not in vc)):
                bad("Combine/typed/compose-not-types-in-application-order/%s" % pkind,
                    "%s: compose = %r, expected %r" % (desc, vc.get("compose"), exp))
            for pt in ptypes:
                if pt in pentries and not has_items(vc.get(pt), pentries[pt]):
                    bad("Combine/typed/earlier-type-not-kept", "%s: variable[%r] = %r" % (desc, pt, vc.get(pt)))
                    break
    ch = changed_nodes(pool)
    if ch:
        bad("Variable/var_context-or-getter-changed-by-application/%s" % type(ch[0].real).__name__,
            "%s: var_context %r became %r" % (desc, ch[0].snap, ch[0].real.var_context))
    snap = copy.deepcopy(r1)
    for k in range(repeats):
        if k == 1:
            scribble(r1[1])
            attempt(lambda: comb((["other"], {"variable": ref_varctx([("elsewhere", "t_elsewhere", {})])})))
        okr, r = attempt(lambda: comb(make_value(data, pre)))
        if not okr or not same(r, snap):
            bad("Combine/repeated-application-differs/%s" % ("after-result-was-mutated" if k else "immediately"),
                "%s: first %r, then %r" % (desc, snap, r))
    ch = changed_nodes(pool)
    if ch:
        bad("Variable/var_context-changed-after-result-was-mutated/%s" % type(ch[0].real).__name__,
            "%s: var_context %r became %r" % (desc, ch[0].snap, ch[0].real.var_context))
    if not same(pre, pre0):
        bad("harness/pre-changed", desc)
    seen = set()
    return [(f, t) for f, t in out if not (f in seen or seen.add(f))]


# ---------------------------------------------------------------- replay
def replay_chain(chain, pre, data, kw, fid):
    return fid in [f for f, _ in check_chain(chain, pre, data, kw)]


def replay_combine(spec, pre, data, fid):
    return fid in [f for f, _ in check_combine(spec, pre, data)]


# ---------------------------------------------------------------- scopes
TYPE_STYLES = {
    "multi-char": ["tz", "ty9", "m m", "Tx", "a.b"],
    "single-char": ["e", "d", "c", "b", "a"],
    "mixed": ["q", "long_type", "r", "aa", "0"],
}


def attrs_of(style, i):
    if style == "none":
        return {}
    if style == "own":
        return {"own%d" % i: [i], "unit": "u%d" % i}
    if style == "simple":
        return {"unit": "u%d" % i, "latex_name": "L_%d" % i}
    return {"range": [i, [i + 1, {"deep": i}]], "zero": 0, "none": None, "flag": False, "empty": {},
            "nested": {"a": {"b": [i]}}, "unit": ""}


def pre_contexts():
    rest = {"k": {"kk": [0]}, "output": {"filetype": "csv"}}

    def with_var(v):
        d = copy.deepcopy(rest)
        d["variable"] = v
        return d
    return [
        None,
        {},
        copy.deepcopy(rest),
        with_var({}),
        with_var({"name": "old", "unit": "u"}),
        {"variable": {"name": "a_b", "dim": 2, "combine": [{"name": "a"}, {"name": "b"}]}},
        with_var(ref_varctx([("old", "told", {"unit": "u"})])),
        {"variable": ref_varctx([("o", "p", {})])},
        with_var(ref_varctx([("o1", "ta", {"w": [1]}), ("o2", "tb", {})])),
        with_var(ref_varctx([("o1", "x", {}), ("o2", "y", {"unit": 0}), ("o3", "w", {"ww": {}})])),
    ]


class HangBudget(Exception):
    pass


def report(R, res, kind, args):
    for fid, text in res:
        R.fail(fid, text, {"args": args}, {"fn": kind, "args": args + [fid]})
    if CONFIRMED_HANGS[0] >= 3:
        raise HangBudget()


def compositions(n):
    """all ways to cut range(n) into contiguous groups"""
    for cuts in itertools.product([0, 1], repeat=n - 1):
        groups, cur = [], [0]
        for i, c in enumerate(cuts):
            if c:
                groups.append(cur)
                cur = []
            cur.append(i + 1)
        groups.append(cur)
        yield groups


def rand_json(rng, depth=2):
    r = rng.random()
    if depth == 0 or r < 0.5:
        return rng.choice([0, 1, -1, 2.5, "", "s", "cm", None, True, False])
    if r < 0.75:
        return [rand_json(rng, depth - 1) for _ in range(rng.randint(0, 3))]
    return {rng.choice("abcd"): rand_json(rng, depth - 1) for _ in range(rng.randint(0, 3))}


ATTR_NAMES = ["unit", "latex_name", "range", "extra", "scale", "bins", "title", "xerr"]


def rand_attrs(rng):
    return {k: rand_json(rng) for k in rng.sample(ATTR_NAMES, rng.randint(0, 3))}


def rand_types(rng, k):
    alphabet = "abcxyz_ .09T"
    out = []
    while len(out) < k:
        t = "".join(rng.choice(alphabet) for _ in range(rng.choice([1, 1, 2, 3, 5])))
        if t not in out and t not in ATTR_NAMES and t not in ("name", "type", "compose", "combine", "dim", "getter", "variable"):
            out.append(t)
    return out


def rand_pre(rng, types):
    """types: fresh types reserved for an earlier typed chain"""
    r = rng.random()
    if r < 0.12:
        return None
    ctx = {k: rand_json(rng) for k in rng.sample(["a", "b", "output", "data", "hist"], rng.randint(0, 2))}
    if r < 0.3:
        return ctx
    if r < 0.45:
        ctx["variable"] = dict({"name": "old"}, **rand_attrs(rng))
        return ctx
    k = rng.randint(1, len(types))
    ctx["variable"] = ref_varctx([("o%d" % i, types[i], rand_attrs(rng)) for i in range(k)])
    return ctx


# ---- attributes set on a variable AFTER construction (Variable.__setattr__)
_ATTR_TYPES = ["ta", "tb", "tc", "td"]
_ATTR_EXTRA = [{"unit": "m"}, {"latex_name": "L", "id": 2}, {"range": [0, 1]}, {"unit": "mm", "tags": {"a": [1]}}]


def attr_update_case(n, updates, composed):
    """a chain of n typed variables; `updates` are set with setattr on the Compose (composed=True) or on the LAST variable before
    composing (composed=False).  An update of the composed variable concerns the RESULTING variable only: context.variable
    carries it at the top level, and every component is still described, unchanged, under its type.  Returns text or None"""
    def getter(i):
        return lambda d: (d, i)
    specs = [("v%d" % i, _ATTR_TYPES[i], copy.deepcopy(_ATTR_EXTRA[i])) for i in range(n)]
    vs = [Variable(nm, getter(i), type=ty, **copy.deepcopy(ex)) for i, (nm, ty, ex) in enumerate(specs)]
    own = [dict({"name": nm}, **copy.deepcopy(ex)) for nm, ty, ex in specs]
    if composed:
        c = Compose(*vs)
        for k, v in updates.items():
            setattr(c, k, copy.deepcopy(v))
    else:
        for k, v in updates.items():
            setattr(vs[-1], k, copy.deepcopy(v))
        own[-1].update(copy.deepcopy(updates))
        c = Compose(*vs)
    before = copy.deepcopy(c.var_context)
    for value in (5, (5, {"run": 1}), 5):
        try:
            with watchdog(5):
                data, ctx = c(copy.deepcopy(value))
        except Timeout:
            return "application does not return"
        except Exception as e:
            return "application raised %s: %s" % (type(e).__name__, str(e)[:120])
        cv = ctx.get("variable", {})
        top = dict(own[-1])
        top.update(updates)
        for k, v in top.items():
            if cv.get(k) != v:
                return "context.variable.%s = %r, the resulting variable has %r" % (k, cv.get(k), v)
        if cv.get("compose") != _ATTR_TYPES[:n]:
            return "context.variable.compose = %r, the chain has the types %r" % (cv.get("compose"), _ATTR_TYPES[:n])
        for i in range(n):
            if cv.get(_ATTR_TYPES[i]) != own[i]:
                return ("context.variable.%s = %r, but the variable of that type was given the description %r"
                        % (_ATTR_TYPES[i], cv.get(_ATTR_TYPES[i]), own[i]))
    if c.var_context != before:
        return "applying the variable changed its own context"
    return None


def replay_attr_update(n, updates, composed):
    return attr_update_case(n, updates, composed) is not None


def scope_attr_updates(R):
    ups = [{}, {"latex_name": "X"}, {"unit": "cm"}, {"name": "renamed", "unit": "cm"}, {"range": [2, 3]}, {"id": 0}]
    R.scope("attributes set after construction (var.attr = value)",
            "chains of 2..4 typed variables x %d sets of attributes assigned to the Compose itself, "
            "applied to a bare value, a value with context and again: context.variable has the resulting variable's "
            "attributes (updates included) at the top level, compose lists the types, and EVERY component is described, "
            "unchanged, under its type" % len(ups), True)
    for n in range(2, 5):
        for u in ups:
            for composed in (True,):        # (what an update of a COMPONENT after its construction should do to the copy
                                           #  under its type is not stated by the property: not demanded here)
                R.case(True, {"n": n, "updates": u, "on_compose": composed})
                bad = attr_update_case(n, u, composed)
                if bad:
                    R.fail("Variable.__setattr__/component-description-changed" if "of that type" in bad else
                           "Variable.__setattr__/resulting-variable", "chain of %d, %s = %r: %s"
                           % (n, "Compose attributes" if composed else "attributes of the last variable", u, bad),
                           {"n": n, "updates": u, "on_compose": composed}, {"fn": "replay_attr_update", "args": [n, u, composed]})


def body(R):
    try:
        scopes(R)
        scope_attr_updates(R)
    except HangBudget:
        R.scope("(run cut short)", "stopped after 3 confirmed non-terminations (each repeated with an 8 s limit); the scopes "
                "above are incomplete", False)


def scopes(R):
    rng = R.rng
    pres = pre_contexts()
    datas = [7, [0, ""]]
    nmax = 5

    # ---- S1
    R.scope("Compose / Sequence / Variable.__call__ on typed chains",
            "all chains of n=1..5 variables with pairwise distinct non-empty types x 3 type alphabets (multi-char, single-char, "
            "mixed; not in sorted order) x 4 attribute sets (none / differently named per variable / same-named / nested+falsy) x 10 values' contexts "
            "(bare data, {}, other keys only, variable={}, untyped variable, Combine-made variable, typed variable with 1, 1, 2, 3 "
            "earlier types) x data {7, [0, ""]} (quick tier: the second only with the differently named attributes); each: data = nested getters, Compose context = Sequence context, name/attributes/type of "
            "the last variable, every type's attributes and compose order (on the Sequence), context outside variable unchanged, "
            "no attribute of an earlier variable left at the top level, var_contexts/getters unchanged, 2 repetitions incl. after "
            "scribbling over the first result", True)
    for n in range(1, nmax + 1):
        for ts, types in sorted(TYPE_STYLES.items()):
            for astyle in ("none", "own", "simple", "nested"):
                chain = [V("v%d" % i, types[i], attrs_of(astyle, i), i) for i in range(n)]
                for pre in pres:
                    for data in (datas if R.thorough or astyle == "own" else datas[:1]):
                        res = check_chain(chain, pre, data)
                        R.case(True, {"chain": [describe(e) for e in chain], "pre": pre, "data": data})
                        report(R, res, "replay_chain", [chain, pre, data, None])

    # ---- S2
    R.scope("Combine",
            "all Combine tuples of n=1..4 variables x components (all typed / none typed / alternating) x 2 attribute sets x "
            "4 keyword sets (none; name; type+attribute; name+type+nested attribute) x the 10 contexts (quick tier: 4 of them for the nested attributes) x data 7: data = tuple of "
            "getters' results, name (joined with '_' unless given), dim, combine[i] holds variable i's name/attributes/type, "
            "typed Combine: attributes under its type and compose order after a typed variable; frame; var_contexts unchanged; "
            "repetition incl. after scribbling", True)
    kws = [{}, {"name": "comb"}, {"type": "tcomb", "unit": "cm"}, {"name": "nm", "type": "T", "range": [[0, 1], {"a": []}]}]
    for n in range(1, 5):
        for mask in ("all", "none", "alt"):
            for astyle in ("simple", "nested"):
                of = [V("c%d" % i, ("k%d" % i) if mask == "all" or (mask == "alt" and i % 2 == 0) else "",
                        attrs_of(astyle, i), 10 + i) for i in range(n)]
                for kw in kws:
                    spec = Cb(of, kw)
                    for pre in (pres if R.thorough or astyle == "simple" else pres[::3]):
                        res = check_combine(spec, pre, 7)
                        R.case(True, {"combine": describe(spec), "pre": pre})
                        report(R, res, "replay_combine", [spec, pre, 7])

    # ---- S3
    n3 = 5 if R.thorough else 4
    R.scope("Compose / Sequence on chains with untyped variables ('for any variables')",
            "all typed/untyped masks of chains of n=1..%d (multi-char and single-char types, attributes named differently per variable) x the 10 contexts: "
            "data, Compose context = Sequence context, name/attributes of the last variable, frame, var_contexts unchanged, "
            "repetition (type bookkeeping is demanded only for fully typed chains)" % n3, True)
    for n in range(1, n3 + 1):
        for mask in itertools.product([0, 1], repeat=n):
            if all(mask):
                continue
            for ts in ("multi-char", "single-char"):
                types = TYPE_STYLES[ts]
                chain = [V("v%d" % i, types[i] if mask[i] else "", attrs_of("own", i), i) for i in range(n)]
                for pre in pres:
                    res = check_chain(chain, pre, 7)
                    R.case(True, {"chain": [describe(e) for e in chain], "pre": pre})
                    report(R, res, "replay_chain", [chain, pre, 7, None])

    # ---- S4
    n4 = 5 if R.thorough else 4
    R.scope("chains whose elements are Compose / Combine variables",
            "typed chains of n=2..%d cut into contiguous groups in all 2^(n-1) ways (groups of >= 2 become a Compose element), "
            "fully left- and right-nested Compose, and each position replaced by a typed / untyped Combine of 2; 2 type alphabets x "
            "4 contexts without a typed variable: same checks as S1, compose accepted as per-element or flattened list of types" % n4,
            True)
    pres4 = pres[:3] + [pres[4]]
    for ts in ("multi-char", "single-char"):
        types = TYPE_STYLES[ts]
        for n in range(2, n4 + 1):
            leaves = [V("v%d" % i, types[i], attrs_of("simple", i), i) for i in range(n)]
            chains = []
            for groups in compositions(n):
                chains.append([leaves[g[0]] if len(g) == 1 else Cp(*[leaves[i] for i in g]) for g in groups])
            right = leaves[-1]
            for lf in reversed(leaves[:-1]):
                right = Cp(lf, right)
            left = leaves[0]
            for lf in leaves[1:]:
                left = Cp(left, lf)
            chains += [[right], [left], right["of"], left["of"]]
            for i in range(n):
                for ctype in ("tcomb", ""):
                    cb = Cb([V("p", "kp", {"unit": "pu"}, 20), V("q", "", {"unit": "qu"}, 21)],
                            dict({"unit": "cu"}, **({"type": ctype} if ctype else {})))
                    chains.append(leaves[:i] + [cb] + leaves[i + 1:])
            for chain in chains:
                for pre in pres4:
                    res = check_chain(chain, pre, 7)
                    R.case(True, {"chain": [describe(e) for e in chain], "pre": pre})
                    report(R, res, "replay_chain", [chain, pre, 7, None])

    # ---- S6
    R.scope("Compose with keyword arguments (name, attributes)",
            "typed chains of n=1..3 x 3 keyword sets (name; name+attribute; attribute overriding one of the last variable) x "
            "4 contexts: data, context.variable.name = the given name (docstring: 'name can set the name of the composed variable'), "
            "keyword attributes present, types of the chain kept (on the Sequence), frame, var_contexts unchanged, repetition; "
            "no comparison with the Sequence", True)
    for n in range(1, 4):
        chain = [V("v%d" % i, TYPE_STYLES["multi-char"][i], attrs_of("own", i), i) for i in range(n)]
        for kw in ({"name": "given"}, {"name": "given", "latex_name": "G", "range": [0, [1]]}, {"unit": "overridden"}):
            for pre in (pres[0], pres[2], pres[4], pres[6]):
                res = check_chain(chain, pre, 7, kw)
                R.case(True, {"chain": [describe(e) for e in chain], "kw": kw, "pre": pre})
                report(R, res, "replay_chain", [chain, pre, 7, kw])

    # ---- S5
    n5 = 40000 if R.thorough else 1000
    R.scope("random chains and Combines",
            "%d seeded cases: n=1..5, random distinct types (1..5 characters), 0..3 random nested JSON attributes from 8 names, "
            "random value context (bare / other keys / untyped variable / typed variable with 1..3 earlier types, random attributes); "
            "60%% fully typed flat chains, 20%% with untyped variables, 10%% nested Compose/Combine elements (no typed variable in the "
            "context), 10%% Combine of 1..4 (components may be Compose)" % n5, False)
    for _ in range(n5):
        n = rng.randint(1, 5)
        types = rand_types(rng, n + 6)
        ptypes, types = types[:3], types[3:]
        data = rng.choice([7, 0, "", [1, [2]], None, 2.5])
        pre = rand_pre(rng, ptypes)
        leaves = [V("n%d" % i, types[i], rand_attrs(rng), i) for i in range(n)]
        r = rng.random()
        if r < 0.6:
            res = check_chain(leaves, pre, data)
            args, kind = [leaves, pre, data, None], "replay_chain"
        elif r < 0.8:
            for i in rng.sample(range(n), rng.randint(1, n)):
                leaves[i]["type"] = ""
            res = check_chain(leaves, pre, data)
            args, kind = [leaves, pre, data, None], "replay_chain"
        elif r < 0.9:
            if pre is not None and pre_info(pre)[0] == "typed-variable":
                del pre["variable"]
            groups = rng.choice(list(compositions(n)))
            chain = []
            for g in groups:
                if len(g) == 1 and rng.random() < 0.3 and not any(e["k"] == "combine" for e in chain):
                    chain.append(Cb([leaves[g[0]], V("w", types[n], rand_attrs(rng), 30)],
                                    {"type": types[n + 1]} if rng.random() < 0.5 else {}))
                elif len(g) == 1:
                    chain.append(leaves[g[0]])
                else:
                    chain.append(Cp(*[leaves[i] for i in g]))
            res = check_chain(chain, pre, data)
            args, kind = [chain, pre, data, None], "replay_chain"
        else:
            of = leaves[:4]
            if len(of) >= 3 and rng.random() < 0.4:
                of = [Cp(of[0], of[1])] + of[2:]
            kw = {}
            if rng.random() < 0.5:
                kw["name"] = "cmb"
            if rng.random() < 0.5:
                kw["type"] = types[n]
            kw.update(rand_attrs(rng))
            spec = Cb(of, kw)
            res = check_combine(spec, pre, data)
            args, kind = [spec, pre, data], "replay_combine"
        R.case(True)
        report(R, res, kind, args)


if __name__ == "__main__":
    R = Run("C14", {"replay_chain": replay_chain, "replay_combine": replay_combine, "replay_attr_update": replay_attr_update})
    sys.exit(R.main(body, "exhaustive small scopes over chain length, type alphabet, attribute set and value context, plus seeded random "
                          "chains; a case is non-trivial when the real Compose / Sequence / Combine was built, applied and compared "
                          "with the reference; cases are distinct by construction of the enumeration"))
