"""C05 bounded stand-in: "an analysis gives the same result whether it is driven by run or by fill".

Part 1 (drivers).  A chain  pre* acc post*  is described by a JSON spec, built afresh for every driver from the REAL
lena elements and driven by
    * Sequence(*chain).run(flow),
    * Split([chain], bufsize=b).run(flow)  (chain given as a tuple / as a FillComputeSeq / as the bare accumulator; alone
      or next to tagged companion branches; b in {1..n+1, 1000, None}); the companions include branches that update
      the values of their copy of the block IN PLACE and then stop (LenaStopFill from a Slice(K) behind the updating
      element, K = every index of the flow, fill/compute and fill/request kind) or never stop: "a branch of a Split"
      must give the chain's own result whatever the other branches do to what they are given,
    * FillComputeSeq(*chain): fill value by value until LenaStopFill, then compute(),
    * FillSeq(*pre, acc): fill value by value until LenaStopFill, then Sequence(*post).run(acc.compute())
      (also with the FillSeq nested as FillSeq(pre[:k], FillSeq(pre[k:], acc))).
The reference is written from the property text on plain Python lists (it never touches a driver, an adapter, Filter,
Slice, RunIf, Variable, Count.run ...):
    expected = REF_post( compute( fold(fill, fresh accumulator, REF_pre(flow)) ) )
with  callable -> map,  Variable -> (getter(data), context + variable.name),  Filter -> list comprehension,
Slice -> xs[start:stop:step],  RunIf -> concat(inner([v]) if select(v) else [v]).  The accumulator is the parameter of the
property (its own fill/compute are C09's subject) and is filled directly with the reference pre-processed list.

Part 2 (adapters).  Synthetic elements over the full product "method name x {absent, callable, present but not
callable}" (+ __call__, __iter__, _can_break_flow) and real framework elements; Call / Run / FillInto / FillCompute /
SourceEl (sentinel and every method name) must accept exactly the documented kinds, call exactly the named method
(checked on a call log and on tagged return values) and raise LenaTypeError at construction otherwise; the implicit
conversions of Sequence / FillSeq / FillComputeSeq follow the same table."""
import copy
import itertools
import os
import sys
sys.path.insert(0, os.path.dirname(os.path.dirname(os.path.abspath(__file__))))
from bounded.common import Run, watchdog, Timeout

import lena.core
import lena.flow
import lena.math
import lena.structures
import lena.variables
from lena.core import (Sequence, Split, Source, FillComputeSeq, FillSeq, LenaStopFill, LenaTypeError,
                       Call, FillCompute, FillInto, SourceEl)
from lena.core import Run as RunAdapter

PROP = "C05"

# ---------------------------------------------------------------------------------------------------------------
# values: data or (data, context); the reference has its own accessors (it does not use lena.flow.get_data*)
# ---------------------------------------------------------------------------------------------------------------


def has_ctx(v):
    return isinstance(v, tuple) and len(v) == 2 and isinstance(v[1], dict)


def D(v):
    return v[0] if has_ctx(v) else v


def C(v):
    return v[1] if has_ctx(v) else {}


def with_data(v, d):
    return (d, v[1]) if has_ctx(v) else d


FUNCS = {
    "inc": lambda v: with_data(v, D(v) + 1),
    "dbl": lambda v: with_data(v, D(v) * 2),
    "sq3": lambda v: with_data(v, D(v) * D(v) - 3),
    "wrap": lambda v: ("post", v),
}
GETTERS = {
    "inc": lambda d: d + 1,
    "dbl": lambda d: d * 2,
    "neg": lambda d: -d,
    "box": lambda d: ("g", d),
}
PREDS = {
    "even": lambda v: D(v) % 2 == 0,
    "odd": lambda v: D(v) % 2 == 1,
    "none": lambda v: False,
    "all": lambda v: True,
    "gt1": lambda v: D(v) > 1,
    "lt3": lambda v: D(v) < 3,
    "truthy": lambda v: D(v),          # not a bool: 0 is dropped, everything else passes
    "ctx": lambda v: has_ctx(v),
}


class Dup(object):
    """a run element that yields two tagged values per value (used inside RunIf and as a post element)"""

    def run(self, flow):
        for v in flow:
            w = _dup2(v)        # made before v is handed on (v's context may be changed downstream)
            yield v
            yield w


class Holder(object):
    """an element whose transformation has an unusual name (used through Call(el, call="go"))"""

    def __init__(self, f):
        self._f = f

    def go(self, v):
        return self._f(v)


def _dup2(v):
    """the second value is independent of the first (own copy of the context: no aliasing between flow values)"""
    v = copy.deepcopy(v)
    return with_data(v, D(v) + 100) if isinstance(D(v), int) and not isinstance(D(v), bool) else ("dup", v)


def ref_dup(xs):
    out = []
    for v in xs:
        out.append(v)
        out.append(_dup2(v))
    return out


# ---- element specs (JSON lists) -> real element, reference list function ------------------------------------

def make_el(s):
    k = s[0]
    if k == "call":
        return FUNCS[s[1]]
    if k == "callm":
        return Call(Holder(FUNCS[s[1]]), call="go")
    if k == "var":
        return lena.variables.Variable(s[1], GETTERS[s[2]])
    if k == "filter":
        return lena.flow.Filter(PREDS[s[1]])
    if k == "filterint":
        return lena.flow.Filter(int)
    if k == "slice":
        return lena.flow.Slice(*s[1])
    if k == "runif":
        return lena.flow.RunIf(PREDS[s[1]], *[make_el(x) for x in s[2]])
    if k == "dup":
        return Dup()
    if k == "reverse":
        return lena.flow.Reverse()
    if k == "countrun":
        return lena.flow.Count(s[1])
    if k == "end":
        return lena.flow.End()
    if k == "chunk":
        return lena.flow.RunningChunkBy(s[1])
    if k == "acc":
        return make_acc(s[1])
    raise ValueError(s)


def ref_el(s, xs):
    """reference semantics of one element on a list of values (returns a new list)"""
    k = s[0]
    if k in ("call", "callm"):
        f = FUNCS[s[1]]
        return [f(v) for v in xs]
    if k == "var":
        g = GETTERS[s[2]]
        out = []
        for v in xs:
            c = copy.deepcopy(C(v))
            c["variable"] = {"name": s[1]}
            out.append((g(D(v)), c))
        return out
    if k == "filter":
        p = PREDS[s[1]]
        return [v for v in xs if p(v)]
    if k == "filterint":
        return [v for v in xs if isinstance(D(v), int)]
    if k == "slice":
        return xs[slice(*s[1])]
    if k == "runif":
        p = PREDS[s[1]]
        out = []
        for v in xs:
            if p(v):
                out.extend(ref_seq(s[2], [v]))
            else:
                out.append(v)
        return out
    if k == "dup":
        return ref_dup(xs)
    if k == "reverse":
        return xs[::-1]
    if k == "countrun":
        if not xs:
            return []
        c = copy.deepcopy(C(xs[-1]))
        c[s[1]] = len(xs)
        return xs[:-1] + [(D(xs[-1]), c)]
    if k == "end":
        return []
    if k == "chunk":
        n = s[1]
        return [tuple(xs[j:j + n]) for j in range(len(xs) - n + 1)]
    if k == "acc":
        return direct_acc(s[1], xs)
    raise ValueError(s)


def ref_seq(specs, xs):
    for s in specs:
        xs = ref_el(s, xs)
    return xs


def kind(s):
    k = s[0]
    if k == "slice":
        return "slice" if len(s[1]) < 3 or s[1][2] in (None, 1) else "slice-step"
    if k == "runif":
        inner = sorted(set(kind(x) for x in s[2]))
        return "runif[%s]" % "+".join(inner)
    if k == "acc":
        return "acc:" + s[1][0]
    return k


# ---- accumulators -------------------------------------------------------------------------------------------

def make_acc(s):
    k = s[0]
    if k == "sum":
        return lena.math.Sum(*s[1:])
    if k == "dsum":
        return lena.math.DSum()
    if k == "mean":
        return lena.math.Mean(pass_on_empty=s[1])
    if k == "var":
        return lena.math.VarianceMeanCount(corrected=False, pass_on_empty=True)
    if k == "store":
        return lena.flow.StoreFilled(yield_as_a_group=s[1])
    if k == "count":
        return FillCompute(lena.flow.Count())
    if k == "groupby":
        return lena.flow.GroupBy()
    if k == "hist":
        return lena.structures.Histogram([-10, 0, 2, 4, 50])
    if k == "fcnamed":     # an accumulator with unusual method names, through the FillCompute adapter
        return FillCompute(NamedAcc(), fill="put", compute="result")
    if k == "fcreq":       # fill/request element cast to FillCompute
        return FillCompute(ReqAcc())
    if k == "splitacc":    # a Split of fill/compute branches is itself a fill/compute element
        return Split([make_branch(b) for b in s[1]])
    raise ValueError(s)


def make_branch(b):
    """branch of an accumulator Split: [pre specs, acc spec]"""
    els = [make_el(x) for x in b[0]] + [make_acc(b[1])]
    return tuple(els) if len(els) > 1 else els[0]


class NamedAcc(object):
    def __init__(self):
        self.vals = []

    def put(self, v):
        self.vals.append(v)

    def result(self):
        yield ("named", list(self.vals))
        yield len(self.vals)


class ReqAcc(object):
    def __init__(self):
        self.vals = []

    def fill(self, v):
        self.vals.append(v)

    def request(self):
        yield ("req", list(self.vals))


def direct_acc(s, xs):
    """compute(fold(fill, fresh accumulator, xs)) - no driver, no adapter around the chain involved"""
    if s[0] == "splitacc":
        out = []
        for j, b in enumerate(s[1]):
            out.extend(direct_acc(b[1], ref_seq(b[0], copy.deepcopy(xs))))
        return out
    if s[0] == "count":
        acc = lena.flow.Count()
    elif s[0] == "fcnamed":
        acc = NamedAcc()
        for v in xs:
            acc.put(v)
        return list(acc.result())
    elif s[0] == "fcreq":
        acc = ReqAcc()
        for v in xs:
            acc.fill(v)
        return list(acc.request())
    else:
        acc = make_acc(s)
    for v in xs:
        acc.fill(v)
    return list(acc.compute())


# ---- normal form of results (type aware: 1, 1.0 and True differ) ----------------------------------------------

def norm(x):
    if isinstance(x, bool) or x is None or isinstance(x, (int, float, str)):
        return (type(x).__name__, x)
    if isinstance(x, tuple):
        return ("t", type(x).__name__, tuple(norm(y) for y in x))
    if isinstance(x, list):
        return ("l", tuple(norm(y) for y in x))
    if isinstance(x, dict):
        return ("d", tuple(sorted(((repr(k), norm(v)) for k, v in x.items()))))
    if isinstance(x, lena.structures.histogram):
        return ("hist", norm(x.edges), norm(x.bins), norm(getattr(x, "n_out_of_range", None)))
    return ("o", type(x).__name__, str(x))


WD = [2.0]          # watchdog seconds; a time-out is confirmed with a longer one before it is reported (loaded machine)


N_TIMEOUTS = [0]


class TooManyTimeouts(Exception):
    pass


def outcome(thunk):
    """run thunk (which builds everything afresh) under a watchdog; result list in normal form, or the class of the
    exception.  After 3 confirmed time-outs the tree evidently hangs: no more confirmation, 0.5 s; after 40 the run is
    abandoned (the failures found so far are kept, the evidence carries an error).  A result stream of more than 10000
    values (every reference result has fewer than 100) is an endless generator and counts as non-termination."""
    if N_TIMEOUTS[0] >= 40:
        raise TooManyTimeouts("more than 40 non-terminating driver runs; harness abandoned")
    for secs in ((WD[0], 6.0) if N_TIMEOUTS[0] < 3 else (0.5,)):
        try:
            with watchdog(secs):
                res = list(itertools.islice(iter(thunk()), 10001))
                if len(res) > 10000:
                    return ("TIMEOUT", "endless result stream")
                return ("ok", norm(res)[1])
        except Timeout:
            continue
        except LenaStopFill:
            return ("EXC", "LenaStopFill")
        except Exception as e:                      # the class of the exception is the observable result
            return ("EXC", type(e).__name__)
    N_TIMEOUTS[0] += 1
    return ("TIMEOUT",)


def confirmed(R, check, *args):
    """run an adapter check into a buffer; if it reports a time-out, repeat it once with a 10 s watchdog"""
    c = _Collect()
    check(c, *args)
    if any("TIMEOUT" in f[0] or "TIMEOUT" in f[1] for f in c.fails):
        WD[0] = 10.0
        try:
            c = _Collect()
            check(c, *args)
        finally:
            WD[0] = 2.0
    for f in c.fails:
        R.fail(*f)
    return not c.fails


# ---- the reference -------------------------------------------------------------------------------------------

def never_pulled(post):
    """the post-processing is lazy: behind a Slice with stop 0 nothing is ever pulled from the accumulator's compute()
    (unless a second accumulator, which run() drives eagerly, stands in between)"""
    for s in post:
        if s[0] == "acc":
            return False
        if s[0] == "slice" and slice(*s[1]).stop == 0:
            return True
    return False


def expected(chain, flow):
    pre, acc, post = chain

    def thunk():
        xs = ref_seq(pre, copy.deepcopy(flow))
        try:
            ys = direct_acc(acc, xs)
        except lena.core.LenaZeroDivisionError:
            # Mean of nothing raises when its result is pulled
            if not never_pulled(post):
                raise
            ys = []
        return ref_seq(post, ys)
    return outcome(thunk)


# ---- drivers -------------------------------------------------------------------------------------------------

class _Other(object):
    def __repr__(self):
        return "OTHER"


OTHER = _Other()


def build(chain):
    pre, acc, post = chain
    return [make_el(s) for s in pre], make_acc(acc), [make_el(s) for s in post]


def drv_run(chain, flow, as_list=False):
    pre, acc, post = build(chain)
    fl = copy.deepcopy(flow)
    return Sequence(*(pre + [acc] + post)).run(fl if as_list else iter(fl))


def drv_fcs(chain, flow):
    pre, acc, post = build(chain)
    fcs = FillComputeSeq(*(pre + [acc] + post))
    for v in copy.deepcopy(flow):
        try:
            fcs.fill(v)
        except LenaStopFill:
            break
    return fcs.compute()


def drv_fillseq(chain, flow, nest=None):
    pre, acc, post = build(chain)
    if nest is None or not pre:
        fs = FillSeq(*(pre + [acc]))
    else:
        k = nest % (len(pre) + 1)
        inner = FillSeq(*(pre[k:] + [acc]))
        fs = FillSeq(*(pre[:k] + [inner]))
    for v in copy.deepcopy(flow):
        try:
            fs.fill(v)
        except LenaStopFill:
            break
    return Sequence(*post).run(acc.compute())


def _inplace(v):
    """an element that updates the context of the value in place (nothing to update in a bare data value)"""
    if has_ctx(v):
        c = v[1]
        for x in list(c.values()):
            if isinstance(x, dict):
                x["leak"] = 1
            elif isinstance(x, list):
                x.append("leak")
        c["leak"] = c.get("leak", 0) + 1
    return v


def _other(v):
    return OTHER


MUTATING_STOPPING = ("fcmut", "fcvar", "frmut")
MUTATING = ("seqmut", "fcallmut", "frallmut")


def companion(kind_):
    """a tagged companion branch: everything it yields is the OTHER object.  "<kind>:<K>" kinds update every value
    they are given in place and stop on value #K (Slice(K) BEHIND the updating element)"""
    if kind_ == "fc":       # a fill/compute branch that stops after one value
        return (lena.flow.Slice(1), lena.flow.StoreFilled(), lambda v: OTHER)
    if kind_ == "fcall":    # a fill/compute branch that never stops
        return (lena.math.Sum(), lambda v: OTHER)
    if kind_ == "seq":      # a Sequence branch (run once per block)
        return (lambda v: OTHER,)
    if kind_ == "src":
        return Source(lena.flow.CountFrom(0), lena.flow.Slice(2), lambda v: OTHER)
    if kind_ == "seqmut":   # a Sequence branch that updates the values in place
        return (_inplace, _other)
    if kind_ == "fcallmut":  # a fill/compute branch that updates the values in place and never stops
        return (_inplace, lena.variables.Variable("comp", lambda d: d), lena.flow.StoreFilled(), _other)
    if kind_ == "frallmut":  # a fill/request branch that updates the values in place and never stops
        return lena.core.FillRequestSeq(
            _inplace, lena.core.FillRequest(lena.flow.StoreFilled(), reset=True, buffer_input=True), _other,
            reset=False, buffer_input=True)
    name, _, k = kind_.partition(":")
    if name == "fcmut":
        return (_inplace, lena.flow.Slice(int(k)), lena.flow.StoreFilled(), _other)
    if name == "fcvar":     # the framework's own in-place update: Variable writes into the context of the value
        return (lena.variables.Variable("comp", lambda d: d), lena.flow.Slice(int(k)), lena.math.Sum(), _other)
    if name == "frmut":
        return lena.core.FillRequestSeq(
            _inplace, lena.flow.Slice(int(k)),
            lena.core.FillRequest(lena.flow.StoreFilled(), reset=True, buffer_input=True), _other,
            reset=False, buffer_input=True)
    raise ValueError(kind_)


def drv_split(chain, flow, bufsize, form="tuple", before=(), after=(), copy_buf=True):
    pre, acc, post = build(chain)
    els = pre + [acc] + post
    if form == "fcs":
        branch = FillComputeSeq(*els)
    elif form == "bare" and len(els) == 1:
        branch = els[0]
    else:
        branch = tuple(els)
    seqs = [companion(c) for c in before] + [branch] + [companion(c) for c in after]
    sp = Split(seqs, bufsize=bufsize, copy_buf=copy_buf)
    res = sp.run(iter(copy.deepcopy(flow)))
    if before or after:
        return [r for r in res if r is not OTHER]
    return res


def run_driver(d, chain, flow):
    """d is a JSON list naming the driver and its configuration"""
    name = d[0]
    if name == "run":
        return outcome(lambda: drv_run(chain, flow, *d[1:]))
    if name == "fcs":
        return outcome(lambda: drv_fcs(chain, flow))
    if name == "fillseq":
        return outcome(lambda: drv_fillseq(chain, flow, *d[1:]))
    if name == "split":
        return outcome(lambda: drv_split(chain, flow, *d[1:]))
    raise ValueError(d)


DRIVER_NAME = {"run": "Sequence.run", "fcs": "FillComputeSeq", "fillseq": "FillSeq", "split": "Split.run"}


def driver_label(d):
    lab = DRIVER_NAME[d[0]]
    if d[0] == "split":
        form = d[2] if len(d) > 2 else "tuple"
        comp = list((len(d) > 3 and d[3]) or ()) + list((len(d) > 4 and d[4]) or ())
        names = set(c.partition(":")[0] for c in comp)
        # interference by a companion that changed its values in place (and stopped) is another defect than a
        # wrong treatment of the chain next to companions that leave the values alone
        lab += "(%s%s)" % (form, ",companions-updating-in-place-then-stopping" if names & set(MUTATING_STOPPING) else
                           ",companions-updating-in-place" if names & set(MUTATING) else
                           ",companions" if comp else "")
    if d[0] == "fillseq" and len(d) > 1 and d[1] is not None:
        lab += "(nested)"
    return lab


def disagrees(d, chain, flow):
    exp = expected(chain, flow)
    got = run_driver(d, chain, flow)
    return got != exp


def replay_driver(d, chain, flow):
    flow = [tuple(v) if isinstance(v, list) else v for v in flow]
    if d[0] == "split" and len(d) > 4:
        d = d[:3] + [tuple(d[3]), tuple(d[4])] + d[5:]
    return bool(disagrees(d, chain, flow))


def clause(exp, got):
    if got[0] == "TIMEOUT":
        return "non-termination"
    if got[0] == "EXC" and exp[0] == "ok":
        return "raises-" + got[1]
    if got[0] == "ok" and exp[0] == "EXC":
        return "no-exception-where-accumulator-raises"
    if got[0] == "EXC":
        return "other-exception"
    e, g = exp[1], got[1]
    if len(g) > len(e) and g[:len(e)] == e:
        return "extra-results"
    if len(g) < len(e) and e[:len(g)] == g:
        return "missing-results"
    if len(g) == len(e) and sorted(map(repr, g)) == sorted(map(repr, e)):
        return "results-reordered"
    return "result-differs"


class Shrinker(object):
    """greedy reduction of a failing (driver, chain, flow) so that one defect keeps one fid.  At most `budget`
    reductions are made per run; when the budget is used up (only on a badly broken tree) further failures of a kind
    not seen before are collected under the coarse fid <driver>/<clause>/unshrunk."""

    def __init__(self, budget):
        self.budget = budget
        self.cache = {}

    def shrink(self, d, chain, flow):
        if self.budget <= 0:
            return None
        self.budget -= 1
        pre, acc, post = chain
        changed = True
        steps = 0
        while changed and steps < 40:
            changed = False
            steps += 1
            cands = []
            for i in range(len(pre)):
                cands.append(((pre[:i] + pre[i + 1:], acc, post), flow))
                if pre[i][0] == "runif":
                    for j in range(len(pre[i][2])):
                        inner = pre[i][2][:j] + pre[i][2][j + 1:]
                        cands.append(((pre[:i] + [["runif", pre[i][1], inner]] + pre[i + 1:], acc, post), flow))
            for i in range(len(post)):
                cands.append(((pre, acc, post[:i] + post[i + 1:]), flow))
            if acc != ["store", False]:
                cands.append(((pre, ["store", False], post), flow))
            if acc[0] == "splitacc":
                brs = acc[1]
                for i in range(len(brs)):
                    if len(brs) > 1:
                        cands.append(((pre, ["splitacc", brs[:i] + brs[i + 1:]], post), flow))
                    for j in range(len(brs[i][0])):
                        b = [brs[i][0][:j] + brs[i][0][j + 1:], brs[i][1]]
                        cands.append(((pre, ["splitacc", brs[:i] + [b] + brs[i + 1:]], post), flow))
            if flow:
                cands.append(((pre, acc, post), flow[:-1]))
                cands.append(((pre, acc, post), flow[1:]))
            for ch, fl in cands:
                try:
                    bad = disagrees(d, ch, fl)
                except TooManyTimeouts:
                    raise
                except Exception:
                    bad = False
                if bad:
                    (pre, acc, post), flow = ch, fl
                    changed = True
                    break
        return (pre, acc, post), flow


def chain_fid(chain):
    pre, acc, post = chain
    p = "+".join(sorted(set(kind(s) for s in pre))) or "-"
    q = "+".join(sorted(set(kind(s) for s in post))) or "-"
    a = "any" if acc == ["store", False] else acc[0]
    if acc[0] == "splitacc":
        a += "[%s]" % "+".join(sorted(set(kind(x) for b in acc[1] for x in b[0])))
    return "pre=%s/acc=%s/post=%s" % (p, a, q)


def check_case(R, sh, chain, flow, drivers):
    """compare every driver with the reference; returns the number of driver executions"""
    exp = expected(chain, flow)
    for d in drivers:
        got = run_driver(d, chain, flow)
        if got != exp:
            raw = (driver_label(d), clause(exp, got), chain_fid(chain))
            fid = sh.cache.get(raw)
            mchain, mflow, mexp, mgot = chain, flow, exp, got
            if fid is None:
                small = sh.shrink(d, chain, flow)
                if small is None:
                    fid = "%s/%s/unshrunk" % raw[:2]
                else:
                    mchain, mflow = small
                    mexp = expected(mchain, mflow)
                    mgot = run_driver(d, mchain, mflow)
                    if mgot == mexp:    # not reproducible after shrinking (should not happen): keep the original
                        mchain, mflow, mexp, mgot = chain, flow, exp, got
                    fid = "%s/%s/%s" % (driver_label(d), clause(mexp, mgot), chain_fid(mchain))
                    sh.cache[raw] = fid
            R.fail(fid,
                   "driver %r on chain pre=%r acc=%r post=%r, flow %r: got %s, the property's reference gives %s"
                   % (d, mchain[0], mchain[1], mchain[2], mflow, show(mgot), show(mexp)),
                   {"driver": d, "chain": mchain, "flow": mflow, "got": show(mgot), "expected": show(mexp),
                    "found_on": {"chain": chain, "flow": flow}},
                   {"fn": "replay_driver", "args": [list(d), [list(mchain[0]), mchain[1], list(mchain[2])], mflow]})
    return len(drivers)


def show(o):
    s = repr(o)
    return s if len(s) < 400 else s[:400] + "..."


def split_drivers(L, forms=("tuple",), extra=()):
    ds = []
    for b in list(range(1, L + 2)) + [1000, None]:
        for f in forms:
            ds.append(["split", b, f])
    ds.extend(extra)
    return ds


def make_flow(kind_, L):
    if kind_ == "plain":
        return list(range(L))
    if kind_ == "ctx":
        return [(i, {"i": i}) for i in range(L)]
    if kind_ == "mixed":
        return [(i, {"i": i, "n": {"k": [i]}}) if i % 2 else i for i in range(L)]
    if kind_ == "nested":
        return [(i, {"i": i, "n": {"k": [i]}, "l": [i]}) for i in range(L)]
    raise ValueError(kind_)


# ---------------------------------------------------------------------------------------------------------------
# Part 2: adapters
# ---------------------------------------------------------------------------------------------------------------

NAMES = ["run", "fill", "compute", "request", "fill_into", "my"]
ABSENT, CALLABLE, NONCALL = 0, 1, 2


class Sink(object):
    def __init__(self):
        self.got = []

    def fill(self, v):
        self.got.append(v)


def _result(name, args, fills):
    """what the synthetic method `name` returns for `args` (fills: the arguments of the earlier fill calls)"""
    if name == "run" and len(args) == 1 and isinstance(args[0], list):
        return [("run", v, j) for v in args[0] for j in (0, 1)]
    if name in ("compute", "request") and not args:
        return [(name, tuple(fills))]
    return (name, args)


def _mk_method(name):
    def m(self, *args):
        fills = [a for (n, a) in self.log if n == "fill"]
        self.log.append((name, args))
        if name == "fill_into" and len(args) == 2 and hasattr(args[0], "fill"):
            args[0].fill(("fi", args[1]))
        return _result(name, args, fills)
    m.__name__ = name
    return m


_METHODS = dict((n, _mk_method(n)) for n in NAMES + ["__call__"])
_KIND_CACHE = {}


def _iter_method(self):
    self.log.append(("__iter__", ()))
    return iter([("it", 0), ("it", 1)])


def kind_class(st, has_call, cbf, has_iter):
    """st: tuple of statuses for NAMES; cbf in (None, True, False)"""
    key = (st, has_call, cbf, has_iter)
    c = _KIND_CACHE.get(key)
    if c is None:
        ns = {}
        for n, s in zip(NAMES, st):
            if s == CALLABLE:
                ns[n] = _METHODS[n]
            elif s == NONCALL:
                ns[n] = 5
        if has_call:
            ns["__call__"] = _METHODS["__call__"]
        if cbf is not None:
            ns["_can_break_flow"] = cbf
        if has_iter:
            ns["__iter__"] = _iter_method
            # a container-like element that is empty (falsy) when the adapter is built: no documented rule looks at the
            # truth value of an element
            ns["__len__"] = lambda self: 0
        ns["__init__"] = lambda self: setattr(self, "log", [])
        ns["__repr__"] = lambda self: "El%r" % (key,)
        c = type("El", (object,), ns)
        _KIND_CACHE[key] = c
    return c


def status(desc, name):
    st, has_call, cbf, has_iter = desc
    if name == "__call__":
        return CALLABLE if has_call else ABSENT
    if name in NAMES:
        return st[NAMES.index(name)]
    return ABSENT


def construct(thunk):
    try:
        with watchdog(WD[0]):
            return ("ok", thunk())
    except LenaTypeError:
        return ("LenaTypeError", None)
    except Timeout:
        return ("TIMEOUT", None)
    except Exception as e:
        return (type(e).__name__, None)


def probe(thunk):
    try:
        with watchdog(WD[0]):
            return ("ok", thunk())
    except Timeout:
        return ("TIMEOUT", None)
    except Exception as e:
        return ("EXC " + type(e).__name__, None)


def adapter_cases(desc):
    """yields (adapter, argument description, spec) where spec is None (LenaTypeError expected) or the name of the
    behaviour; everything derived from the documented rules, not from the code"""
    st, has_call, cbf, has_iter = desc
    is_c = lambda n: status(desc, n) == CALLABLE
    names = NAMES + ["__call__", "missing"]
    # Call: callable el / callable named method
    yield ("Call", None, "call:__call__" if has_call else None)
    for n in names:
        yield ("Call", n, ("call:" + n) if is_c(n) else None)
    # SourceEl: callable el, iterable el / callable named method
    yield ("SourceEl", None, "src:__call__" if has_call else ("src:iter" if has_iter else None))
    for n in names:
        yield ("SourceEl", n, ("src:" + n) if is_c(n) else None)
    # Run: run method; else callable; else fill/compute
    if is_c("run"):
        b = "run:run"
    elif has_call:
        b = "run:map"
    elif is_c("fill") and is_c("compute"):
        b = "run:fc"
    else:
        b = None
    yield ("Run", None, b)
    for n in names:
        yield ("Run", n, ("run:" + n) if is_c(n) else None)
    # FillInto: fill_into method; else callable; else run element with _can_break_flow (value not checked)
    if is_c("fill_into"):
        b = "fi:fill_into"
    elif has_call:
        b = "fi:@call"
    elif is_c("run") and cbf is not None:
        b = "fi:@run"
    else:
        b = None
    yield ("FillInto", None, b)
    for n in names:
        yield ("FillInto", n, ("fi:" + n) if is_c(n) else None)
    # FillCompute: callable fill and (callable compute, else callable request)
    for f in names:
        for c in names:
            if not is_c(f):
                b = None
            elif is_c(c):
                b = "fc:%s:%s" % (f, c)
            elif is_c("request"):
                b = "fc:%s:request" % f
            else:
                b = None
            yield ("FillCompute", [f, c], b)


ADAPTERS = {"Call": Call, "SourceEl": SourceEl, "Run": RunAdapter, "FillInto": FillInto, "FillCompute": FillCompute}
KW = {"Call": "call", "SourceEl": "call", "Run": "run", "FillInto": "fill_into"}


def build_adapter(adapter, arg, el):
    if adapter == "FillCompute":
        if arg == ["fill", "compute"]:
            # the defaults: also exercise the call without keyword arguments
            return FillCompute(el)
        return FillCompute(el, fill=arg[0], compute=arg[1])
    if arg is None:
        return ADAPTERS[adapter](el)
    return ADAPTERS[adapter](el, **{KW[adapter]: arg})


def check_behaviour(adapter, beh, ad, el):
    """returns None or a text; compares the call log and tagged results with the named method's own"""
    log = el.log
    if adapter == "Call":
        n = beh.split(":")[1]
        r = probe(lambda: ad(7))
        if r != ("ok", _result(n, (7,), [])) or log != [(n, (7,))]:
            return "Call()(7) returned %r, log %r; expected the result of %s(7) only" % (r, log, n)
    elif adapter == "SourceEl":
        n = beh.split(":")[1]
        if n == "iter":
            r = probe(lambda: list(ad()))
            if r != ("ok", [("it", 0), ("it", 1)]):
                return "SourceEl(iterable)() gave %r, expected the values of the iterable" % (r,)
        else:
            r = probe(lambda: ad())
            if r != ("ok", _result(n, (), [])) or log != [(n, ())]:
                return "SourceEl()() returned %r, log %r; expected the result of %s() only" % (r, log, n)
    elif adapter == "Run":
        n = beh.split(":")[1]
        if n == "map":
            r = probe(lambda: list(ad.run(iter([3, 0, 5]))))
            want = [("__call__", (3,)), ("__call__", (0,)), ("__call__", (5,))]
            if r != ("ok", want) or log != want:
                return "Run(callable).run([3,0,5]) gave %r, log %r" % (r, log)
        elif n == "fc":
            r = probe(lambda: list(ad.run(iter([3, 0, 5]))))
            want = _result("compute", (), [(3,), (0,), (5,)])
            wlog = [("fill", (3,)), ("fill", (0,)), ("fill", (5,)), ("compute", ())]
            if r != ("ok", want) or log != wlog:
                return "Run(fill/compute).run([3,0,5]) gave %r, log %r" % (r, log)
        else:
            fl = [3, 0, 5]
            r = probe(lambda: ad.run(fl))
            if r[0] != "ok" or log != [(n, (fl,))]:
                return "Run().run(flow): %r, log %r; expected exactly one call of %s(flow)" % (r[0], log, n)
            if r[1] != _result(n, (fl,), []):
                return "Run().run(flow) did not return the result of %s(flow)" % n
    elif adapter == "FillInto":
        n = beh.split(":")[1]
        sink = Sink()
        if n == "@call":
            r = probe(lambda: ad.fill_into(sink, 0))
            if r[0] != "ok" or sink.got != [("__call__", (0,))] or log != [("__call__", (0,))]:
                return "FillInto(callable).fill_into(sink, 0): %r, sink %r, log %r" % (r[0], sink.got, log)
        elif n == "@run":
            r = probe(lambda: ad.fill_into(sink, 0))
            if r[0] != "ok" or sink.got != [("run", 0, 0), ("run", 0, 1)] or len(log) != 1 or log[0][0] != "run" \
                    or list(log[0][1][0]) != [0]:
                return "FillInto(run element).fill_into(sink, 0): %r, sink %r, log %r" % (r[0], sink.got, log)
        else:
            r = probe(lambda: ad.fill_into(sink, 0))
            want_sink = [("fi", 0)] if n == "fill_into" else []
            if r[0] != "ok" or log != [(n, (sink, 0))] or sink.got != want_sink:
                return "FillInto().fill_into(sink, 0): %r, sink %r, log %r; expected exactly %s(sink, 0)" % (
                    r[0], sink.got, log, n)
    elif adapter == "FillCompute":
        _, f, c = beh.split(":")
        r1 = probe(lambda: ad.fill(0))
        r2 = probe(lambda: ad.fill(4))
        l1 = list(log)
        r3 = probe(lambda: ad.compute())
        if r1[0] != "ok" or r2[0] != "ok" or l1 != [(f, (0,)), (f, (4,))]:
            return "FillCompute().fill(0); fill(4): %r %r, log %r; expected exactly %s(0), %s(4)" % (r1[0], r2[0], l1, f, f)
        if r3 != ("ok", _result(c, (), [a for (n_, a) in l1 if n_ == "fill"])) or log[2:] != [(c, ())]:
            return "FillCompute().compute(): %r, log %r; expected exactly %s()" % (r3[0], log[2:], c)
    return None


def check_adapter_case(R, desc, adapter, arg, beh):
    cls = kind_class(*desc)
    el = cls()
    st, val = construct(lambda: build_adapter(adapter, arg, el))
    argtxt = "" if arg is None else repr(arg)
    wit = {"kind": [list(desc[0]), desc[1], desc[2], desc[3]], "adapter": adapter, "arg": arg}
    rp = {"fn": "replay_adapter", "args": [wit["kind"], adapter, arg]}
    mode = "sentinel" if arg is None else "named"
    if beh is None:
        if st != "LenaTypeError":
            R.fail("%s/%s/accepts-undocumented-kind" % (adapter, mode) if st == "ok"
                   else "%s/%s/wrong-exception-%s" % (adapter, mode, st),
                   "%s(%s, %s) with methods %s: %s, expected LenaTypeError" % (adapter, "el", argtxt, describe(desc), st),
                   wit, rp)
            return False
        return True
    if st != "ok":
        R.fail("%s/%s/rejects-documented-kind/%s" % (adapter, mode, beh.split(":", 1)[1] if arg is None else "name"),
               "%s(el, %s) with methods %s raised %s, expected to wrap %s" % (adapter, argtxt, describe(desc), st, beh),
               wit, rp)
        return False
    bad = check_behaviour(adapter, beh, val, el)
    if bad:
        what = beh.split(":", 1)[1] if arg is None else "name"
        R.fail("%s/%s/wrong-delegation/%s" % (adapter, mode, what),
               "%s(el, %s) with methods %s: %s" % (adapter, argtxt, describe(desc), bad), wit, rp)
        return False
    return True


def describe(desc):
    st, has_call, cbf, has_iter = desc
    parts = []
    for n, s in zip(NAMES, st):
        if s:
            parts.append(n if s == CALLABLE else n + "=5")
    if has_call:
        parts.append("__call__")
    if cbf is not None:
        parts.append("_can_break_flow=%r" % cbf)
    if has_iter:
        parts.append("__iter__")
    return "{" + ", ".join(parts) + "}"


def replay_adapter(kind_, adapter, arg):
    desc = (tuple(kind_[0]), kind_[1], kind_[2], kind_[3])
    for a, g, beh in adapter_cases(desc):
        if a == adapter and g == arg:
            probe_R = _Collect()
            check_adapter_case(probe_R, desc, a, g, beh)
            return bool(probe_R.fails)
    return False


class _Collect(object):
    def __init__(self):
        self.fails = []

    def fail(self, fid, what, witness=None, replay=None):
        self.fails.append((fid, what, witness, replay))

    def check(self, cond, fid, what, witness=None, replay=None):
        if not cond:
            self.fail(fid, what, witness, replay)
        return cond


# ---- implicit conversions by the sequences (same table) ---------------------------------------------------------

def seq_cases(desc):
    is_c = lambda n: status(desc, n) == CALLABLE
    has_call = desc[1]
    cbf = desc[2]
    runable = is_c("run") or has_call or (is_c("fill") and is_c("compute"))
    fillintoable = is_c("fill_into") or has_call or (is_c("run") and cbf is not None)
    is_fc = is_c("fill") and is_c("compute")
    yield ("Sequence(el)", runable)
    yield ("FillSeq(el)", is_c("fill"))
    yield ("FillSeq(el, sink)", fillintoable)
    yield ("FillComputeSeq(el)", is_fc)
    # an fc element in front takes the accumulator role and Sum() becomes a post element
    yield ("FillComputeSeq(el, Sum())", True if is_fc else fillintoable)
    yield ("FillComputeSeq(Sum(), el)", runable)


def build_seq(form, el):
    if form == "Sequence(el)":
        return Sequence(el)
    if form == "FillSeq(el)":
        return FillSeq(el)
    if form == "FillSeq(el, sink)":
        return FillSeq(el, Sink())
    if form == "FillComputeSeq(el)":
        return FillComputeSeq(el)
    if form == "FillComputeSeq(el, Sum())":
        return FillComputeSeq(el, lena.math.Sum())
    if form == "FillComputeSeq(Sum(), el)":
        return FillComputeSeq(lena.math.Sum(), el)
    raise ValueError(form)


def check_seq_case(R, desc, form, accept):
    el = kind_class(*desc)()
    st, val = construct(lambda: build_seq(form, el))
    wit = {"kind": [list(desc[0]), desc[1], desc[2], desc[3]], "form": form}
    rp = {"fn": "replay_seq", "args": [wit["kind"], form]}
    name = form.split("(")[0]
    if accept and st != "ok":
        R.fail("%s/rejects-convertible-element/%s" % (name, form),
               "%s with el methods %s raised %s" % (form, describe(desc), st), wit, rp)
        return False
    if not accept and st != "LenaTypeError":
        R.fail("%s/accepts-inconvertible-element/%s" % (name, form) if st == "ok" else
               "%s/wrong-exception-%s/%s" % (name, st, form),
               "%s with el methods %s: %s, expected LenaTypeError" % (form, describe(desc), st), wit, rp)
        return False
    return True


def replay_seq(kind_, form):
    desc = (tuple(kind_[0]), kind_[1], kind_[2], kind_[3])
    for f, acc in seq_cases(desc):
        if f == form:
            c = _Collect()
            check_seq_case(c, desc, f, acc)
            return bool(c.fails)
    return False


# ---- real framework elements through the adapters -------------------------------------------------------------

REAL = {
    "lambda": lambda: FUNCS["inc"],
    "Variable": lambda: lena.variables.Variable("x", GETTERS["dbl"]),
    "Filter": lambda: lena.flow.Filter(PREDS["even"]),
    "Slice": lambda: lena.flow.Slice(1, 3),
    "RunIf": lambda: lena.flow.RunIf(PREDS["gt1"], FUNCS["dbl"], Dup()),
    "Count": lambda: lena.flow.Count("c"),
    "Sum": lambda: lena.math.Sum(),
    "Mean": lambda: lena.math.Mean(pass_on_empty=True),
    "StoreFilled": lambda: lena.flow.StoreFilled(),
    "Reverse": lambda: lena.flow.Reverse(),
    "End": lambda: lena.flow.End(),
    "Sequence": lambda: Sequence(FUNCS["inc"], lena.flow.Filter(PREDS["even"])),
    "FillComputeSeq": lambda: FillComputeSeq(FUNCS["inc"], lena.math.Sum(), FUNCS["wrap"]),
    "FillSeq": lambda: FillSeq(FUNCS["inc"], lena.flow.StoreFilled()),
    "Source": lambda: Source(lena.flow.CountFrom(5), lena.flow.Slice(3)),
    "CountFrom": lambda: lena.flow.CountFrom(2),
    "Chain": lambda: lena.flow.Chain([1, 2], [3]),
    "list": lambda: [4, 0, 6],
    "range": lambda: range(3),
    "int": lambda: 5,
    "None": lambda: None,
    "object": lambda: object(),
    "dict": lambda: {"a": 1},
}
REAL_FLOW = [0, 1, 2, 3, 4]


def real_expect(name, adapter):
    """(accepted?, thunk computing the expected observable with the wrapped element's own method)"""
    el = REAL[name]()
    has = lambda n: callable(getattr(el, n, None))
    if adapter == "Call":
        if not callable(el) or name in ("Source", "CountFrom", "Chain"):
            return (callable(el), None)
        return (True, lambda: norm([el(v) for v in copy.deepcopy(REAL_FLOW)]))
    if adapter == "SourceEl":
        if callable(el):
            if name in ("Source", "CountFrom", "Chain"):
                return (True, lambda: norm(list(itertools.islice(el(), 4))))
            return (True, None)
        if hasattr(el, "__iter__"):
            if name in ("list", "range", "dict"):
                return (True, lambda: norm(list(itertools.islice(iter(el), 4))))
            return (True, None)
        return (False, None)
    if adapter == "Run":
        if has("run"):
            return (True, lambda: norm(list(el.run(iter(copy.deepcopy(REAL_FLOW))))))
        if callable(el):
            if name in ("Source", "CountFrom", "Chain"):
                return (True, None)
            return (True, lambda: norm([el(v) for v in copy.deepcopy(REAL_FLOW)]))
        if has("fill") and has("compute"):
            def t():
                for v in copy.deepcopy(REAL_FLOW):
                    el.fill(v)
                return norm(list(el.compute()))
            return (True, t)
        return (False, None)
    if adapter == "FillInto":
        if has("fill_into"):
            def t():
                s = Sink()
                for v in copy.deepcopy(REAL_FLOW):
                    try:
                        el.fill_into(s, v)
                    except LenaStopFill:
                        s.got.append("STOP")
                        break
                return norm(s.got)
            return (True, t)
        if callable(el):
            if name in ("Source", "CountFrom", "Chain"):
                return (True, None)
            return (True, lambda: norm([el(v) for v in copy.deepcopy(REAL_FLOW)]))
        if has("run") and hasattr(el, "_can_break_flow"):
            return (True, lambda: norm([r for v in copy.deepcopy(REAL_FLOW) for r in el.run([v])]))
        return (False, None)
    if adapter == "FillCompute":
        if has("fill") and (has("compute") or has("request")):
            def t():
                for v in copy.deepcopy(REAL_FLOW):
                    el.fill(v)
                return norm(list(el.compute() if has("compute") else el.request()))
            return (True, t)
        return (False, None)
    raise ValueError(adapter)


def real_observe(name, adapter):
    el = REAL[name]()
    ad = ADAPTERS[adapter](el)
    if adapter == "Call":
        return norm([ad(v) for v in copy.deepcopy(REAL_FLOW)])
    if adapter == "SourceEl":
        return norm(list(itertools.islice(ad(), 4)))
    if adapter == "Run":
        return norm(list(ad.run(iter(copy.deepcopy(REAL_FLOW)))))
    if adapter == "FillInto":
        s = Sink()
        for v in copy.deepcopy(REAL_FLOW):
            try:
                ad.fill_into(s, v)
            except LenaStopFill:
                s.got.append("STOP")
                break
        return norm(s.got)
    if adapter == "FillCompute":
        for v in copy.deepcopy(REAL_FLOW):
            ad.fill(v)
        return norm(list(ad.compute()))


def check_real(R, name, adapter):
    accept, thunk = real_expect(name, adapter)
    st, _ = construct(lambda: ADAPTERS[adapter](REAL[name]()))
    rp = {"fn": "replay_real", "args": [name, adapter]}
    if not accept:
        if st != "LenaTypeError":
            R.fail("%s/real-element/accepts-undocumented-kind" % adapter if st == "ok" else
                   "%s/real-element/wrong-exception-%s" % (adapter, st),
                   "%s(%s): %s, expected LenaTypeError" % (adapter, name, st), {"element": name, "adapter": adapter}, rp)
            return False
        return True
    if st != "ok":
        R.fail("%s/real-element/rejects-documented-kind" % adapter,
               "%s(%s) raised %s" % (adapter, name, st), {"element": name, "adapter": adapter}, rp)
        return False
    if thunk is None:
        return True
    exp = probe(thunk)
    got = probe(lambda: real_observe(name, adapter))
    if exp != got:
        R.fail("%s/real-element/wrong-delegation" % adapter,
               "%s(%s) over %r: %s, the wrapped method itself gives %s" % (adapter, name, REAL_FLOW, show(got), show(exp)),
               {"element": name, "adapter": adapter}, rp)
        return False
    return True


def replay_real(name, adapter):
    c = _Collect()
    check_real(c, name, adapter)
    return bool(c.fails)


# ---------------------------------------------------------------------------------------------------------------
# vocabularies
# ---------------------------------------------------------------------------------------------------------------

PRE_SMALL = [
    ["call", "inc"], ["call", "dbl"],
    ["var", "v", "dbl"],
    ["filter", "even"], ["filter", "none"], ["filter", "truthy"], ["filter", "ctx"],
    ["slice", [2]], ["slice", [1, 3]], ["slice", [0, 5, 2]], ["slice", [0]], ["slice", [1, None, 3]],
    ["runif", "gt1", [["call", "dbl"]]],
    ["runif", "even", [["dup"]]],
]
PRE_MORE = [
    ["call", "sq3"], ["callm", "inc"], ["var", "w", "neg"],
    ["filter", "odd"], ["filter", "all"], ["filter", "gt1"], ["filterint"],
    ["slice", [3]], ["slice", [2, 2]], ["slice", [1, 4, 2]], ["slice", [None, None, 2]], ["slice", [4, 1]],
    ["slice", [1]], ["slice", [None]], ["slice", [0, 1]],
    ["runif", "odd", [["filter", "gt1"]]],
    ["runif", "lt3", [["dup"], ["slice", [1, 2]]]],
    ["runif", "all", []],
    ["runif", "even", [["var", "r", "inc"], ["dup"]]],
]
ACC_SMALL = [["sum"], ["store", False], ["count"], ["mean", True]]
ACC_MORE = [["store", True], ["mean", False], ["sum", 10], ["dsum"], ["var"], ["groupby"], ["hist"], ["fcnamed"],
            ["fcreq"], ["splitacc", [[[], ["sum"]], [[["call", "inc"], ["filter", "even"]], ["store", False]]]],
            ["splitacc", [[[["filter", "odd"]], ["store", True]]]]]
POST_SMALL = [[], [["call", "wrap"]], [["slice", [1, None]]], [["countrun", "n"]]]
POST_MORE = [[["reverse"]], [["slice", [-1]]], [["slice", [-2, None]]], [["slice", [0, None, 2]]], [["filter", "ctx"]],
             [["acc", ["store", True]]], [["end"]], [["chunk", 2]], [["dup"]], [["var", "p", "box"]],
             [["runif", "ctx", [["call", "wrap"]]]], [["call", "wrap"], ["reverse"], ["slice", [1]]],
             [["acc", ["store", False]], ["call", "wrap"]]]


def rand_slice(rng):
    form = rng.randrange(4)
    a = rng.choice([None, 0, 0, 1, 2, 3, 5])
    b = rng.choice([None, 0, 1, 2, 3, 4, 6, 9])
    c = rng.choice([None, 1, 2, 3, 4])
    if form == 0:
        return ["slice", [b]]
    if form == 1:
        return ["slice", [a, b]]
    return ["slice", [a, b, c]]


def rand_inner(rng):
    n = rng.choice([0, 1, 1, 2, 3])
    out = []
    for _ in range(n):
        t = rng.randrange(6)
        if t == 0:
            out.append(["call", rng.choice(["inc", "dbl", "sq3"])])
        elif t == 1:
            out.append(["dup"])
        elif t == 2:
            out.append(["filter", rng.choice(["even", "odd", "gt1", "none", "truthy"])])
        elif t == 3:
            out.append(["slice", rng.choice([[1], [1, 2], [0], [0, 2], [0, None, 2]])])
        elif t == 4:
            out.append(["var", rng.choice(["a", "b"]), rng.choice(["inc", "dbl", "neg"])])
        else:
            out.append(["callm", "dbl"])
    return out


def rand_pre(rng):
    t = rng.randrange(7)
    if t == 0:
        return ["call", rng.choice(["inc", "dbl", "sq3"])]
    if t == 1:
        return ["var", rng.choice(["x", "y"]), rng.choice(["inc", "dbl", "neg"])]
    if t == 2:
        return ["filter", rng.choice(["even", "odd", "none", "all", "gt1", "lt3", "truthy", "ctx"])]
    if t == 3 or t == 4:
        return rand_slice(rng)
    if t == 5:
        return ["runif", rng.choice(["even", "odd", "gt1", "lt3", "all", "none", "truthy", "ctx"]), rand_inner(rng)]
    return rng.choice([["callm", "inc"], ["filterint"]])


def rand_acc(rng):
    t = rng.randrange(12)
    if t < 8:
        return rng.choice(ACC_SMALL + ACC_MORE[:9])
    branches = []
    for _ in range(rng.choice([1, 2, 3])):
        # no Slice inside the accumulator: Split.fill does not handle LenaStopFill of its own branches (C03's subject)
        pre = [p for p in (rand_pre(rng) for _ in range(rng.choice([0, 1, 2]))) if p[0] != "slice"]
        branches.append([pre, rng.choice([["sum"], ["store", False], ["store", True], ["count"], ["mean", True]])])
    return ["splitacc", branches]


def rand_post(rng):
    n = rng.choice([0, 1, 1, 2, 3])
    out = []
    for _ in range(n):
        t = rng.randrange(10)
        if t == 0:
            out.append(["call", "wrap"])
        elif t == 1:
            out.append(["slice", rng.choice([[1], [1, None], [-1], [-2, None], [0, None, 2], [1, -1], [None, None, 3],
                                             [-3, -1], [2], [0]])])
        elif t == 2:
            out.append(["filter", rng.choice(["ctx", "all", "none"])])
        elif t == 3:
            out.append(["reverse"])
        elif t == 4:
            out.append(["countrun", rng.choice(["n", "m"])])
        elif t == 5:
            out.append(["acc", ["store", rng.choice([True, False])]])
        elif t == 6:
            out.append(["dup"])
        elif t == 7:
            out.append(["chunk", rng.choice([1, 2])])
        elif t == 8:
            out.append(["var", "p", "box"])
        else:
            out.append(["runif", "ctx", [["call", "wrap"]]])
    return out


def rand_flow(rng, maxlen):
    L = rng.randint(0, maxlen)
    mode = rng.randrange(4)
    vals = list(range(L))
    if rng.random() < 0.4:
        rng.shuffle(vals)
    out = []
    for j, d in enumerate(vals):
        if mode == 0:
            out.append(d)
        elif mode == 1:
            out.append((d, {"i": j}))
        elif mode == 2:
            out.append((d, {"i": j, "n": {"k": [j]}}) if rng.random() < 0.5 else d)
        else:
            out.append((d, {}) if rng.random() < 0.3 else (d, {"variable": {"name": "old"}, "i": j}))
    return out


# ---------------------------------------------------------------------------------------------------------------

def body(R):
    rng = R.rng
    sh = Shrinker(150)
    thorough = R.thorough

    # ---- scope 1: exhaustive small chains, all drivers, all bufsizes -------------------------------------------
    pre_vocab = PRE_SMALL + (PRE_MORE if thorough else [])
    accs = ACC_SMALL + (ACC_MORE if thorough else [["store", True], ["hist"]])
    posts = POST_SMALL if not thorough else POST_SMALL + POST_MORE[:4]
    maxL = 5
    flows1 = [("plain", L) for L in range(maxL + 1)] + [("ctx", 3), ("mixed", 4)]
    R.scope("drivers: Sequence.run / Split.run / FillComputeSeq / FillSeq on pre* acc post*",
            "all chains with <= 1 pre element from %d pre kinds x %d accumulators x %d post lists; flows range(L), "
            "L = 0..%d, plus one (data, context) flow and one mixed flow; Split bufsize in {1..L+1, 1000, None}, chain given "
            "as tuple / FillComputeSeq / bare accumulator; FillSeq flat and nested; reference = direct fill of "
            "xs[slice]/filter/map lists" % (len(pre_vocab), len(accs), len(posts), maxL), True)
    n_exec = 0
    for npre in (0, 1):
        for pres in itertools.product(pre_vocab, repeat=npre):
            for acc in accs:
                for post in posts:
                    chain = (list(pres), acc, post)
                    for fk, L in flows1:
                        flow = make_flow(fk, L)
                        forms = ("tuple", "fcs") + (("bare",) if not pres and not post else ())
                        drivers = [["run"], ["run", True], ["fcs"], ["fillseq"], ["fillseq", 1]] + split_drivers(L, forms)
                        R.case(True, {"chain": chain, "flow": flow})
                        n_exec += check_case(R, sh, chain, flow, drivers)

    # ---- scope 2: exhaustive pairs of pre elements ----------------------------------------------------------------
    pre2 = PRE_SMALL if not thorough else PRE_SMALL + PRE_MORE
    accs2 = [["store", False], ["sum"]] if not thorough else [["store", False], ["sum"], ["count"], ["mean", True]]
    posts2 = [[]] if not thorough else [[], [["call", "wrap"]]]
    flows2 = [("plain", L) for L in ((0, 1, 3, 5) if not thorough else range(0, 7))] + [("mixed", 4)]
    R.scope("drivers: ordered pairs of pre elements",
            "all ordered pairs from %d pre kinds (callable, Variable, Filter, Slice(start,stop,step), RunIf) x %d "
            "accumulators x %d post lists; flows range(L) for L in %s and one mixed flow of 4; Split bufsize in "
            "{1..L+1, 1000, None}" % (len(pre2), len(accs2), len(posts2), [L for (_, L) in flows2[:-1]]), True)
    for pres in itertools.product(pre2, repeat=2):
        for acc in accs2:
            for post in posts2:
                chain = (list(pres), acc, post)
                for fk, L in flows2:
                    flow = make_flow(fk, L)
                    drivers = [["run"], ["fcs"], ["fillseq", 1]] + split_drivers(L)
                    R.case(True)
                    n_exec += check_case(R, sh, chain, flow, drivers)

    # ---- scope 2b (thorough): exhaustive triples of pre elements ------------------------------------------------------
    if thorough:
        flows2b = [("plain", 0), ("plain", 2), ("plain", 6), ("mixed", 5)]
        R.scope("drivers: ordered triples of pre elements",
                "all ordered triples from %d pre kinds x accumulators {StoreFilled, Sum} x no post; flows range(L) for L "
                "in (0, 2, 6) and one mixed flow of 5; Split bufsize in {1..L+1, 1000, None}" % len(PRE_SMALL), True)
        for pres in itertools.product(PRE_SMALL, repeat=3):
            for acc in (["store", False], ["sum"]):
                chain = (list(pres), acc, [])
                for fk, L in flows2b:
                    flow = make_flow(fk, L)
                    drivers = [["run"], ["fcs"], ["fillseq", 2]] + split_drivers(L)
                    R.case(True)
                    n_exec += check_case(R, sh, chain, flow, drivers)

    # ---- scope 2c: the chain as a Split branch next to branches that update their values in place and stop --------------
    # "a branch of a Split with any bufsize": what another branch did to ITS copy of a block before it stopped (value
    # #K and the values before it were updated in place when the Slice(K) behind the updating element raises
    # LenaStopFill) must not reach the chain, wherever the stopping branch stands, for every K and every bufsize.
    pre2c_quick = [["call", "inc"], ["var", "v", "dbl"], ["filter", "even"], ["slice", [2]], ["slice", [1, 3]],
                   ["runif", "even", [["dup"]]]]
    pre2c = [[]] + [[p_] for p_ in (pre2c_quick if not thorough else PRE_SMALL)]
    accs2c = [["store", False], ["sum"]]
    chains2c = [(list(pres), acc, []) for pres in pre2c for acc in accs2c]
    if thorough:
        chains2c += [([], acc, []) for acc in (["count"], ["mean", True], ["hist"])]
        chains2c += [([p_], ["store", False], []) for p_ in PRE_MORE]
    maxL2c = 5
    flows2c = [("nested", L) for L in range(0, maxL2c + 1)] + [("mixed", 4)]
    stop_types = ["fcmut", "frmut"] + (["fcvar"] if thorough else [])
    # (before, after) around the chain; "@" is the stopping companion
    layouts = [(("@",), ()), (("@",), ("fcallmut",)), (("seqmut", "@"), ()), ((), ("@",))]
    if thorough:
        layouts += [(("frallmut", "@"), ("fc",)), (("@", "src"), ("seq", "fcallmut"))]
    R.scope("drivers: the chain as a Split branch next to branches that update values in place and then stop",
            "%d chains: <= 1 pre element from %d pre kinds x %d accumulators%s, no post; flows of (data, nested "
            "context) values of length L = 0..%d and one mixed flow of 4; a companion branch (in-place update, Slice(K), "
            "accumulator) of kind %r for every K in 0..L (K = L: it never stops) in the layouts %r (@ = the stopping "
            "companion, fcallmut / frallmut / seqmut = never-stopping fill-compute / fill-request / Sequence branches "
            "that update in place); Split bufsize in {1..L+1, None}; copy_buf=True"
            % (len(chains2c), len(pre2c) - 1, len(accs2c),
               " plus Count / Mean / Histogram without pre element and %d more pre kinds with StoreFilled" % len(PRE_MORE)
               if thorough else "", maxL2c, stop_types,
               layouts), True)
    for chain in chains2c:
        for fk, L in flows2c:
            flow = make_flow(fk, L)
            drivers = []
            for K in range(L + 1):
                for t in stop_types:
                    st = "%s:%d" % (t, K)
                    for before, after in layouts:
                        bf = tuple(st if c == "@" else c for c in before)
                        af = tuple(st if c == "@" else c for c in after)
                        for b in list(range(1, L + 2)) + [None]:
                            drivers.append(["split", b, "tuple", bf, af, True])
            R.case(True, {"chain": chain, "flow": flow, "drivers": len(drivers)})
            n_exec += check_case(R, sh, chain, flow, drivers)

    # ---- scope 3: random chains ------------------------------------------------------------------------------------
    n3 = 40000 if thorough else 2500
    R.scope("drivers: random chains, companions in the Split",
            "%d random chains: 0..4 pre elements (random Slice(start<=5, stop<=9, step<=4), Filter over 8 predicates, "
            "RunIf with 0..3 inner elements, Variable, callables, Call(el, call=name)), any of %d accumulator kinds "
            "incl. Split-of-accumulators, 0..3 post elements (negative Slice, Reverse, Count, second accumulator, End, "
            "RunningChunkBy, ...); flows of length 0..8 with/without/mixed contexts; Split bufsize from {1..L+1, 1000, "
            "None}, chain first/middle/last among source / fill-compute / sequence companions, copy_buf on/off; "
            "with copy_buf on also (thorough: for every second chain) among 0..5 companions that update their values in place (fill-compute / fill-request "
            "/ Sequence branches, with a Slice(K <= L) behind the updating element or never stopping)"
            % (n3, len(ACC_SMALL) + len(ACC_MORE)), False)
    comps = ["fc", "fcall", "seq", "src"]
    for i3 in range(n3):
        pre = [rand_pre(rng) for _ in range(rng.choice([0, 1, 2, 2, 3, 3, 4]))]
        chain = (pre, rand_acc(rng), rand_post(rng))
        flow = rand_flow(rng, 8)
        L = len(flow)
        drivers = [["run"], ["fcs"], ["fillseq", rng.randrange(5)]]
        bs = list(range(1, L + 2)) + [1000, None]
        for b in rng.sample(bs, min(3, len(bs))):
            drivers.append(["split", b, rng.choice(["tuple", "fcs"])])
        for _k in range(2):
            before = tuple(rng.choice(comps) for _ in range(rng.choice([0, 1, 2])))
            after = tuple(rng.choice(comps) for _ in range(rng.choice([0, 1, 2])))
            drivers.append(["split", rng.choice(bs), rng.choice(["tuple", "fcs"]), before, after, rng.random() < 0.8])
        # companions that update their values in place (only meaningful with copy_buf=True)
        for _k in range(1 if (not thorough or i3 % 2 == 0) else 0):
            mcomps = comps + ["seqmut", "fcallmut", "frallmut"] + \
                ["%s:%d" % (t, rng.randint(0, L)) for t in MUTATING_STOPPING for _ in range(2)]
            before = tuple(rng.choice(mcomps) for _ in range(rng.choice([0, 1, 1, 2, 3])))
            after = tuple(rng.choice(mcomps) for _ in range(rng.choice([0, 1, 2])))
            drivers.append(["split", rng.choice(bs), rng.choice(["tuple", "fcs"]), before, after, True])
        R.case(True, {"chain": chain, "flow": flow})
        n_exec += check_case(R, sh, chain, flow, drivers)

    # ---- scope 4: adapters on synthetic element kinds -------------------------------------------------------------
    if thorough:
        sts = list(itertools.product((ABSENT, CALLABLE, NONCALL), repeat=len(NAMES)))
        bound = "every combination of {absent, callable, present-but-not-callable} for the 6 method names"
    else:
        sts = [s for s in itertools.product((ABSENT, CALLABLE, NONCALL), repeat=len(NAMES)) if s.count(NONCALL) <= 1]
        bound = ("every combination of {absent, callable} for the 6 method names, with at most one of them "
                 "present-but-not-callable")
    R.scope("adapters: Call / Run / FillInto / FillCompute / SourceEl on synthetic elements",
            "%s %s x __call__ {absent, present} x _can_break_flow {absent, True, False} x __iter__ {absent, present}; each "
            "adapter without a method name and with every name in %s (FillCompute: every fill x compute pair%s); "
            "accepted iff documented, call log and tagged results equal the named method's, LenaTypeError otherwise"
            % (bound, tuple(NAMES), tuple(NAMES + ["__call__", "missing"]), "" if thorough else
               " on a third of the kinds, default names on all"), True)
    for i, st in enumerate(sts):
        for has_call in (False, True):
            for cbf in (None, True, False):
                for has_iter in (False, True):
                    desc = (st, has_call, cbf, has_iter)
                    full_fc = thorough or (i % 3 == 0 and cbf is None and not has_iter)
                    for adapter, arg, beh in adapter_cases(desc):
                        if adapter == "FillCompute" and not full_fc and arg != ["fill", "compute"] \
                                and not (arg[0] == "my" and arg[1] == "request"):
                            continue
                        R.case(True, {"kind": describe(desc), "adapter": adapter, "arg": arg} if i == 1 else None)
                        confirmed(R, check_adapter_case, desc, adapter, arg, beh)

    # ---- scope 5: implicit conversions by the sequences --------------------------------------------------------------
    sts5 = sts if thorough else [s for s in sts if s[3] == ABSENT and s[5] == ABSENT]
    R.scope("implicit conversions: Sequence / FillSeq / FillComputeSeq constructors on synthetic elements",
            "%d method-status combinations x __call__ x _can_break_flow {absent, True, False}; 6 constructor forms; "
            "accepted iff the element is convertible by the documented adapter rule, LenaTypeError otherwise"
            % len(sts5), True)
    for st in sts5:
        for has_call in (False, True):
            for cbf in (None, True, False):
                desc = (st, has_call, cbf, False)
                for form, accept in seq_cases(desc):
                    R.case(True)
                    confirmed(R, check_seq_case, desc, form, accept)

    # ---- scope 6: real framework elements ---------------------------------------------------------------------------
    R.scope("adapters on real framework elements",
            "%d elements (lambda, Variable, Filter, Slice, RunIf, Count, Sum, Mean, StoreFilled, Reverse, End, Sequence, "
            "FillComputeSeq, FillSeq, Source, CountFrom, Chain, list, range, 5, None, object(), dict) x 5 adapters without "
            "method name: accepted iff documented kind; result over the flow [0..4] equals the wrapped method's own"
            % len(REAL), True)
    for name in sorted(REAL):
        for adapter in sorted(ADAPTERS):
            R.case(True)
            confirmed(R, check_real, name, adapter)
    # Run(None, run=f): the generator function itself is the run method
    R.case(True)
    g = lambda flow: (("g", v) for v in flow)
    st, ad = construct(lambda: RunAdapter(None, run=g))
    R.check(st == "ok" and list(ad.run([1, 0])) == [("g", 1), ("g", 0)], "Run/named/none-element-function",
            "Run(None, run=f).run([1, 0]) is not f([1, 0]) (%s)" % st, {}, {"fn": "replay_run_none", "args": []})


def replay_run_none():
    g = lambda flow: (("g", v) for v in flow)
    st, ad = construct(lambda: RunAdapter(None, run=g))
    return not (st == "ok" and list(ad.run([1, 0])) == [("g", 1), ("g", 0)])


if __name__ == "__main__":
    R = Run(PROP, {"replay_driver": replay_driver, "replay_adapter": replay_adapter, "replay_seq": replay_seq,
                   "replay_real": replay_real, "replay_run_none": replay_run_none})
    sys.exit(R.main(body,
                    "a driver case is one (chain, flow) pair on which every listed driver was executed on freshly built real "
                    "elements and compared with the list reference; an adapter case is one (element kind, adapter, method "
                    "name) construction with its delegation probe; enumeration without repetition, random cases from R.rng"))
