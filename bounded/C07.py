"""C07 bounded stand-in: the REAL lena.context.{intersection, difference, update_recursively, update_nested} and their
users (LenaSplit._get_context, Zip._create_context, group_plots, MapGroup/_update_with_group) against references
written from the property text:

  contained(a, b, L)   a is contained in b (every item of a is in b with an equal value, or both values are
                       dictionaries and recursively contained); values at depth L are compared as atoms
  inter_spec(ds, L)    the greatest dictionary contained in every d (items equal everywhere; common sub-dictionaries
                       intersected while the level allows)
  diff_spec(a, b, L)   exactly the items of a not contained in b (falsy values and {} included)
  upd_spec(d, o)       o contained in the result, every item of d that o does not overwrite kept

plus the laws themselves on the real results (commutative, associative, idempotent, n-ary == folded, greatest among all
candidates of the scope, update(intersection, difference) == d1, deep copy by object identity, arguments unmodified).

Failure ids are <function or law>/<clause>/<kind>.  The known defect (DESIGN section 6 row 1: difference() drops an
item whose value is falsy when the key is present in d2 with another value) is recognised from the *observed* result
only: the result is contained in the expected one and every lost leaf is falsy and has a different counterpart in d2.
Anything else (a truthy item lost, an extra item, a wrong value, a lost item with no counterpart) gets another id."""
import copy
import itertools
import os
import sys
sys.path.insert(0, os.path.dirname(os.path.dirname(os.path.abspath(__file__))))
from bounded.common import Run, watchdog, Timeout

import lena.core
import lena.context
import lena.flow
from lena.core import LenaTypeError, LenaValueError
from lena.context import intersection, difference, update_recursively, update_nested
import lena.core.split
import lena.flow.zip
split_mod = sys.modules["lena.core.split"]
zip_mod = sys.modules["lena.flow.zip"]
gp_mod = sys.modules["lena.flow.group_plots"]       # lena.flow.group_plots the attribute is the function

LEAVES = [0, False, None, "", 1, "a", [], [0], {}]  # truthy and falsy scalars, lists, the empty dictionary
SMALL = [0, None, 1, "a", {}]
TINY = [0, 1, {}]
ABSENT = object()


# ----------------------------------------------------------------------------------------------- reference
def isd(x):
    return isinstance(x, dict)


def clone(x):
    if isinstance(x, dict):
        return {k: clone(v) for k, v in x.items()}
    if isinstance(x, list):
        return [clone(v) for v in x]
    if isinstance(x, tuple):
        return tuple(clone(v) for v in x)
    return x


def contained(a, b, level=-1):
    if level == 0:
        return a == b or a == {}
    for k, v in a.items():
        if k not in b:
            return False
        w = b[k]
        if v == w:
            continue
        if level != 1 and isd(v) and isd(w) and contained(v, w, level - 1):
            continue
        return False
    return True


def inter_spec(ds, level=-1):
    if not ds:
        return {}
    first = ds[0]
    if level == 0:
        return clone(first) if all(d == first for d in ds[1:]) else {}
    res = {}
    for k, v in first.items():
        if not all(k in d for d in ds):
            continue
        vals = [d[k] for d in ds]
        if all(x == v for x in vals):
            res[k] = clone(v)
        elif level != 1 and all(isd(x) for x in vals):
            res[k] = inter_spec(vals, level - 1)
    return res


def diff_spec(d1, d2, level=-1):
    if d1 == d2:
        return {}
    if level == 0:
        return clone(d1)
    res = {}
    for k, v in d1.items():
        if k not in d2:
            res[k] = clone(v)
        elif v != d2[k]:
            if level != 1 and isd(v) and isd(d2[k]):
                sub = diff_spec(v, d2[k], level - 1)
                if sub:
                    res[k] = sub
            else:
                res[k] = clone(v)
    return res


def upd_spec(d, o):
    res = clone(d)
    for k, v in o.items():
        if isd(v) and isd(res.get(k, None)):
            res[k] = upd_spec(res[k], v)
        else:
            res[k] = clone(v)
    return res


def kept(d, o, got):
    """every item of d that o does not overwrite is in got"""
    if not isd(got):
        return False
    for k, v in d.items():
        if k not in o:
            if k not in got or got[k] != v:
                return False
        elif isd(v) and isd(o[k]):
            if k not in got or not kept(v, o[k], got[k]):
                return False
    return True


def leaves_of(x, path=()):
    """leaf paths of a nested dictionary: non-dictionary values and empty dictionaries"""
    out = []
    for k, v in x.items():
        if isd(v) and v:
            out.extend(leaves_of(v, path + (k,)))
        else:
            out.append((path + (k,), v))
    return out


def lookup(x, path):
    for k in path:
        if not isd(x) or k not in x:
            return ABSENT
        x = x[k]
    return x


def mut_ids(x, acc):
    if isinstance(x, dict):
        acc.add(id(x))
        for v in x.values():
            mut_ids(v, acc)
    elif isinstance(x, (list, tuple)):
        if isinstance(x, list):
            acc.add(id(x))
        for v in x:
            mut_ids(v, acc)
    return acc


def lost_kinds(got, exp, other):
    """Diagnosis of got != exp when every item of exp should be in got.  Returns a set of kinds:
    falsy-scalar / empty-dict-vs-scalar / empty-dict-at-level-limit (the three faces of the known defect: got is
    contained in exp, the lost leaf is falsy and `other` has another value at the same path), else
    extra-or-wrong-item / truthy-item / falsy-item-without-counterpart."""
    if not isd(got):
        return {"not-a-dict"}
    kinds = set()
    if not contained(got, exp):
        kinds.add("extra-or-wrong-item")
    for path, v in leaves_of(exp):
        if lookup(got, path) is not ABSENT:
            continue                                  # present; a wrong value there is 'extra-or-wrong-item'
        w = lookup(other, path)
        if v:
            kinds.add("truthy-item")
        elif w is ABSENT or w == v:
            kinds.add("falsy-item-without-counterpart")
        elif isd(v):
            kinds.add("empty-dict-at-level-limit" if isd(w) else "empty-dict-vs-scalar")
        else:
            kinds.add("falsy-scalar")
    return kinds or {"extra-or-wrong-item"}


def without_leaves(x, paths, path=()):
    """x without the leaves at `paths` (emptied sub-dictionaries stay)"""
    return {k: (without_leaves(v, paths, path + (k,)) if isd(v) and v else clone(v))
            for k, v in x.items() if path + (k,) not in paths}


# ----------------------------------------------------------------------------------------------- real calls
def call_inter(ds, L):
    return intersection(*ds) if L is None else intersection(*ds, level=L)


def call_diff(a, b, L):
    return difference(a, b) if L is None else difference(a, b, level=L)


def lv(L):
    return -1 if L is None else L


def lvs(levels):
    return "(%s)" % ", ".join("omitted" if L is None else str(L) for L in levels)


def lt(L):
    return "" if L is None else ", level=%r" % (L,)


class Ctx(object):
    """collects failures of one case; restores arguments that a wrong implementation modified"""

    def __init__(self):
        self.fails = []

    def fail(self, fid, what):
        self.fails.append((fid, what))

    def unmodified(self, fn, objs, reprs):
        ok = True
        for o, r in zip(objs, reprs):
            if repr(o) != r:
                self.fail("%s/argument-modified" % fn, "%s changed its argument %s into %r" % (fn, r, o))
                o.clear()
                o.update(eval(r))
                ok = False
        return ok


def check_inter_result(C, ds, L, got, ids, tag="intersection"):
    """got == the greatest dictionary contained in every d; deep copy"""
    level = lv(L)
    if not isinstance(got, dict):
        C.fail(tag + "/not-a-dict", "intersection(%s, level=%r) = %r" % (", ".join(map(repr, ds)), L, got))
        return
    exp = inter_spec(ds, level)
    if got != exp:
        bad = [d for d in ds if not contained(got, d, level)]
        C.fail(tag + ("/not-contained-in-argument" if bad else "/not-greatest"),
               "intersection(%s%s) = %r, expected %r" % (", ".join(map(repr, ds)), lt(L), got, exp))
    shared = mut_ids(got, set()) & ids
    if shared:
        C.fail(tag + "/not-a-deep-copy", "intersection(%s, level=%r) = %r shares %d mutable object(s) with its arguments"
               % (", ".join(map(repr, ds)), L, got, len(shared)))


def pair_checks(a, b, L, ra=None, rb=None, ids=None, upd=True):
    """every two-argument clause of the property for (a, b, level L); returns [(fid, what)]"""
    C = Ctx()
    ra = ra or repr(a)
    rb = rb or repr(b)
    if ids is None:
        ids = mut_ids(b, mut_ids(a, set()))
    level = lv(L)
    args = "%s, %s%s" % (ra, rb, lt(L))
    # --- intersection
    I = None
    try:
        I = call_inter([a, b], L)
        C.unmodified("intersection", (a, b), (ra, rb))
        check_inter_result(C, [a, b], L, I, ids)
        J = call_inter([b, a], L)
        C.unmodified("intersection", (a, b), (ra, rb))
        if I != J:
            C.fail("intersection/not-commutative", "intersection(%s) = %r but with swapped arguments %r" % (args, I, J))
        for one in ([a], [a, a]):
            S = call_inter(one, L)
            if S != a:
                C.fail("intersection/not-idempotent", "intersection(%s, level=%r) = %r"
                       % (", ".join([ra] * len(one)), L, S))
            if mut_ids(S, set()) & ids:
                C.fail("intersection/not-a-deep-copy", "intersection(%s, level=%r) shares mutable objects with its argument"
                       % (", ".join([ra] * len(one)), L))
        C.unmodified("intersection", (a, b), (ra, rb))
    except Exception as e:
        C.fail("intersection/raises", "intersection(%s) raised %s: %s" % (args, type(e).__name__, e))
        I = None
    # --- difference
    D = None
    try:
        D = call_diff(a, b, L)
        C.unmodified("difference", (a, b), (ra, rb))
        exp = diff_spec(a, b, level)
        if D != exp:
            for kind in sorted(lost_kinds(D, exp, b)):
                C.fail("difference/items/%s-dropped" % kind if kind not in ("extra-or-wrong-item", "not-a-dict")
                       else "difference/items/%s" % kind,
                       "difference(%s) = %r, expected %r" % (args, D, exp))
    except Exception as e:
        C.fail("difference/raises", "difference(%s) raised %s: %s" % (args, type(e).__name__, e))
        D = None
    # --- recursively updating the intersection with the difference reconstructs d1
    if isd(I) and isd(D):
        try:
            r = copy.deepcopy(I)
            update_recursively(r, copy.deepcopy(D))
            if r != a:
                for kind in sorted(lost_kinds(r, a, b)):
                    C.fail("reconstruct/%s-lost" % kind if kind not in ("extra-or-wrong-item", "not-a-dict")
                           else "reconstruct/%s" % kind,
                           "d1, d2, level = %s: intersection %r updated with difference %r gives %r" % (args, I, D, r))
        except Exception as e:
            C.fail("reconstruct/raises", "update_recursively(intersection, difference) for %s raised %s: %s"
                   % (args, type(e).__name__, e))
    # --- update_recursively(d, other) (no level)
    if upd:
        d = clone(a)
        try:
            ret = update_recursively(d, b)
            C.unmodified("update_recursively(other)", (b,), (rb,))
            call = "update_recursively(%s, %s)" % (ra, rb)
            if not contained(b, d):
                C.fail("update_recursively/other-not-contained", "%s left d = %r" % (call, d))
            elif not kept(a, b, d):
                C.fail("update_recursively/item-of-d-lost", "%s left d = %r" % (call, d))
            elif d != upd_spec(a, b):
                C.fail("update_recursively/extra-item", "%s left d = %r, expected %r" % (call, d, upd_spec(a, b)))
            if ret is not None:
                C.fail("update_recursively/returns-value", "%s returned %r" % (call, ret))
        except Exception as e:
            C.fail("update_recursively/raises", "update_recursively(%s, %s) raised %s: %s" % (ra, rb, type(e).__name__, e))
    return C.fails


def triple_checks(a, b, c, L, reprs=None, ids=None, ab=None, bc=None):
    """associativity, n-ary == folded == reference, deep copy, arguments unmodified"""
    C = Ctx()
    ds = [a, b, c]
    reprs = reprs or [repr(x) for x in ds]
    if ids is None:
        ids = set()
        for x in ds:
            mut_ids(x, ids)
    args = "%s%s" % (", ".join(reprs), lt(L))
    try:
        n = call_inter(ds, L)
        C.unmodified("intersection", ds, reprs)
        check_inter_result(C, ds, L, n, ids, "intersection/n-ary")
        if ab is None:
            ab = call_inter([a, b], L)
        if bc is None:
            bc = call_inter([b, c], L)
        left = call_inter([ab, c], L)
        right = call_inter([a, bc], L)
        C.unmodified("intersection", ds, reprs)
        if left != right:
            C.fail("intersection/not-associative", "(a^b)^c = %r but a^(b^c) = %r for a, b, c = %s" % (left, right, args))
        if n != left:
            C.fail("intersection/n-ary-differs-from-folded", "intersection(%s) = %r but folded pairwise %r" % (args, n, left))
        # greatest: any candidate contained in a and b is contained in the real intersection (c is the candidate)
        level = lv(L)
        if contained(c, a, level) and contained(c, b, level) and not contained(c, ab, level):
            C.fail("intersection/not-greatest(law)", "%s is contained in %s and %s but not in their intersection %r (level=%r)"
                   % (reprs[2], reprs[0], reprs[1], ab, L))
        if not (contained(ab, a, level) and contained(ab, b, level)):
            C.fail("intersection/not-contained-in-argument(law)", "intersection(%s, %s, level=%r) = %r"
                   % (reprs[0], reprs[1], L, ab))
    except Exception as e:
        C.fail("intersection/raises", "intersection over %s raised %s: %s" % (args, type(e).__name__, e))
    return C.fails


# ----------------------------------------------------------------------------------------------- update_nested
def chain_ok(other, key):
    """other.key.key... consists of dictionaries"""
    seen = 0
    while isd(other) and key in other:
        other = other[key]
        seen += 1
        if seen > 50:
            return False
    return isd(other)


def nested_checks(key, d, other):
    C = Ctx()
    d0, o0 = clone(d), clone(other)
    call = "update_nested(%r, %r, %r)" % (key, d0, o0)
    try:
        with watchdog(2):
            ret = update_nested(key, d, other)
    except Timeout:
        C.fail("update_nested/hang", call + " does not terminate")
        return C.fails
    except Exception as e:
        C.fail("update_nested/raises", "%s raised %s: %s" % (call, type(e).__name__, e))
        return C.fails
    if ret is not None:
        C.fail("update_nested/returns-value", "%s returned %r" % (call, ret))
    if key not in d or d[key] is not other:
        C.fail("update_nested/d[key]-is-not-other", "%s left d = %r" % (call, d))
        return C.fails
    if {k: v for k, v in d.items() if k != key} != {k: v for k, v in d0.items() if k != key}:
        C.fail("update_nested/other-keys-of-d-changed", "%s left d = %r" % (call, d))
    # walk down the chain of the ORIGINAL other; every level keeps its own items, the previous d[key] hangs below the deepest
    cur, old = other, o0
    depth = 0
    while key in old:
        if not isd(cur) or {k: v for k, v in cur.items() if k != key} != {k: v for k, v in old.items() if k != key} \
                or key not in cur:
            C.fail("update_nested/other-items-changed", "%s left d = %r (level %d of other.%s)" % (call, d, depth, key))
            return C.fails
        cur, old = cur[key], old[key]
        depth += 1
    if not isd(cur) or {k: v for k, v in cur.items() if k != key} != old:
        C.fail("update_nested/other-items-changed", "%s left d = %r (level %d of other.%s)" % (call, d, depth, key))
        return C.fails
    if key in d0:
        if key not in cur or cur[key] != d0[key]:
            C.fail("update_nested/previous-d[key]-not-reachable", "%s left d = %r: previous value %r is not under the deepest %s"
                   % (call, d, d0[key], ".".join([key] * (depth + 1))))
    elif key in cur:
        C.fail("update_nested/other-items-changed", "%s left d = %r: other got a new %r" % (call, d, key))
    return C.fails


# ----------------------------------------------------------------------------------------------- users
class _Branch(object):
    """a branch of a Split with a static context; returns the very object so that a missing copy is visible"""

    def __init__(self, ctx):
        self.ctx = ctx

    def _get_context(self):
        return self.ctx

    def _set_context(self, context):
        pass


class _Transparent(object):
    pass


def split_checks(ctxs, transparent_at=None):
    C = Ctx()
    reprs = [repr(c) for c in ctxs]
    seqs = [_Branch(c) for c in ctxs]
    if transparent_at is not None:
        seqs.insert(transparent_at, _Transparent())
    call = "LenaSplit(branches with static contexts %s)._get_context()" % ", ".join(reprs)
    try:
        s = split_mod.LenaSplit(seqs)
        got = s._get_context()
    except Exception as e:
        C.fail("Split._get_context/raises", "%s raised %s: %s" % (call, type(e).__name__, e))
        return C.fails
    C.unmodified("Split._get_context", ctxs, reprs)
    exp = inter_spec(ctxs, -1)
    if got != exp:
        C.fail("Split._get_context/not-the-intersection", "%s = %r, expected %r" % (call, got, exp))
    ids = set()
    for c in ctxs:
        mut_ids(c, ids)
    if mut_ids(got, set()) & ids:
        C.fail("Split._get_context/not-a-deep-copy", "%s = %r shares mutable objects with a branch context" % (call, got))
    return C.fails


class _FC(object):
    def __init__(self, out=()):
        self.out = out

    def fill(self, val):
        pass

    def compute(self):
        for o in self.out:
            yield o


def zip_checks(vals, end_to_end=False):
    """context.zip[i] holds exactly the items of vals[i] that are not common to all (level 1), the rest is common"""
    C = Ctx()
    reprs = [repr(v) for v in vals]
    call = "Zip._create_context([%s])" % ", ".join(reprs)
    try:
        if end_to_end:
            z = zip_mod.Zip([_FC([(i, v)]) for i, v in enumerate(vals)])
            res = list(z.compute())
            if len(res) != 1:
                C.fail("Zip/flow", "Zip of one value per sequence yielded %r" % (res,))
                return C.fails
            got = res[0][1] if isinstance(res[0], tuple) and len(res[0]) == 2 and isd(res[0][1]) else {}
        else:
            z = zip_mod.Zip([_FC() for _ in vals])
            got = z._create_context(vals)
    except Exception as e:
        C.fail("Zip._create_context/raises", "%s raised %s: %s" % (call, type(e).__name__, e))
        return C.fails
    if not end_to_end:
        C.unmodified("Zip._create_context", vals, reprs)
    common = inter_spec(vals, 1)
    diffs = tuple(diff_spec(v, common, 1) for v in vals)
    exp = clone(common)
    if any(diffs):
        exp["zip"] = diffs
    if got != exp:
        C.fail("Zip._create_context/mismatch", "%s = %r, expected %r" % (call, got, exp))
    return C.fails


def group_plots_checks(ctxs):
    C = Ctx()
    reprs = [repr(c) for c in ctxs]
    call = "group_plots([%s])" % ", ".join("(%d, %s)" % (i, r) for i, r in enumerate(reprs))
    try:
        data, context = gp_mod.group_plots([(i, c) for i, c in enumerate(ctxs)])
    except Exception as e:
        C.fail("group_plots/raises", "%s raised %s: %s" % (call, type(e).__name__, e))
        return C.fails
    C.unmodified("group_plots", ctxs, reprs)
    changed = any(isd(c.get("output")) and c["output"].get("changed") for c in ctxs)
    exp = upd_spec(inter_spec(ctxs, -1), {"output": {"changed": bool(changed)}})
    rest = {k: v for k, v in context.items() if k != "group"}
    if data != list(range(len(ctxs))) or context.get("group") != ctxs:
        C.fail("group_plots/group", "%s = %r" % (call, (data, context)))
    if rest != exp:
        C.fail("group_plots/not-the-intersection", "%s gives common context %r, expected %r" % (call, rest, exp))
    ids = set()
    for c in ctxs:
        mut_ids(c, ids)
    if mut_ids(rest, set()) & ids:
        C.fail("group_plots/not-a-deep-copy", "%s: the common context %r shares mutable objects with a member context" % (call, rest))
    return C.fails


def map_group_checks(old, new, end_to_end=False):
    """MapGroup: 'common changes of group context update common context (that of the value)': the value context becomes
    the old common context updated with the items of the new common context that the old one does not contain"""
    C = Ctx()
    r_old, r_new = [repr(c) for c in old], [repr(c) for c in new]
    i_old = inter_spec(old, -1)
    i_new = inter_spec(new, -1)
    exp = upd_spec(i_old, diff_spec(i_new, i_old, -1))
    call = "group contexts %s -> %s" % (r_old, r_new)
    try:
        if end_to_end:
            table = {i: c for i, c in enumerate(new)}
            mg = gp_mod.MapGroup(lambda val: (val[0], table[val[0]]))
            ctx = clone(i_old)
            ctx["group"] = old
            res = list(mg.run([(list(range(len(old))), ctx)]))
            if len(res) != 1 or res[0][0] != list(range(len(old))):
                C.fail("MapGroup/flow", "MapGroup over %s yielded %r" % (call, res))
                return C.fails
            context = res[0][1]
            call = "MapGroup: " + call
        else:
            context = clone(i_old)
            context["group"] = old
            gp_mod._update_with_group(context, new, clone(i_old))
            C.unmodified("_update_with_group", new, r_new)
            call = "_update_with_group: " + call
    except Exception as e:
        C.fail("_update_with_group/raises", "%s raised %s: %s" % (call, type(e).__name__, e))
        return C.fails
    if context.get("group") != new:
        C.fail("_update_with_group/group", "%s: context.group = %r" % (call, context.get("group")))
    rest = {k: v for k, v in context.items() if k != "group"}
    if rest != exp:
        # the face of the known difference() defect here: exactly the falsy new common items that replace another old
        # common value are not propagated (the value context keeps the old value)
        d = diff_spec(i_new, i_old, -1)
        stale = set(p for p, v in leaves_of(d) if not v and lookup(i_old, p) is not ABSENT)
        known = bool(stale) and rest == upd_spec(i_old, without_leaves(d, stale))
        C.fail("_update_with_group/falsy-common-item-not-propagated" if known else "_update_with_group/mismatch",
               "%s: value context %r, expected %r (new common context %r)" % (call, rest, exp, i_new))
    return C.fails


# ----------------------------------------------------------------------------------------------- domains
def build(keys, depth, leaves):
    """all dictionaries over `keys` nested up to `depth`, leaves from `leaves` (fresh objects)"""
    vals = list(leaves)
    if depth > 1:
        vals += [d for d in build(keys, depth - 1, leaves) if d]
    out = []
    for combo in itertools.product([ABSENT] + vals, repeat=len(keys)):
        out.append({k: clone(v) for k, v in zip(keys, combo) if v is not ABSENT})
    return out


class Domain(object):
    def __init__(self, dicts):
        self.d = dicts
        self.r = [repr(x) for x in dicts]
        self.ids = [mut_ids(x, set()) for x in dicts]
        self.n = len(dicts)


def rand_dict(rng, depth, keys="abc"):
    d = {}
    for k in keys:
        if rng.random() < 0.3:
            continue
        if depth > 1 and rng.random() < 0.4:
            d[k] = rand_dict(rng, depth - 1, keys)
        else:
            d[k] = clone(rng.choice(LEAVES))
    return d


def mutate(rng, d, depth, keys="abc"):
    """a relative of d: some leaf changed, a key dropped or added, somewhere in the tree"""
    d = clone(d)
    cur, dep = d, depth
    while True:
        subs = [k for k, v in cur.items() if isd(v) and v]
        if subs and rng.random() < 0.6:
            cur = cur[rng.choice(subs)]
            dep -= 1
        else:
            break
    k = rng.choice(keys)
    r = rng.random()
    if r < 0.3:
        cur.pop(k, None)
    elif r < 0.8 or dep <= 1:
        cur[k] = clone(rng.choice(LEAVES))
    else:
        cur[k] = rand_dict(rng, max(1, dep - 1), keys)
    return d


# ----------------------------------------------------------------------------------------------- replayers
def _has(fails, fid):
    return any(f[0] == fid for f in fails)


def replay_pair(a, b, L, fid):
    return _has(pair_checks(a, b, L), fid)


def replay_triple(a, b, c, L, fid):
    return _has(triple_checks(a, b, c, L), fid)


def replay_nested(key, d, other, fid):
    return _has(nested_checks(key, d, other), fid)


def replay_split(ctxs, transparent_at, fid):
    return _has(split_checks(ctxs, transparent_at), fid)


def replay_zip(vals, e2e, fid):
    return _has(zip_checks(vals, e2e), fid)


def replay_group_plots(ctxs, fid):
    return _has(group_plots_checks(ctxs), fid)


def replay_map_group(old, new, e2e, fid):
    return _has(map_group_checks(old, new, e2e), fid)


def replay_update_str(d, path, value, has_value, fid):
    return _has(update_str_checks(d, path, value, has_value), fid)


def replay_errors(fid):
    return _has(error_checks(), fid)


def shared_arg(x, extra):
    """a nested dictionary in which ONE sub-dictionary object stands under two keys ({'a': sub, 'b': sub}); by value it is an
    ordinary nested dictionary of the property's domain"""
    sub = clone(x)
    d = {"a": sub, "b": sub}
    if extra is not None:
        d["c"] = clone(extra)
    return d


def replay_shared(x, extra, b, L, swap, fid):
    a = shared_arg(x, extra)
    return _has(pair_checks(b, a, L) if swap else pair_checks(a, b, L), fid)


REPLAYERS = {"replay_shared": replay_shared, "replay_pair": replay_pair, "replay_triple": replay_triple, "replay_nested": replay_nested,
             "replay_split": replay_split, "replay_zip": replay_zip, "replay_group_plots": replay_group_plots,
             "replay_map_group": replay_map_group, "replay_update_str": replay_update_str, "replay_errors": replay_errors}


def report(R, fails, fn, args, witness):
    for fid, what in fails:
        R.fail(fid, what, witness, {"fn": fn, "args": list(args) + [fid]})


# ----------------------------------------------------------------------------------------------- small scopes
def update_str_checks(d, path, value, has_value):
    """update_recursively(d, "a.b", value) is update_recursively(d, {"a": {"b": value}})"""
    C = Ctx()
    parts = path.split(".")
    if has_value:
        parts = parts + [value]
    other = parts[-1]
    for p in reversed(parts[:-1]):
        other = {p: other}
    work = clone(d)
    call = "update_recursively(%r, %r%s)" % (d, path, ", %r" % (value,) if has_value else "")
    try:
        if has_value:
            update_recursively(work, path, value)
        else:
            update_recursively(work, path)
    except Exception as e:
        C.fail("update_recursively(str)/raises", "%s raised %s: %s" % (call, type(e).__name__, e))
        return C.fails
    exp = upd_spec(d, other)
    if work != exp:
        C.fail("update_recursively(str)/mismatch", "%s left d = %r, expected %r" % (call, work, exp))
    return C.fails


def error_checks():
    """documented error conditions (docstrings of intersection and update_recursively) and termination of update_nested
    on a cyclic other"""
    C = Ctx()

    def raises(f, exc):
        try:
            f()
        except exc:
            return True
        except Exception:
            return False
        return False
    if not raises(lambda: intersection({"a": 1}, 5), LenaTypeError) or not raises(lambda: intersection([], {}), LenaTypeError):
        C.fail("intersection/errors/non-dict-accepted", "intersection({'a': 1}, 5) / intersection([], {}) do not raise LenaTypeError")
    if not raises(lambda: intersection({"a": 1}, {"a": 1}, levle=1), LenaTypeError):
        C.fail("intersection/errors/unknown-kwarg-accepted", "intersection({'a': 1}, {'a': 1}, levle=1) does not raise LenaTypeError")
    if intersection() != {} or intersection(level=1) != {}:
        C.fail("intersection/no-arguments", "intersection() = %r" % (intersection(),))
    if not raises(lambda: update_recursively({}, {"a": 1}, 2), LenaValueError):
        C.fail("update_recursively/errors/value-with-dict", "update_recursively({}, {'a': 1}, 2) does not raise LenaValueError")
    if not raises(lambda: update_recursively({}, 5), LenaTypeError) or not raises(lambda: update_recursively(5, {}), LenaTypeError):
        C.fail("update_recursively/errors/non-dict-accepted", "update_recursively({}, 5) / (5, {}) do not raise LenaTypeError")
    for depth in (1, 2, 3):
        other = {"x": 1}
        cur = other
        for _ in range(depth - 1):
            cur["k"] = {"y": 2}
            cur = cur["k"]
        cur["k"] = other                      # other.k....k is other again
        d = {"k": {"old": 0}}
        try:
            with watchdog(2):
                update_nested("k", d, other)
        except Timeout:
            C.fail("update_nested/hang", "update_nested('k', {'k': {'old': 0}}, other) with other.%s is other does not terminate"
                   % ".".join(["k"] * depth))
        except LenaValueError:
            pass
        except Exception as e:
            C.fail("update_nested/cyclic-other-raises", "cyclic other of period %d: %s" % (depth, type(e).__name__))
    return C.fails


# ----------------------------------------------------------------------------------------------- body
LEVELS = (None, -1, 0, 1, 2, 3, 4)


def body(R):
    rng = R.rng
    thorough = R.thorough

    def run_pairs(dom, pairs, levels, upd_level):
        for i, j in pairs:
            a, b = dom.d[i], dom.d[j]
            ids = dom.ids[i] | dom.ids[j]
            for L in levels:
                fails = pair_checks(a, b, L, dom.r[i], dom.r[j], ids, upd=(L == upd_level))
                R.case(a != b, {"d1": a, "d2": b, "level": L})
                if fails:
                    report(R, fails, "replay_pair", [clone(a), clone(b), L], {"d1": clone(a), "d2": clone(b), "level": L})

    def run_triples(dom, triples, levels):
        memo = {}                 # real two-argument intersections of the domain (fresh results, only read afterwards)

        def inter2(i, j, L):
            key = (i, j, L)
            if key not in memo:
                try:
                    memo[key] = call_inter([dom.d[i], dom.d[j]], L)
                except Exception:
                    return None
            return memo[key]
        for i, j, k in triples:
            a, b, c = dom.d[i], dom.d[j], dom.d[k]
            ids = dom.ids[i] | dom.ids[j] | dom.ids[k]
            reprs = [dom.r[i], dom.r[j], dom.r[k]]
            for L in levels:
                fails = triple_checks(a, b, c, L, reprs, ids, inter2(i, j, L), inter2(j, k, L))
                R.case(True, {"dicts": [a, b, c], "level": L})
                if fails:
                    report(R, fails, "replay_triple", [clone(a), clone(b), clone(c), L],
                           {"dicts": [clone(a), clone(b), clone(c)], "level": L})

    # ---- A: one key, depth 3, all leaves: everything exhaustive, every level
    A = Domain(build("a", 3, LEAVES))
    R.scope("pairs: intersection/difference/reconstruct/update_recursively laws",
            "ALL %d dictionaries over the key alphabet {a}, depth <= 3, leaves %r; ALL %d ordered pairs; every level in "
            "(omitted, -1, 0, 1, 2, 3, 4)" % (A.n, LEAVES, A.n ** 2), True)
    run_pairs(A, itertools.product(range(A.n), repeat=2), LEVELS, None)
    tl = (None, 0, 1, 2, 3) if thorough else (None, 1, 2)
    R.scope("triples: associativity, n-ary == folded == reference, greatest among all candidates",
            "same %d dictionaries, ALL %d ordered triples (the third one is also the candidate of the 'greatest' law); "
            "levels %s" % (A.n, A.n ** 3, lvs(tl)), True)
    run_triples(A, itertools.product(range(A.n), repeat=3), tl)

    # ---- B: two keys, depth 1, all leaves
    B = Domain(build("ab", 1, LEAVES))
    R.scope("pairs: intersection/difference/reconstruct/update_recursively laws",
            "ALL %d dictionaries over {a, b}, depth 1, leaves %r; ALL %d ordered pairs; levels (omitted, 0, 1, 2)"
            % (B.n, LEAVES, B.n ** 2), True)
    run_pairs(B, itertools.product(range(B.n), repeat=2), (None, 0, 1, 2), None)
    Bs = Domain(build("ab", 1, SMALL))
    Bt = Domain(build("ab", 1, [0, None, 1, {}]))
    if thorough:
        R.scope("triples: associativity, n-ary, greatest",
                "ALL %d ordered triples of the %d depth-1 dictionaries over {a, b} with leaves %r; level omitted"
                % (B.n ** 3, B.n, LEAVES), True)
        run_triples(B, itertools.product(range(B.n), repeat=3), (None,))
        R.scope("triples: associativity, n-ary, greatest",
                "ALL %d ordered triples of the %d depth-1 dictionaries over {a, b} with leaves %r; levels (1, 2)"
                % (Bs.n ** 3, Bs.n, SMALL), True)
        run_triples(Bs, itertools.product(range(Bs.n), repeat=3), (1, 2))
    else:
        R.scope("triples: associativity, n-ary, greatest",
                "ALL %d ordered triples of the %d depth-1 dictionaries over {a, b} with leaves %r; levels (omitted, 1)"
                % (Bt.n ** 3, Bt.n, [0, None, 1, {}]), True)
        run_triples(Bt, itertools.product(range(Bt.n), repeat=3), (None, 1))

    # ---- B2: arguments in which one sub-dictionary OBJECT stands under two keys
    xs = [d for d in Bt.d if d]
    ys = [0, {}] + list(Bt.d)
    R.scope("pairs: all laws when an argument holds ONE sub-dictionary object under two keys",
            "d1 = {'a': sub, 'b': sub} (the same object twice; optionally a third item) for all %d non-empty depth-1 "
            "dictionaries sub over {a, b} with leaves [0, None, 1, {}], d2 = {'a': y, 'b': z} for all y, z among 0, {} and those "
            "dictionaries; both argument orders; levels (omitted, 1, 2, 3): by value these are nested dictionaries of the "
            "property's domain, every clause (greatest common dictionary, commutative, deep copy, arguments unchanged, "
            "difference, reconstruction) must hold as for unshared arguments" % len(xs), True)
    for x in xs:
        for extra in (None, x):
            for y in ys:
                for z in ys:
                    b = {"a": clone(y), "b": clone(z)}
                    for L in (None, 1, 2, 3):
                        for swap in (False, True):
                            a = shared_arg(x, extra)
                            b2 = clone(b)
                            fails = pair_checks(b2, a, L, upd=False) if swap else pair_checks(a, b2, L, upd=False)
                            R.case(True, {"shared": x, "d2": b, "level": L, "swapped": swap})
                            if fails:
                                report(R, fails, "replay_shared", [clone(x), clone(extra), clone(b), L, swap],
                                       {"d1": "{'a': sub, 'b': sub%s} with sub = %r" % (", 'c': copy of sub" if extra is not None else "", x),
                                        "d2": clone(b), "level": L, "swapped": swap})

    # ---- C: two keys, depth 2, leaves 0/1/{}
    Cd = Domain(build("ab", 2, TINY))
    if thorough:
        R.scope("pairs: intersection/difference/reconstruct/update_recursively laws",
                "ALL %d dictionaries over {a, b}, depth <= 2, leaves %r; ALL %d ordered pairs; levels (omitted, 0, 1, 2, 3)"
                % (Cd.n, TINY, Cd.n ** 2), True)
        run_pairs(Cd, itertools.product(range(Cd.n), repeat=2), (None, 0, 1, 2, 3), None)
        n3 = 60000
    else:
        n2 = 5000
        R.scope("pairs: intersection/difference/reconstruct/update_recursively laws",
                "%d seeded random ordered pairs of the %d dictionaries over {a, b}, depth <= 2, leaves %r; levels (omitted, 1, 2)"
                % (n2, Cd.n, TINY), False)
        run_pairs(Cd, [(rng.randrange(Cd.n), rng.randrange(Cd.n)) for _ in range(n2)], (None, 1, 2), None)
        n3 = 4000
    R.scope("triples: associativity, n-ary, greatest",
            "%d seeded random ordered triples of the same %d dictionaries; levels (omitted, 2)" % (n3, Cd.n), False)
    run_triples(Cd, [(rng.randrange(Cd.n), rng.randrange(Cd.n), rng.randrange(Cd.n)) for _ in range(n3)], (None, 2))

    # ---- D: random, three keys, depth <= 3, all leaves, related arguments
    np_, nt = (120000, 50000) if thorough else (5000, 2500)
    R.scope("pairs and triples: all laws on random related dictionaries",
            "%d pairs and %d triples of random dictionaries over {a, b, c}, depth <= 3, leaves %r; the 2nd/3rd argument is "
            "with probability 1/2 a local mutation of the first (leaf changed, key dropped/added, subtree replaced); "
            "one random level of (omitted, -1, 0, 1, 2, 3, 4) per case" % (np_, nt, LEAVES), False)
    for _ in range(np_):
        a = rand_dict(rng, 3)
        b = mutate(rng, a, 3) if rng.random() < 0.5 else rand_dict(rng, 3)
        if rng.random() < 0.5:
            a, b = b, a
        L = rng.choice(LEVELS)
        wa, wb = clone(a), clone(b)
        fails = pair_checks(a, b, L)
        R.case(a != b, {"d1": wa, "d2": wb, "level": L})
        if fails:
            report(R, fails, "replay_pair", [wa, wb, L], {"d1": wa, "d2": wb, "level": L})
    for _ in range(nt):
        a = rand_dict(rng, 3)
        b = mutate(rng, a, 3) if rng.random() < 0.5 else rand_dict(rng, 3)
        c = mutate(rng, rng.choice([a, b]), 3) if rng.random() < 0.5 else rand_dict(rng, 3)
        ds = [a, b, c]
        rng.shuffle(ds)
        L = rng.choice(LEVELS)
        w = [clone(x) for x in ds]
        fails = triple_checks(ds[0], ds[1], ds[2], L)
        R.case(True, {"dicts": w, "level": L})
        if fails:
            report(R, fails, "replay_triple", w + [L], {"dicts": w, "level": L})

    # ---- update_recursively with a string, documented errors
    paths = ["a", "b", "a.b", "b.a", "a.a", "a.b.a", "b.b.b"]
    R.scope("update_recursively(d, 'a.b', value) == update_recursively(d, {'a': {'b': value}}); documented errors",
            "ALL %d depth-1 dictionaries over {a, b} x paths %r x values %r (and without value for dotted paths)"
            % (Bs.n, paths, LEAVES), True)
    for d in Bs.d:
        for p in paths:
            cases = [(v, True) for v in LEAVES] + ([(None, False)] if "." in p else [])
            for v, has in cases:
                fails = update_str_checks(d, p, clone(v), has)
                R.case(True)
                if fails:
                    report(R, fails, "replay_update_str", [clone(d), p, clone(v), has], {"d": clone(d), "path": p, "value": v})
    fails = error_checks()
    R.case(True)
    if fails:
        report(R, fails, "replay_errors", [], {})

    # ---- update_nested
    others = []
    for m in range(0, 4):
        for combo in itertools.product([ABSENT, 0, 1], repeat=m + 1):
            o = None
            for v in reversed(combo):
                lvl = {} if v is ABSENT else {"b": v}
                if o is not None:
                    lvl["a"] = o
                o = lvl
            others.append(o)
    ds = [x for x in B.d] + [{"a": {"a": 7}}, {"a": {"a": {"a": 7}, "b": 2}, "b": 3}, {"b": {"a": 1}}]
    R.scope("update_nested(key, d, other): previous d[key] under the deepest other.key.key..., everything else kept",
            "key 'a'; d: ALL %d depth-1 dictionaries over {a, b} with leaves %r plus 3 nested ones; other: ALL %d chains "
            "other.a.a... of depth 0..3 with an optional item b in {0, 1} on every level; and key 'b' on 1/4 of them"
            % (B.n, LEAVES, len(others)), True)
    for d in ds:
        for n, o in enumerate(others):
            for key in (("a", "b") if n % 4 == 0 else ("a",)):
                if not chain_ok(o, key):
                    continue
                d1, o1 = clone(d), clone(o)
                fails = nested_checks(key, d1, o1)
                R.case(True, {"key": key, "d": d, "other": o})
                if fails:
                    report(R, fails, "replay_nested", [key, clone(d), clone(o)], {"key": key, "d": clone(d), "other": clone(o)})

    # ---- users
    U = Domain(build("ab", 2, [0, 1]) + build("a", 3, SMALL))       # 121 + 16 nested contexts
    n_u = U.n
    n_trip = 200000 if thorough else 6000
    trip = [(rng.randrange(n_u), rng.randrange(n_u), rng.randrange(n_u)) for _ in range(n_trip)]
    R.scope("Split static context (LenaSplit._get_context): intersection of the branch contexts, deep copy",
            "%d context lists: (), ALL singles and ALL ordered pairs of %d nested contexts (depth <= 3), %d seeded random "
            "ordered triples; a branch without static context inserted at a cycling position"
            % (1 + n_u + n_u ** 2 + len(trip), n_u, n_trip), False)
    n = 0
    for idx in itertools.chain([()], ((i,) for i in range(n_u)), itertools.product(range(n_u), repeat=2), trip):
        ctxs = [U.d[i] for i in idx]
        n += 1
        tr = (n % (len(ctxs) + 2)) - 1
        tr = None if tr < 0 else tr
        fails = split_checks(ctxs, tr)
        R.case(len(ctxs) > 1, {"contexts": ctxs})
        if fails:
            report(R, fails, "replay_split", [clone(ctxs), tr], {"contexts": clone(ctxs)})
    # a real Split with SetContext elements
    from lena.meta import SetContext
    R.scope("Split([...SetContext...])._get_context()", "9 real Split objects whose branches set nested static context", True)
    settings = [[("a.x", 0), ("b", 1)], [("a.x", 0), ("a.y", 2)], [("a.x", 1), ("b", 1)], [("b", 1), ("a.x", 0), ("c", "")]]
    for s1, s2 in itertools.combinations_with_replacement(settings, 2):
        if s1 is s2 and s1 is not settings[0]:
            continue
        def ctx_of(ss):
            c = {}
            for p, v in ss:
                c = upd_spec(c, {p.split(".")[0]: ({p.split(".")[1]: v} if "." in p else v)})
            return c
        try:
            sp = lena.core.Split([tuple([SetContext(p, v) for p, v in ss] + [lambda val: val]) for ss in (s1, s2)])
            got = sp._get_context()
        except Exception as e:
            got = "EXC %s: %s" % (type(e).__name__, e)
        exp = inter_spec([ctx_of(s1), ctx_of(s2)])
        R.case(True, {"branches": [s1, s2]})
        R.check(got == exp, "Split._get_context/not-the-intersection",
                "Split of branches with SetContext %r and %r has static context %r, expected %r" % (s1, s2, got, exp),
                {"branches": [s1, s2]})

    Z = Domain(build("ab", 1, LEAVES) + [{"a": {"x": 0}, "b": 1}, {"a": {"x": 1}, "b": 1}, {"a": {"x": 0}},
                                         {"a": {}, "b": {"y": {}}}, {"zip": 1, "a": 1}, {"zip": 2, "a": 1}])
    ztr = list(itertools.product(range(0, Z.n, 3), repeat=3)) if thorough else \
        [tuple(rng.randrange(Z.n) for _ in range(3)) for _ in range(3000)]
    R.scope("Zip._create_context: common items (level 1) + context.zip = per-value differences",
            "ALL ordered pairs of %d contexts (depth-1 over {a, b} with leaves %r, 6 nested ones, 'zip' only where it differs); "
            "%d triples; every 50th case end to end through Zip.compute()" % (Z.n, LEAVES, len(ztr)), False)
    n = 0
    for idx in itertools.chain(itertools.product(range(Z.n), repeat=2), ztr):
        vals = [Z.d[i] for i in idx]
        if all("zip" in v for v in vals) and all(v["zip"] == vals[0]["zip"] for v in vals):
            continue        # Zip of contexts with a common 'zip' item: update_nested gets a tuple (see the report), not claimed
        n += 1
        e2e = n % 50 == 0
        fails = zip_checks(vals, e2e)
        R.case(True, {"contexts": vals})
        if fails:
            report(R, fails, "replay_zip", [clone(vals), e2e], {"contexts": clone(vals)})

    G = Domain([upd_spec(c, o) for c in build("ab", 1, SMALL) + [{"a": {"x": 0, "y": 1}}, {"a": {"x": 0}, "b": []}]
                for o in ({}, {"output": {"changed": False}}, {"output": {"changed": True}})][::2])
    gtr = [tuple(rng.randrange(G.n) for _ in range(3)) for _ in range(20000 if thorough else 2000)]
    R.scope("group_plots(): common context = intersection of the member contexts (+ output.changed), deep copy",
            "ALL singles and ordered pairs of %d contexts (with and without output.changed), %d random triples" % (G.n, len(gtr)), False)
    for idx in itertools.chain(((i,) for i in range(G.n)), itertools.product(range(G.n), repeat=2), gtr):
        ctxs = [G.d[i] for i in idx]
        fails = group_plots_checks(ctxs)
        R.case(True, {"contexts": ctxs})
        if fails:
            report(R, fails, "replay_group_plots", [clone(ctxs)], {"contexts": clone(ctxs)})

    M = Domain(build("ab", 1, TINY) + [{"a": {"x": 0}, "b": 1}, {"a": {"x": 1}, "b": 1}, {"a": {"x": 0, "y": 1}}, {"a": {"x": {}}}])
    quad = list(itertools.product(range(M.n), repeat=4))
    if not thorough:
        quad = rng.sample(quad, 12000)
    R.scope("MapGroup / _update_with_group: common changes of the group contexts update the value context",
            "%s of the %d (old pair, new pair) combinations of %d contexts (depth-1 over {a, b} with leaves %r, 4 nested); "
            "every 40th case end to end through MapGroup.run" % ("ALL" if thorough else "12000 seeded random", M.n ** 4, M.n, TINY), thorough)
    n = 0
    for i, j, k, l in quad:
        old, new = [M.d[i], M.d[j]], [M.d[k], M.d[l]]
        n += 1
        e2e = n % 40 == 0
        fails = map_group_checks(clone(old), clone(new), e2e)
        R.case(True, {"old": old, "new": new})
        if fails:
            report(R, fails, "replay_map_group", [clone(old), clone(new), e2e], {"old": clone(old), "new": clone(new)})


if __name__ == "__main__":
    R = Run("C07", REPLAYERS)
    sys.exit(R.main(body, "exhaustive small alphabets (one key to depth 3, two keys to depth 1 and 2) and seeded random related "
                          "dictionaries over three keys to depth 3, leaves with truthy and falsy scalars, lists and {}; "
                          "pairs, triples, every level; a case is non-trivial when the real functions were executed on it and "
                          "compared with the reference written from the property text"))
