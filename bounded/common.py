"""Bounded stand-in runner (runs under /venv/bin/python with PYTHONPATH=/repo:/verif).

Evaluates contracts / reference specifications natively on the REAL code over a stated finite scope.  Labelled
`bounded` in the evidence and never counted as proved.  A failure is reported with an id (stable text used for
matching known findings) and a concrete witness that `--replay` re-executes."""
import argparse
import json
import random
import signal
import sys
import time
import traceback
import warnings

warnings.simplefilter("ignore")


class Timeout(Exception):
    pass


def _alarm(*a):
    raise Timeout()


signal.signal(signal.SIGALRM, _alarm)


class watchdog(object):
    """turns a hang into a reported non-termination"""

    def __init__(self, seconds=2.0):
        self.s = seconds

    def __enter__(self):
        signal.setitimer(signal.ITIMER_REAL, self.s)

    def __exit__(self, *a):
        signal.setitimer(signal.ITIMER_REAL, 0)
        return False


class Run(object):
    def __init__(self, prop, replayers=None):
        ap = argparse.ArgumentParser()
        ap.add_argument("--tier", default="quick")
        ap.add_argument("--seed", type=int, default=0)
        ap.add_argument("--out", default=None)
        ap.add_argument("--replay", default=None)
        self.a = ap.parse_args()
        self.prop = prop
        self.tier = self.a.tier
        self.thorough = self.tier == "thorough"
        self.rng = random.Random(self.a.seed * 7919 + 13)
        self.cases = 0
        self.nontrivial = 0
        self.failures = []
        self.fail_counts = {}
        self.scopes = []
        self.samples = []
        self.cur = None
        self.t0 = time.time()
        self.error = None
        self.replayers = replayers or {}
        self.exhaustive = True

    # ---- scopes
    def scope(self, function, bound, exhaustive):
        self.cur = {"function": function, "bound": bound, "exhaustive": bool(exhaustive), "cases": 0, "label": "bounded"}
        self.scopes.append(self.cur)
        if not exhaustive:
            self.exhaustive = False
        return self.cur

    def case(self, nontrivial=True, sample=None):
        self.cases += 1
        if self.cur is not None:
            self.cur["cases"] += 1
        if nontrivial:
            self.nontrivial += 1
        if sample is not None and len(self.samples) < 8 and (self.cur is None or self.cur["cases"] <= 2):
            self.samples.append({"scope": self.cur["function"] if self.cur else None, "case": sample})

    def fail(self, fid, what, witness=None, replay=None):
        n = self.fail_counts.get(fid, 0)
        self.fail_counts[fid] = n + 1
        if n >= 3:
            return
        self.failures.append({"id": fid, "what": what, "witness": witness, "replay": replay,
                              "scope": self.cur["function"] if self.cur else None})

    def check(self, cond, fid, what, witness=None, replay=None):
        if not cond:
            self.fail(fid, what, witness, replay)
        return cond

    # ---- finish
    def finish(self, rule):
        out = {"property": self.prop, "tier": self.tier, "seed": self.a.seed, "cases": self.cases,
               "nontrivial": self.nontrivial, "failures": self.failures, "fail_counts": self.fail_counts,
               "scopes": self.scopes, "samples": self.samples, "rule": rule, "exhaustive": self.exhaustive,
               "error": self.error, "wall_s": round(time.time() - self.t0, 2)}
        if self.a.out:
            with open(self.a.out, "w") as f:
                json.dump(out, f, indent=1, default=repr)
        else:
            json.dump(out, sys.stdout, indent=1, default=repr)
        return 0

    def main(self, body, rule):
        if self.a.replay:
            doc = json.load(open(self.a.replay))
            f = doc["failure"]
            rp = f.get("replay")
            if not rp or rp.get("fn") not in self.replayers:
                print("no replayer for", f.get("id"))
                print(json.dumps(f, indent=1, default=repr))
                return 1
            res = self.replayers[rp["fn"]](*rp.get("args", []))
            print("replay", rp["fn"], rp.get("args"), "->", res)
            return 1 if res else 0
        try:
            body(self)
        except Exception:
            self.error = traceback.format_exc()[-1500:]
        return self.finish(rule)
