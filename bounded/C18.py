"""C18 bounded stand-in: the REAL lena.flow.Cache (inside Sequence / Source / Split, and hoisted by
Cache.alter_sequence / lena.core.alter_sequence) is driven through histories of runs on a temporary directory and
compared with a reference written from the property text:

  * a Cache without a (complete) stored flow, or with recompute=True, passes its incoming flow unaltered and, when
    the flow is exhausted, stores it;
  * a Cache with a stored flow yields exactly the stored values in the original order, and nothing upstream of it is
    pulled or run (instrumented source + instrumented map elements);
  * drop_cache() removes the stored flow;
  * a run that stops before the flow is exhausted (consumer stops after k values, an upstream / downstream element
    raises at value k) leaves each Cache that was being filled in one of the states {nothing stored, what was stored
    before, the complete flow} - NEVER a strict prefix that a later run presents as the whole flow.

The reference keeps, per cache file, the set of states the property allows; a run of the real pipeline must agree with
the reference run in at least one allowed state (values yielded, values seen by every instrumented element, pulls from
the source, file existence/content after complete runs)."""
import copy
import itertools
import json
import os
import pickle
import shutil
import sys
import tempfile

sys.path.insert(0, os.path.dirname(os.path.dirname(os.path.abspath(__file__))))
from bounded.common import Run, watchdog, Timeout

import lena.core
import lena.flow
from lena.core import Sequence, Source, Split
from lena.flow import Cache
from lena.meta import SetContext


# --------------------------------------------------------------------------------------------------------------
# instrumented pipeline parts
# --------------------------------------------------------------------------------------------------------------
class Boom(Exception):
    """the injected fault"""


class Src(object):
    """instrumented upstream: a callable generator (first element of a Source) / a fresh iterator for Sequence.run"""

    def __init__(self, log):
        self.log = log
        self.values = []
        self.raise_at = None

    def __call__(self):
        self.log.append(("src", "start"))
        for i, v in enumerate(self.values):
            if i == self.raise_at:
                raise Boom("src at value %d" % i)
            self.log.append(("src", i))
            yield v
        self.log.append(("src", "end"))


class Map(object):
    """instrumented 1:1 element: records every value it is run on and wraps it, so that order, attribution and the
    number of applications are visible in the result"""

    def __init__(self, log, tag):
        self.log = log
        self.tag = tag
        self.count = 0
        self.raise_at = None

    def __call__(self, value):
        i = self.count
        self.count += 1
        if i == self.raise_at:
            raise Boom("%s at value %d" % (self.tag, i))
        self.log.append((self.tag, value))
        return (self.tag, value)


FALSY = [0, None, "", [], {}, False, 0.0, (), b"", frozenset()]
OTHER = [(None, {}), ("", {"a": {}}), float("inf"), u"\xe9", 10 ** 30, (0, {"c": None}), [[]], -1, 1.5, "x" * 70, {"k": (1, 2)}]


def src_values(kind, r, n):
    """the flow produced by the source in run number r (every run produces different, recognisable values)"""
    if kind == "int":
        return [r * 100 + i for i in range(n)]
    if kind == "ctx":
        return [(r * 100 + i, {"run": r, "i": i, "d": {"k": [i, None]}}) for i in range(n)]
    if kind == "mixed":
        # even positions: bare falsy values (None first); odd positions: (data, context) pairs tagged with the run
        return [FALSY[(r + i // 2) % len(FALSY)] if i % 2 == 0 else (OTHER[(r + i) % len(OTHER)], {"r": r, "i": i}) for i in range(n)]
    raise ValueError(kind)


def run_len(n, r):
    """length of the source flow in run r (1-based): n, n+1, n-1, n, ... so that stored and fresh flows differ in length"""
    return max(0, n + (0, 1, -1)[(r - 1) % 3])


def canon(x):
    return repr(x)


def stage_list(desc):
    st = [("map", "U%d" % i) for i in range(desc["u"])] + [("cache", "A")]
    if desc["two"]:
        st += [("map", "M%d" % i) for i in range(desc["m"])] + [("cache", "B")]
    st += [("map", "D%d" % i) for i in range(desc["d"])]
    return st


# --------------------------------------------------------------------------------------------------------------
# reference (from the property text)
# --------------------------------------------------------------------------------------------------------------
class Exp(object):
    pass


def predict(stages, combo, rec, srcvals, crash, src_always=False):
    """reference run in the definite state `combo` (cache name -> None | list of stored values)"""
    rp = None
    for idx in reversed(range(len(stages))):
        kind, name = stages[idx]
        if kind == "cache" and combo[name] is not None and not rec.get(name):
            rp = idx
            break
    e = Exp()
    e.src_used = rp is None
    e.replay_from = None if rp is None else stages[rp][1]
    cur = list(srcvals) if rp is None else list(combo[stages[rp][1]])
    e.seen = {}
    e.filling = {}
    for idx in range(0 if rp is None else rp + 1, len(stages)):
        kind, name = stages[idx]
        if kind == "map":
            e.seen[name] = cur
            cur = [(name, v) for v in cur]
        else:
            e.filling[name] = cur
    e.out = cur
    e.trig = None
    e.k = None
    if crash:
        k = crash["k"]
        if crash["kind"] == "raise":
            st = crash["stage"]
            if st == "src":
                # (a Split reads its incoming flow into the buffer before any branch runs: documented)
                active, length = e.src_used or src_always, len(srcvals)
            else:
                active, length = st in e.seen, len(e.seen.get(st, []))
            if active and k < length:
                e.trig, e.k = "raise", k
                if st == "src" and not e.src_used:
                    # the raising flow is only the Split's own input, the values come from the replaying Cache:
                    # how many of them arrive before the buffer is refilled is not the property's business
                    e.k = len(e.out)
        elif k <= len(e.out):
            e.trig, e.k = "stop", k
    e.combo = combo
    e.nsrc = len(srcvals)
    return e


def is_prefix(a, b):
    return len(a) <= len(b) and all(canon(x) == canon(y) for x, y in zip(a, b))


def match(e, obs, check_src):
    """None if the observation agrees with the reference run e, else the clause that fails"""
    out, completed, exc, log = obs
    if exc is not None and not (e.trig == "raise" and exc == "Boom"):
        return "unexpected-exception"
    if e.trig == "raise" and exc is None:
        return "injected-exception-swallowed"
    if e.trig is None:
        if canon(out) != canon(e.out):
            return "output-differs"
        if not completed:
            return "output-differs"
    elif e.trig == "stop":
        if completed or canon(out) != canon(e.out[:e.k]):
            return "output-differs"
    else:
        if len(out) > e.k or not is_prefix(out, e.out):
            return "output-differs"
    # values seen by the instrumented elements
    seen = {}
    srcev = []
    for tag, v in log:
        if tag == "src":
            srcev.append(v)
        else:
            seen.setdefault(tag, []).append(v)
    for tag, vals in seen.items():
        if tag not in e.seen:
            return "upstream-touched"
    if check_src and srcev and not e.src_used:
        return "upstream-touched"
    for tag, vals in e.seen.items():
        got = seen.get(tag, [])
        if e.trig is None:
            if canon(got) != canon(vals):
                return "events-differ"
        elif not is_prefix(got, vals):
            return "events-differ"
    if check_src and e.src_used and e.trig is None:
        if srcev != ["start"] + list(range(e.nsrc)) + ["end"]:
            return "source-not-exhausted-once"
    return None


# --------------------------------------------------------------------------------------------------------------
# the real pipeline
# --------------------------------------------------------------------------------------------------------------
FORMS_ANY = ["seq", "source", "cache_alter_seq", "cache_alter_source", "cache_alter_nested", "cache_alter_nested2", "cache_alter_tuple",
             "core_alter_seq", "core_alter_source", "split_seq", "split_tuple", "split_source"]
FORMS_LONE = ["core_alter_el", "cache_alter_el", "split_el", "el", "split_el_blocks"]   # only for a pipeline that is one bare Cache
FORM_DOC = {
    "seq": "Sequence(*els).run(flow)", "source": "Source(src, *els)()",
    "cache_alter_seq": "Cache.alter_sequence(Sequence(*els))", "cache_alter_source": "Cache.alter_sequence(Source(src, *els))",
    "cache_alter_nested": "Cache.alter_sequence(Sequence(ups.., Sequence(cache, ...)))",
    "cache_alter_nested2": "Cache.alter_sequence(Sequence(Sequence(.., last cache), downs..))",
    "cache_alter_tuple": "Cache.alter_sequence(tuple(els))", "core_alter_seq": "lena.core.alter_sequence(Sequence(*els))",
    "core_alter_source": "lena.core.alter_sequence(Source(src, *els))", "split_seq": "Split([Sequence(*els)], bufsize=None).run(flow)",
    "split_tuple": "Split([tuple(els)], bufsize=100).run(flow)", "split_source": "Split([Source(src, *els)])()",
    "core_alter_el": "lena.core.alter_sequence(cache)", "cache_alter_el": "Cache.alter_sequence(cache)",
    "split_el": "Split([cache], bufsize=None).run(flow)", "el": "cache.run(flow)",
    "split_el_blocks": "cache.run(flow) while unfilled / Split([cache], bufsize=1).run(flow) (one block per value) once filled",
}


def group(form):
    if form.startswith("split"):
        return "Split"
    if "alter" in form:
        return "alter_sequence"
    return "Cache"


class Pipe(object):
    """one constructed pipeline (a 'program'): elements + the way it is assembled and started"""

    def __init__(self, desc, rec, paths, log):
        self.form = desc["form"]
        self.log = log
        self.src = Src(log)
        self.maps = {}
        self.caches = {}
        els = []
        for kind, name in stage_list(desc):
            if kind == "map":
                m = Map(log, name)
                self.maps[name] = m
                els.append(m)
            else:
                kw = {}
                if rec.get(name):
                    kw["recompute"] = True
                if desc.get("method"):
                    kw["method"] = desc["method"]
                if desc.get("protocol") is not None:
                    kw["protocol"] = desc["protocol"]
                c = Cache(paths[name], **kw)
                self.caches[name] = c
                els.append(c)
        if desc.get("template"):
            els = [SetContext("name", "ctx")] + els
        self.els = els
        f = self.form
        first_cache = [i for i, el in enumerate(els) if isinstance(el, Cache)][0]
        if f in ("seq", "cache_alter_seq", "core_alter_seq", "split_seq"):
            self.base = Sequence(*els)
        elif f in ("source", "cache_alter_source", "core_alter_source", "split_source"):
            self.base = Source(self.src, *els)
        elif f == "cache_alter_nested":
            self.base = Sequence(*(els[:first_cache] + [Sequence(*els[first_cache:])]))
        elif f == "cache_alter_nested2":
            last_cache = [i for i, el in enumerate(els) if isinstance(el, Cache)][-1]
            self.base = Sequence(*([Sequence(*els[:last_cache + 1])] + els[last_cache + 1:]))
        elif f in ("cache_alter_tuple", "split_tuple"):
            self.base = tuple(els)
        elif f in FORMS_LONE:
            assert len(els) == 1
            self.base = els[0]
        else:
            raise ValueError(f)

    def run_any(self, x):
        if isinstance(x, Source):
            return x()
        if isinstance(x, (tuple, list)):
            return Sequence(*x).run(self.src())
        return x.run(self.src())

    def start(self):
        f = self.form
        if f in ("seq", "el"):
            return self.base.run(self.src())
        if f == "source":
            return self.base()
        if f.startswith("cache_alter"):
            return self.run_any(Cache.alter_sequence(self.base))
        if f.startswith("core_alter"):
            return self.run_any(lena.core.alter_sequence(self.base))
        if f in ("split_seq", "split_el"):
            return Split([self.base], bufsize=None).run(self.src())
        if f == "split_el_blocks":
            # a bare filled Cache in a Split is hoisted into a Source by alter_sequence: it yields the stored flow
            # once, however many blocks the incoming flow has (filling inside a many-block Split is documented as wrong)
            if self.filled_hint:
                return Split([self.base], bufsize=1).run(self.src())
            return self.base.run(self.src())
        if f == "split_tuple":
            return Split([self.base], bufsize=100).run(self.src())
        if f == "split_source":
            return Split([self.base])()
        raise ValueError(f)

    def arm(self, srcvals, crash):
        del self.log[:]
        self.src.values = srcvals
        self.src.raise_at = None
        for m in self.maps.values():
            m.count = 0
            m.raise_at = None
        if crash and crash["kind"] == "raise":
            if crash["stage"] == "src":
                self.src.raise_at = crash["k"]
            else:
                self.maps[crash["stage"]].raise_at = crash["k"]


def execute(pipe, crash):
    """run the real pipeline as a consumer would; returns (values received, flow exhausted?, exception name, log)"""
    out = []
    completed = False
    exc = None
    it = None
    try:
        with watchdog(2):
            it = iter(pipe.start())
            if crash and crash["kind"] == "stop":
                for _ in range(crash["k"]):
                    try:
                        out.append(next(it))
                    except StopIteration:
                        completed = True
                        break
                # the consumer stops: the abandoned generator is closed / collected
                if hasattr(it, "close"):
                    it.close()
            else:
                for v in it:
                    out.append(v)
                completed = True
    except Boom:
        exc = "Boom"
    except Timeout:
        exc = "Timeout"
    except Exception as e:   # noqa
        exc = "%s: %s" % (type(e).__name__, str(e)[:80])
    del it
    return out, completed, exc, list(pipe.log)


def read_raw(path):
    """the cache file as the property's state description: a pickle stream of values"""
    vals = []
    with open(path, "rb") as f:
        while True:
            try:
                vals.append(pickle.load(f))
            except EOFError:
                break
            except Exception:
                vals.append("<unreadable>")
                break
    return vals


# --------------------------------------------------------------------------------------------------------------
# one history
# --------------------------------------------------------------------------------------------------------------
_WORK = [None]


def workdir():
    if _WORK[0] is None:
        _WORK[0] = tempfile.mkdtemp(prefix="C18-", dir="/var/tmp")
    return _WORK[0]


def cleanup():
    if _WORK[0] is not None:
        shutil.rmtree(_WORK[0], ignore_errors=True)
        _WORK[0] = None


def fresh_cache(desc, path, **kw):
    """a Cache object as a new program would create it (file name template resolved through the static context)"""
    c = Cache(path, **kw)
    if desc.get("template"):
        Sequence(SetContext("name", "ctx"), c)
    return c


def dedupe(alts):
    res, seen = [], set()
    for a in alts:
        key = canon(a)
        if key not in seen:
            seen.add(key)
            res.append(a)
    return res


def crash_kind(stages, crash):
    if crash["kind"] == "stop":
        return "consumer-stop"
    if crash["stage"] == "src":
        return "upstream-raise"
    last_cache = max(i for i, s in enumerate(stages) if s[0] == "cache")
    pos = [i for i, s in enumerate(stages) if s[1] == crash["stage"]][0]
    return "upstream-raise" if pos < last_cache else "downstream-raise"


def describe(desc, upto):
    steps = []
    for s in desc["steps"][:upto + 1]:
        t = s["op"]
        if s.get("rec"):
            t += "(recompute=%s)" % ",".join(s["rec"])
        if s.get("drop"):
            t += "(%s)" % ",".join(s["drop"])
        if s.get("crash"):
            c = s["crash"]
            t += "[consumer stops after %d]" % c["k"] if c["kind"] == "stop" else "[%s raises at value %d]" % (c["stage"], c["k"])
        steps.append(t)
    pipe = " -> ".join(n if k == "map" else "Cache(%s)" % n for k, n in stage_list(desc))
    return "%s, pipeline src -> %s, %s values, n=%d: %s" % (FORM_DOC[desc["form"]], pipe, desc["kind"], desc["n"], "; ".join(steps))


def check_history(desc):
    """execute one history on the real code and compare with the reference; returns [(fid, what)]"""
    fails = []
    stages = stage_list(desc)
    names = [n for k, n in stages if k == "cache"]
    d = workdir()
    paths, real = {}, {}
    for n in names:
        real[n] = os.path.join(d, "sub", "cache_%s.pkl" % n) if not desc.get("template") else os.path.join(d, "sub", "ctx_%s.pkl" % n)
        paths[n] = real[n] if not desc.get("template") else os.path.join(d, "sub", "{{name}}_%s.pkl" % n)
    for p in list(real.values()):
        if os.path.exists(p):
            os.remove(p)
    state = dict((n, [None]) for n in names)    # allowed states of every cache file
    dropped = set()
    last_crash = None
    g = group(desc["form"])
    check_src = desc["form"] not in ("split_seq", "split_tuple", "split_el", "split_el_blocks")
    pipe = None
    r = 0
    log = []
    for si, step in enumerate(desc["steps"]):
        op = step["op"]
        if op == "drop":
            for n in step["drop"]:
                must_exist = all(a is not None for a in state[n])
                may_exist = any(a is not None for a in state[n])
                exc = None
                try:
                    c = pipe.caches[n] if (pipe is not None and step.get("same_object")) else fresh_cache(desc, paths[n])
                    c.drop_cache()
                except OSError as e:
                    exc = type(e).__name__
                except Exception as e:   # noqa
                    exc = "!" + type(e).__name__
                if exc is not None and (must_exist or exc.startswith("!")):
                    fails.append(("Cache/drop_cache/unexpected-exception", "%s: drop_cache() of an existing cache raised %s" % (describe(desc, si), exc)))
                if os.path.exists(real[n]):
                    fails.append(("Cache/drop_cache/file-remains", "%s: cache file still exists after drop_cache()" % describe(desc, si)))
                    return fails
                state[n] = [None]
                dropped.add(n)
            continue
        # a run
        r += 1
        rec = dict((n, True) for n in step.get("rec", []))
        if op == "again" and pipe is not None:
            rec = pipe.rec
        else:
            try:
                pipe = Pipe(desc, rec, paths, log)
                pipe.rec = rec
            except Exception as e:   # noqa
                fails.append(("%s/construction/unexpected-exception" % g, "%s: %s" % (describe(desc, si), e)))
                return fails
        crash = step.get("crash")
        srcvals = src_values(desc["kind"], r, run_len(desc["n"], r))
        pipe.arm(srcvals, crash)
        pipe.filled_hint = all(a is not None for a in state["A"]) and not rec.get("A")
        obs = execute(pipe, crash)
        combos = [dict(zip(names, c)) for c in itertools.product(*[state[n] for n in names])]
        cands = [predict(stages, c, rec, srcvals, crash, not check_src) for c in combos]
        verdicts = [match(e, obs, check_src) for e in cands]
        ok = [e for e, v in zip(cands, verdicts) if v is None]
        uncertain = len(cands) > 1
        # phase label (which sentence of the property)
        e0 = cands[0]
        if uncertain:
            phase = "after-" + last_crash
        elif not e0.src_used:
            phase = "replay" if not e0.filling else "replay-upstream-cache"
        elif any(rec.get(n) and e0.combo[n] is not None for n in names):
            phase = "recompute"
        elif dropped:
            phase = "after-drop"
        else:
            phase = "first-run"
        if crash:
            phase += "-interrupted"
        if not ok:
            out, completed, exc, _ = obs
            clause = None
            whole = None
            if last_crash is not None and exc is None and completed:
                for e in cands:
                    if len(out) < len(e.out) and is_prefix(out, e.out):
                        clause = "truncated"
                        whole = e.out
                        break
            if clause == "truncated":
                fid = "Cache/truncated-prefix-served/" + last_crash
                what = "%s: this run yielded %s and finished normally - a prefix stored by the interrupted run, presented as the whole flow (the complete flow is %s)" % (
                    describe(desc, si), canon(out)[:150], canon(whole)[:150])
            else:
                # report against the closest reference run
                best = None
                for e, v in zip(cands, verdicts):
                    if v not in ("output-differs", "unexpected-exception", "injected-exception-swallowed"):
                        best = (e, v)
                        break
                if best is None:
                    best = (cands[0], verdicts[0])
                fid = "%s/%s/%s" % (g, phase, best[1])
                what = "%s: got %s%s%s, reference %s%s; element log %s" % (
                    describe(desc, si), canon(out)[:150], "" if completed else " (not exhausted)", " then %s" % exc if exc else "",
                    canon(best[0].out)[:150], " (interrupted: %s at %s)" % (best[0].trig, best[0].k) if best[0].trig else "",
                    canon(obs[3])[:200])
            fails.append((fid, what))
            return fails
        # state after the run
        interrupted = any(e.trig for e in ok)
        new = dict((n, []) for n in names)
        for e in ok:
            for n in names:
                if n in e.filling:
                    if e.trig:
                        new[n] += [None, e.combo[n], e.filling[n]]
                    else:
                        new[n].append(e.filling[n])
                else:
                    new[n].append(e.combo[n])
        state = dict((n, dedupe(new[n])) for n in names)
        if crash and any(e.trig and e.filling for e in ok):
            last_crash = crash_kind(stages, crash)
        for n in names:
            if len(state[n]) == 1 and state[n][0] is not None:
                dropped.discard(n)
        # the cache files after a complete run
        if not interrupted:
            for n in names:
                if len(state[n]) != 1:
                    continue
                want = state[n][0]
                exists = os.path.exists(real[n])
                if want is None:
                    if exists:
                        fails.append(("%s/%s/cache-file-created-without-flow" % (g, phase),
                                      "%s: Cache(%s) received no flow in this run, but its file now exists" % (describe(desc, si), n)))
                        return fails
                    continue
                if not exists:
                    fails.append(("%s/%s/cache-file-missing" % (g, phase), "%s: no file for Cache(%s) after a complete run" % (describe(desc, si), n)))
                    return fails
                raw = read_raw(real[n])
                if canon(raw[:len(want)]) != canon(want):
                    fails.append(("%s/%s/cache-file-content" % (g, phase), "%s: file of Cache(%s) holds %s, the flow was %s" % (
                        describe(desc, si), n, canon(raw)[:150], canon(want)[:150])))
                    return fails
                if n not in ok[0].filling and si + 1 < len(desc["steps"]):
                    continue
                c1 = fresh_cache(desc, paths[n])
                c2 = fresh_cache(desc, paths[n], recompute=True)
                if c1.cache_exists() is not True or c2.cache_exists() is not False:
                    fails.append(("Cache/cache_exists/wrong", "%s: cache_exists() = %r, with recompute=True %r; expected True, False" % (
                        describe(desc, si), c1.cache_exists(), c2.cache_exists())))
                    return fails
            if desc.get("template"):
                for n in names:
                    if os.path.exists(paths[n]):
                        fails.append(("Cache/filename-template/unformatted-file", "%s: file with the unformatted name exists" % describe(desc, si)))
    return fails


def replay_history(desc, fid):
    try:
        return any(f == fid for f, _ in check_history(desc))
    finally:
        cleanup()


# --------------------------------------------------------------------------------------------------------------
# scopes
# --------------------------------------------------------------------------------------------------------------
def D(form, u, d, n, kind, steps, two=False, m=0, **kw):
    desc = {"form": form, "u": u, "m": m, "d": d, "two": two, "n": n, "kind": kind, "steps": steps}
    desc.update(kw)
    return desc


def forms_for(u, m, d, two):
    res = list(FORMS_ANY)
    if not two and u == 0 and d == 0:
        res += FORMS_LONE
    return res


def crash_points(stages, n_r, u_raise=True):
    """every crash point of a run whose flow has n_r values"""
    pts = [{"kind": "stop", "k": k} for k in range(n_r + 1)]
    for st in ["src"] + [name for kind, name in stages if kind == "map"]:
        for k in range(n_r):
            pts.append({"kind": "raise", "stage": st, "k": k})
    return pts


def run_scope(R, descs):
    for desc in descs:
        fails = check_history(desc)
        R.case(True, {"history": describe(desc, len(desc["steps"]))})
        for fid, what in fails:
            R.fail(fid, what, desc, {"fn": "replay_history", "args": [desc, fid]})


KINDS = ["int", "ctx", "mixed"]


def scope_single_free(R, N, L, uds, forms, label):
    ops = [{"op": "run"}, {"op": "again"}, {"op": "run", "rec": ["A"]}, {"op": "drop", "drop": ["A"]}]
    R.scope("Cache in %s: crash-free histories" % label,
            "one Cache; every history of length 1..%d over {run (fresh pipeline), again (same pipeline object), run with recompute=True, "
            "drop_cache()}; (#elements before, after the Cache) in %s; flow length n in 0..%d (later runs n+1, n-1, ..; fresh tagged values "
            "per run); value kinds int / (data, context) / mixed picklable incl. falsy, cycled; forms: %s" % (L, uds, N, ", ".join(forms)), True)

    def gen():
        i = 0
        for (u, d) in uds:
            for form in forms:
                if form in FORMS_LONE and (u, d) != (0, 0):
                    continue
                for n in range(N + 1):
                    for ln in range(1, L + 1):
                        for hist in itertools.product(ops, repeat=ln):
                            if hist[0]["op"] == "again":
                                continue     # same as run
                            i += 1
                            yield D(form, u, d, n, KINDS[i % 3], [dict(s) for s in hist])
    run_scope(R, gen())


def scope_single_crash(R, N, uds, forms, label):
    R.scope("Cache in %s: every crash point of a filling or replaying run" % label,
            "one Cache; state before in {absent, filled by a complete run}; interrupted run in {run, run with recompute=True}; crash point: "
            "consumer stops after k=0..n values, or src / any element before / after the Cache raises at value k=0..n-1; then a later run in "
            "{run, again} and one more run (must replay the later run without touching upstream); (#before, #after) in %s; n in 0..%d; forms: %s"
            % (uds, N, ", ".join(forms)), True)

    def gen():
        i = 0
        for (u, d) in uds:
            for form in forms:
                if form in FORMS_LONE and (u, d) != (0, 0):
                    continue
                base = D(form, u, d, 0, "int", [])
                stages = stage_list(base)
                for n in range(N + 1):
                    for setup in ([], [{"op": "run"}]):
                        r_int = len(setup) + 1
                        for rec in ([], ["A"]):
                            for cp in crash_points(stages, run_len(n, r_int)):
                                for later in ("run", "again"):
                                    i += 1
                                    steps = [dict(s) for s in setup] + [{"op": "run", "rec": rec, "crash": cp}, {"op": later}, {"op": "run"}]
                                    if later == "again" and rec:
                                        continue   # the same object would recompute again: covered by the crash-free scope
                                    yield D(form, u, d, n, KINDS[i % 3], steps)
    run_scope(R, gen())


TWO_OPS = [{"op": "run"}, {"op": "again"}, {"op": "run", "rec": ["A"]}, {"op": "run", "rec": ["B"]}, {"op": "run", "rec": ["A", "B"]},
           {"op": "drop", "drop": ["A"]}, {"op": "drop", "drop": ["B"]}, {"op": "drop", "drop": ["A", "B"]}]


def scope_two_free(R, ns, L, umds, forms):
    R.scope("two Caches: crash-free histories",
            "pipeline src -> u maps -> Cache A -> m maps -> Cache B -> d maps, (u, m, d) in %s; every history of length 1..%d over {run, again, "
            "recompute A / B / both, drop A / B / both}; n in %s; forms: %s" % (umds, L, ns, ", ".join(forms)), True)

    def gen():
        i = 0
        for (u, m, d) in umds:
            for form in forms:
                for n in ns:
                    for ln in range(1, L + 1):
                        for hist in itertools.product(TWO_OPS, repeat=ln):
                            if hist[0]["op"] != "run" or "rec" in hist[0]:
                                continue    # on an empty directory the first step 'run' stands for all others
                            i += 1
                            yield D(form, u, d, n, KINDS[i % 3], [dict(s) for s in hist], two=True, m=m)
    run_scope(R, gen())


def scope_two_crash(R, ns, umds, forms):
    R.scope("two Caches: every crash point",
            "(u, m, d) in %s; states (A, B) in {absent, filled}^2 reached by run / run, drop; interrupted run with recompute in {none, A, B, both}; "
            "crash point: consumer stops after k=0..n, or src / any element before A, between A and B, after B raises at value k=0..n-1 "
            "(a raise between the caches is 'upstream' of the cache that serves next, B); then run, run; n in %s; forms: %s"
            % (umds, ns, ", ".join(forms)), True)
    setups = [[], [{"op": "run"}], [{"op": "run"}, {"op": "drop", "drop": ["A"]}], [{"op": "run"}, {"op": "drop", "drop": ["B"]}]]

    def gen():
        i = 0
        for (u, m, d) in umds:
            for form in forms:
                stages = stage_list(D(form, u, d, 0, "int", [], two=True, m=m))
                for n in ns:
                    for setup in setups:
                        r_int = sum(1 for s in setup if s["op"] != "drop") + 1
                        for rec in ([], ["A"], ["B"], ["A", "B"]):
                            for cp in crash_points(stages, run_len(n, r_int)):
                                i += 1
                                steps = [dict(s) for s in setup] + [{"op": "run", "rec": rec, "crash": cp}, {"op": "run"}, {"op": "run"}]
                                yield D(form, u, d, n, KINDS[i % 3], steps, two=True, m=m)
    run_scope(R, gen())


def scope_pickle(R, N):
    R.scope("Cache(method, protocol): stored values come back equal and in order",
            "method in {default, pickle, cPickle} x protocol in {default, 0..5} x value kinds x n in 0..%d x history run, run, recompute, run "
            "x forms seq / cache_alter_seq; plus the same with a '{{name}}' file name template set by SetContext" % N, True)

    def gen():
        hist = [{"op": "run"}, {"op": "run"}, {"op": "run", "rec": ["A"]}, {"op": "run"}, {"op": "drop", "drop": ["A"]}, {"op": "run"}]
        for method in (None, "pickle", "cPickle"):
            for protocol in (None, 0, 1, 2, 3, 4, 5):
                for kind in KINDS:
                    for n in range(N + 1):
                        for form in ("seq", "cache_alter_seq"):
                            yield D(form, 1, 1, n, kind, [dict(s) for s in hist], method=method, protocol=protocol)
        for kind in KINDS:
            for n in range(N + 1):
                for form in ("seq", "source", "cache_alter_seq", "cache_alter_source", "core_alter_seq", "split_seq"):
                    for two in (False, True):
                        yield D(form, 1, 1, n, kind, [dict(s) for s in hist], template=True, two=two, m=1)
                        yield D(form, 1, 1, n, kind, [dict(s) for s in hist[:1]] + [{"op": "run", "crash": {"kind": "stop", "k": 0}}, {"op": "run"}],
                                template=True, two=two, m=1)
    run_scope(R, gen())


def scope_random(R, count, N, L):
    R.scope("random histories",
            "%d random histories: length 1..%d, one or two Caches, 0..2 maps in every position, n in 0..%d, any form, any step in {run, again, "
            "recompute of any subset, drop of any subset (fresh or same Cache object)} with a random crash point with probability 1/3, "
            "random method / protocol" % (count, L, N), False)
    rng = R.rng

    def gen():
        for _ in range(count):
            two = rng.random() < 0.5
            u, m, d = rng.randint(0, 2), rng.randint(0, 2), rng.randint(0, 2)
            forms = forms_for(u, m, d, two)
            form = rng.choice(forms)
            n = rng.randint(0, N)
            names = ["A", "B"] if two else ["A"]
            desc = D(form, u, d, n, rng.choice(KINDS), [], two=two, m=m,
                     method=rng.choice([None, "pickle", "cPickle"]), protocol=rng.choice([None, 0, 2, 4]))
            stages = stage_list(desc)
            r = 0
            for _s in range(rng.randint(1, L)):
                x = rng.random()
                if x < 0.2:
                    desc["steps"].append({"op": "drop", "drop": rng.sample(names, rng.randint(1, len(names))), "same_object": rng.random() < 0.5})
                    continue
                r += 1
                step = {"op": "again" if x < 0.35 else "run"}
                if step["op"] == "run" and rng.random() < 0.3:
                    step["rec"] = sorted(rng.sample(names, rng.randint(1, len(names))))
                if rng.random() < 0.34:
                    pts = crash_points(stages, run_len(n, r) + 1)
                    step["crash"] = rng.choice(pts)
                desc["steps"].append(step)
            yield desc
    run_scope(R, gen())


class _Stamp(object):
    """downstream element that changes every value IN PLACE (context counter, data list) and passes it on"""

    def run(self, flow):
        for val in flow:
            data, ctx = val
            ctx["seen"] = ctx.get("seen", 0) + 1
            ctx.setdefault("marks", []).append(len(data))
            data.append("stamped")
            yield val


def downstream_mutation_case(n, hoist, take):
    """"stores it" = stores the flow as it ARRIVED: what a later element does in place to a value after the Cache handed
    it on must not end up in the cache.  take: None = consume everything, k = the consumer stops after k values (then
    nothing may be stored at all).  Returns None or a description."""
    path = os.path.join(workdir(), "mut_%d_%s_%s.pkl" % (n, hoist, take))
    if os.path.exists(path):
        os.remove(path)
    made = [([i, "v"], {"i": i, "d": {"k": [i]}}) for i in range(n)]
    arrived = copy.deepcopy(made)
    seq = Sequence(Cache(path), _Stamp())
    it = seq.run(iter(made))
    out1 = list(it) if take is None else [next(it) for _ in range(min(take, n))]
    if take is not None:
        if hasattr(it, "close"):
            it.close()
        if take < n + 1 and os.path.exists(path) and take <= n - 1:
            return "consumer stopped after %d of %d values but a cache file exists: %r" % (take, n, read_raw(path))
        return None
    stored = read_raw(path) if os.path.exists(path) else "<no file>"
    if stored != arrived:
        return "first run over %d values with an in-place mutator after the Cache: the cache holds %r, the flow that arrived was %r" % (
            n, stored, arrived)
    seq2 = Sequence(Cache(path), _Stamp())
    if hoist:
        seq2 = Cache.alter_sequence(seq2)
        out2 = list(seq2()) if hasattr(seq2, "__call__") and not hasattr(seq2, "run") else list(seq2.run(iter([])))
    else:
        out2 = list(seq2.run(iter([])))
    if out2 != out1:
        return "replay through the same pipeline gives %r, the first run gave %r" % (out2, out1)
    return None


def replay_downstream_mutation(n, hoist, take):
    try:
        return downstream_mutation_case(n, hoist, take) is not None
    finally:
        cleanup()


def body(R):
    R.scope("Cache followed by an element that changes values in place",
            "flows of 0..1200 (data, context) pairs (lists and nested dictionaries) x replay in the Sequence / hoisted by "
            "Cache.alter_sequence x consumer takes everything or stops after 0, 1, n-1 values: the cache holds the flow as it "
            "arrived, the replay equals the first run", True)
    try:
        for n in (0, 1, 2, 3, 7, 1200):
            for hoist in (False, True):
                for take in [None] + sorted({0, 1, max(n - 1, 0)}):
                    if take is not None and (hoist or take > n):
                        continue
                    R.case(n > 0, {"n": n, "hoist": hoist, "take": take} if n == 2 else None)
                    try:
                        bad = downstream_mutation_case(n, hoist, take)
                    except Exception as e:
                        bad = "raised %s: %s" % (type(e).__name__, e)
                    if bad:
                        R.fail("Cache/stored-flow-differs-from-arrived-flow/downstream-mutation", bad, {"n": n, "hoist": hoist, "take": take},
                               {"fn": "replay_downstream_mutation", "args": [n, hoist, take]})
    finally:
        cleanup()
    try:
        all_forms = FORMS_ANY + FORMS_LONE
        if R.thorough:
            scope_single_free(R, 4, 4, [(0, 0), (1, 1), (2, 0), (0, 2)], all_forms, "Sequence / Source / alter_sequence / Split")
            scope_single_crash(R, 4, [(u, d) for u in range(3) for d in range(3)], all_forms, "Sequence / Source / alter_sequence / Split")
            scope_two_free(R, [0, 1, 3], 3, [(u, m, d) for u in (0, 1) for m in (0, 1) for d in (0, 1)],
                           ["seq", "source", "cache_alter_seq", "cache_alter_source", "cache_alter_nested", "core_alter_seq", "split_seq", "split_source"])
            scope_two_crash(R, [0, 1, 2, 3], [(u, m, d) for u in (0, 1) for m in (0, 1) for d in (0, 1)],
                            ["seq", "source", "cache_alter_seq", "cache_alter_source", "cache_alter_nested", "core_alter_seq", "split_seq", "split_source"])
            scope_pickle(R, 4)
            scope_random(R, 12000, 8, 8)
        else:
            scope_single_free(R, 2, 3, [(0, 0), (1, 1), (2, 2)], all_forms, "Sequence / Source / alter_sequence / Split")
            scope_single_crash(R, 3, [(0, 0), (1, 1)], all_forms, "Sequence / Source / alter_sequence / Split")
            scope_two_free(R, [2], 2, [(0, 0, 0), (1, 1, 1), (0, 1, 0)], ["seq", "source", "cache_alter_seq", "cache_alter_source", "split_seq"])
            scope_two_crash(R, [0, 2], [(1, 1, 1), (0, 0, 0)], ["seq", "cache_alter_source"])
            scope_pickle(R, 2)
            scope_random(R, 1500, 6, 6)
    finally:
        cleanup()


if __name__ == "__main__":
    R = Run("C18", {"replay_history": replay_history, "replay_downstream_mutation": replay_downstream_mutation})
    sys.exit(R.main(body, "histories of runs of the real pipelines on a temporary directory against the reference state machine of the "
                          "property; a case is one history (1..8 runs, each compared: values, per-element logs, source pulls, cache files); "
                          "distinct by construction of the enumeration"))
