"""C16 bounded stand-in: the REAL FillRequest (run / fill / request), FillRequestSeq and Split-around-a-FillRequest
against the block reference of the property text (DESIGN Appendix A `blocks_spec`):

  run:   results == concatenation over consecutive blocks of n values of what the wrapped element yields for the block
         (element reset between blocks iff reset), final partial block only with yield_on_remainder, nothing for an
         empty flow; produced block by block (block j is yielded before the flow is read past block j, one value of
         look-ahead tolerated);
  fill/request (any schedule, as Split does): after every request() the concatenation of all request() results so far
         == run-reference (yield_on_remainder off) of everything filled so far; every call returns (step watchdog: number
         of executed lines of lena code per call, plus a 2 s wall-clock backstop); after a request() at most one block
         stays buffered (sizes of _buffer_in / _buffer_out); with yield_on_remainder on (results not specified by the
         property) every value is still accounted for once and in order.

Wrapped elements are harness test doubles with tagged results (every result carries the exact list of values it was
computed from), so order, attribution, loss, duplication and missing/extra resets are all visible in the results.

Failure ids encode the REGION of the configuration space:
  <function>/<clause>/<buffer_input|buffer_output>/<where>/<reset=..>[/yield_on_remainder]
where, for schedules, <where> is
  aligned-requests             every request() so far (this one included) came at a multiple of the block size,
  at-first-misaligned-request  this request() is the first one that is not at a block boundary,
  after-misaligned-request     some earlier request() was not at a block boundary,
and for fill(): within-block / past-full-block (a full block was filled since the last request()).
"""
import itertools
import os
import sys
sys.path.insert(0, os.path.dirname(os.path.dirname(os.path.abspath(__file__))))
from bounded.common import Run, watchdog, Timeout

import lena
import lena.core
from lena.core import FillRequest, FillRequestSeq, Split

LENA_DIR = os.path.dirname(os.path.abspath(lena.__file__)) + os.sep


# ---------------------------------------------------------------------------------------------- step watchdog
class StepLimit(BaseException):
    """more lines of lena code executed in one call than any terminating run of this scope can need"""


class _Count(object):
    n = 0
    limit = float("inf")


_mon = getattr(sys, "monitoring", None)
if _mon is not None:
    # Python >= 3.12: line events of PEP 669 (about 3 times cheaper than sys.settrace)
    def _on_line(code, line):
        if not code.co_filename.startswith(LENA_DIR):
            return _mon.DISABLE
        _Count.n += 1
        if _Count.n > _Count.limit:
            _Count.limit = float("inf")
            raise StepLimit()

    _TOOL = None
    for _t in (4, 3, 5, 2):
        try:
            _mon.use_tool_id(_t, "C16-step-watchdog")
            _TOOL = _t
            break
        except ValueError:
            continue
    if _TOOL is None:
        _mon = None
    else:
        _mon.register_callback(_TOOL, _mon.events.LINE, _on_line)
        _mon.set_events(_TOOL, _mon.events.LINE)


class steps(object):
    """deterministic hang detector: counts the executed lines of the files of the lena package and raises StepLimit
    in the running lena code when more than `limit` of them were executed inside the with block"""

    def __init__(self, limit):
        self.limit = limit

    def _global(self, frame, event, arg):
        if frame.f_code.co_filename.startswith(LENA_DIR):
            return self._local
        return None

    def _local(self, frame, event, arg):
        if event == "line":
            _Count.n += 1
            if _Count.n > _Count.limit:
                _Count.limit = float("inf")
                raise StepLimit()
        return self._local

    def __enter__(self):
        _Count.n = 0
        _Count.limit = self.limit
        if _mon is None:
            sys.settrace(self._global)
        return self

    def __exit__(self, *a):
        if _mon is None:
            sys.settrace(None)
        _Count.limit = float("inf")
        return False


WALL = [False]


class wallclock(watchdog):
    """the 2 s wall-clock backstop (for loops outside lena code, which the step watchdog cannot see); notes that it fired,
    so that the case is re-run once before a hang is reported (a busy machine must not produce a false alarm)"""

    def __exit__(self, et, ev, tb):
        if et is not None and issubclass(et, Timeout):
            WALL[0] = True
        return watchdog.__exit__(self, et, ev, tb)


class TooSlow(Exception):
    pass


def confirmed(case, *args):
    WALL[0] = False
    bad = case(*args)
    if WALL[0]:
        WALL[0] = False
        bad = case(*args)
        if WALL[0]:
            WALL.append(args)
            if len(WALL) > 6:
                # every such case costs 4 s: keep the time budget, the failures found so far are reported
                raise TooSlow("more than 5 cases confirmed as hanging by the wall-clock watchdog; remaining cases not run")
    return bad


def call_steps(L):
    """bound on the executed lena lines of one fill()/request() call in a history of L fills (measured over all scopes
    below, unchanged tree and a repaired tree: no terminating call uses more than a quarter of its bound)"""
    return 300 + 60 * L


def run_steps(L):
    """the same for one whole run() / Split.run() / FillRequestSeq.run() over L values"""
    return 1500 + 300 * L


# ---------------------------------------------------------------------------------------------- test doubles
class FC(object):
    """fill/compute element: m results per compute(), each carrying the values filled since the last reset"""
    tag = "c"

    def __init__(self, m):
        self.m = m
        self.v = []

    def fill(self, x):
        self.v.append(x)

    def compute(self):
        snap = list(self.v)
        for i in range(self.m):
            yield [self.tag, i, list(snap)]

    def reset(self):
        self.v = []


class FQ(object):
    """fill/request element (its compute must never be used: request is documented to take precedence)"""
    tag = "q"

    def __init__(self, m):
        self.m = m
        self.v = []

    def fill(self, x):
        self.v.append(x)

    def request(self):
        snap = list(self.v)
        for i in range(self.m):
            yield [self.tag, i, list(snap)]

    def compute(self):
        yield ["compute-used-although-request-exists"]

    def reset(self):
        self.v = []


class RunEl(object):
    """run element with state: one result per value carrying everything seen since the last reset,
    and an end marker with the number of values this run() call received"""

    def __init__(self):
        self.seen = []

    def run(self, flow):
        cnt = 0
        for v in flow:
            cnt += 1
            self.seen.append(v)
            yield ["r", v, list(self.seen)]
        yield ["e", cnt]

    def reset(self):
        self.seen = []


class RunElNoReset(object):
    def __init__(self):
        self.seen = []

    def run(self, flow):
        cnt = 0
        for v in flow:
            cnt += 1
            self.seen.append(v)
            yield ["r", v, list(self.seen)]
        yield ["e", cnt]


class RunFirst(object):
    """stateless run element that reads only the first k values of the flow it is given (like lena.flow.Slice(k))"""

    def __init__(self, k):
        self.k = k

    def run(self, flow):
        for v in itertools.islice(flow, self.k):
            yield ["p", v]


def make_el(cfg):
    k = cfg["kind"]
    if k == "fc":
        return FC(cfg.get("m", 1))
    if k == "fq":
        return FQ(cfg.get("m", 1))
    if k == "run":
        return RunEl()
    if k == "run0":
        return RunElNoReset()
    if k == "first":
        return RunFirst(cfg["k"])
    raise ValueError(k)


def make_fr(cfg):
    kw = dict(bufsize=cfg["n"], reset=cfg["reset"], yield_on_remainder=cfg.get("yor", False))
    if cfg["buf"] == "in":
        kw["buffer_input"] = True
    elif cfg["buf"] == "out":
        kw["buffer_output"] = True
    return FillRequest(make_el(cfg), **kw)


class CountingIter(object):
    def __init__(self, xs):
        self.it = iter(xs)
        self.consumed = 0

    def __iter__(self):
        return self

    def __next__(self):
        v = next(self.it)
        self.consumed += 1
        return v


FALSY = [0, None, "", [], {}]


def make_flow(L, variant):
    if variant == "ints":
        return list(range(L))
    # every second value is falsy; the others keep positions recognisable
    return [FALSY[(i // 2) % 5] if i % 2 == 0 else 100 + i for i in range(L)]


# ---------------------------------------------------------------------------------------------- reference
def blocks_spec(cfg, flow, yor):
    """list of per-block result lists, from the property text"""
    kind, n, reset = cfg["kind"], cfg["n"], bool(cfg["reset"])
    m = cfg.get("m", 1)
    out, acc = [], []
    for j in range(0, len(flow), n):
        blk = flow[j:j + n]
        if len(blk) < n and not yor:
            break
        if kind in ("run", "run0"):
            res = []
            for v in blk:
                acc = acc + [v]
                res.append(["r", v, list(acc)])
            res.append(["e", len(blk)])
        elif kind == "first":
            res = [["p", v] for v in blk[:cfg["k"]]]
        else:
            acc = acc + blk
            res = [["c" if kind == "fc" else "q", i, list(acc)] for i in range(m)]
        if reset:
            acc = []
        out.append(res)
    return out


def flat(blocks):
    return [r for b in blocks for r in b]


def bufname(cfg):
    return {"in": "buffer_input", "out": "buffer_output", "none": "no-buffer-option"}[cfg["buf"]]


def tail(cfg):
    return "reset=%s%s" % (bool(cfg["reset"]), "/yield_on_remainder" if cfg.get("yor") else "")


def short(x, k=300):
    s = repr(x)
    return s if len(s) <= k else s[:k] + "..."


# ---------------------------------------------------------------------------------------------- scope 1: run()
def case_run(cfg, flow):
    """returns [(fid, what)] for FillRequest.run(iter(flow))"""
    exp_blocks = blocks_spec(cfg, flow, cfg.get("yor", False))
    exp = flat(exp_blocks)
    n = cfg["n"]
    reg = "%s/%s" % ("run-element" if cfg["kind"] in ("run", "run0") else
                     "partial-consumer-run-element" if cfg["kind"] == "first" else
                     "fill-compute-element" if cfg["kind"] == "fc" else "fill-request-element",
                     bufname(cfg) + ("/yield_on_remainder" if cfg.get("yor") else ""))
    desc = "FillRequest(%s, bufsize=%d, %s, reset=%r, yield_on_remainder=%r).run(iter(%s))" % (
        cfg["kind"] + ("(k=%d)" % cfg["k"] if cfg["kind"] == "first" else "(m=%d)" % cfg["m"] if "m" in cfg else ""),
        n, bufname(cfg), cfg["reset"], cfg.get("yor", False), short(flow, 80))
    got, at = [], []
    src = CountingIter(flow)
    try:
        fr = make_fr(cfg)
        with wallclock(2), steps(run_steps(len(flow))):
            for r in fr.run(src):
                got.append(r)
                at.append(src.consumed)
                if len(got) > 10 * (len(flow) + 2) * 3:
                    raise StepLimit()
    except (StepLimit, Timeout):
        return [("FillRequest.run/hang/" + reg, desc + " does not terminate (after %d results)" % len(got))]
    except Exception as e:
        return [("FillRequest.run/exception/" + reg, desc + " raises %s: %s" % (type(e).__name__, e))]
    bad = []
    if got != exp:
        other = flat(blocks_spec(cfg, flow, not cfg.get("yor", False)))
        if not flow:
            clause = "empty-flow-yields"
        elif got == other and cfg.get("yor", False):
            clause = "remainder-not-yielded"
        elif got == other:
            clause = "remainder-yielded-without-flag"
        else:
            clause = "wrong-results"
        bad.append(("FillRequest.run/%s/%s" % (clause, reg), desc + " = %s, expected %s" % (short(got), short(exp))))
    else:
        # block by block: a result of block j is yielded before the flow is read beyond block j (+1 look-ahead)
        i = 0
        for j, b in enumerate(exp_blocks):
            for _ in b:
                if at[i] > (j + 1) * n + 1:
                    bad.append(("FillRequest.run/not-block-by-block/" + reg,
                                desc + ": result %d (block %d) was yielded after %d values had been read" % (i, j, at[i])))
                    return bad
                i += 1
    return bad


# ---------------------------------------------------------------------------------------------- probe
class Probe(object):
    """records every fill()/request() call made on a real FillRequest (by the harness, by FillRequestSeq or by Split):
    argument, results, completion, sizes of the internal buffers afterwards"""

    def __init__(self, fr):
        self.fr = fr
        self.calls = []
        self._fill = fr.fill
        self._request = fr.request
        self.inside = 0
        fr.fill = self.fill
        fr.request = self.request

    def sizes(self):
        bi = getattr(self.fr, "_buffer_in", None)
        bo = getattr(self.fr, "_buffer_out", None)
        return [len(bi) if hasattr(bi, "__len__") else None, len(bo) if hasattr(bo, "__len__") else None]

    def fill(self, v):
        if self.inside:
            return self._fill(v)
        rec = {"fn": "fill", "arg": v, "done": False, "exc": None}
        self.calls.append(rec)
        self.inside += 1
        try:
            self._fill(v)
        except BaseException as e:
            rec["exc"] = e
            raise
        finally:
            self.inside -= 1
        rec["done"] = True
        rec["sizes"] = self.sizes()

    def request(self):
        if self.inside:
            return self._request()
        return self._recorded_request()

    def _recorded_request(self):
        rec = {"fn": "request", "res": [], "done": False, "exc": None}
        self.calls.append(rec)
        self.inside += 1
        try:
            it = self._request()
            while True:
                try:
                    r = next(it)
                except StopIteration:
                    break
                rec["res"].append(r)
                self.inside -= 1
                try:
                    yield r
                finally:
                    self.inside += 1
        except BaseException as e:
            rec["exc"] = e
            raise
        finally:
            self.inside -= 1
        rec["done"] = True
        rec["sizes"] = self.sizes()


def analyse(prefix, cfg, calls, desc, results=True):
    """checks a recorded call history of one FillRequest against the property; [(fid, what)].
    The history is the one the FillRequest itself saw (recorded by the Probe), whoever drove it; results=False checks
    termination and exceptions only (used when somebody else resets the element in between)."""
    n = cfg["n"]
    yor = cfg.get("yor", False)
    m = cfg.get("m", 1)
    H = []
    emitted = []
    mis = 0
    last_req_len = 0
    bad = []
    seen_bound = False
    for c in calls:
        if c["fn"] == "fill":
            pending = len(H) - n * (last_req_len // n)
            where = ("past-full-block" if pending >= n else "within-block")
            phase = "aligned-requests" if mis == 0 else "after-misaligned-request"
            H.append(c["arg"])
            name = "fill"
            callname = "fill #%d (%s)" % (len(H), short(c["arg"], 30))
        else:
            aligned_now = len(H) % n == 0
            phase = ("aligned-requests" if mis == 0 and aligned_now else
                     "at-first-misaligned-request" if mis == 0 else "after-misaligned-request")
            where = None
            name = "request"
            callname = "request() after %d fills" % len(H)
        if not c["done"]:
            e = c["exc"]
            sym = "hang" if isinstance(e, (StepLimit, Timeout)) or e is None else "exception"
            if name == "fill":
                # a hang of fill depends on neither the schedule before nor on reset: region = where the fill falls
                if sym == "hang":
                    fid = "%s.fill/hang/%s/%s%s%s" % (prefix, bufname(cfg), where, "/empty-results" if m == 0 else "",
                                                      "/yield_on_remainder" if yor else "")
                else:
                    fid = "%s.fill/exception/%s/%s/%s/%s" % (prefix, bufname(cfg), where, phase, tail(cfg))
            else:
                fid = "%s.request/%s/%s/%s/%s" % (prefix, sym, bufname(cfg), phase, tail(cfg))
            bad.append((fid, "%s: %s %s" % (desc, callname, "never returns" if sym == "hang" else
                                            "raises %s: %s" % (type(e).__name__, e))))
            return bad
        if name == "request":
            emitted = emitted + c["res"]
            if not yor and results:
                exp = flat(blocks_spec(cfg, H, False))
                if emitted != exp:
                    bad.append(("%s.request/wrong-results/%s/%s/%s" % (prefix, bufname(cfg), phase, tail(cfg)),
                                "%s: concatenated request() results after %s = %s, run reference = %s" % (
                                    desc, callname, short(emitted), short(exp))))
                    results = False     # later results are not comparable; termination and buffer sizes still are
            if yor and results and m >= 1:
                # results are not specified for arbitrary request points with yield_on_remainder, but every value must
                # still be accounted for exactly once, in order
                wellformed = all(isinstance(r, list) and len(r) == 3 and isinstance(r[2], list) for r in emitted)
                snaps = [r[2] for r in emitted if r[1] == 0] if wellformed else emitted
                if not wellformed or not accounted_once(snaps, H, cfg["reset"]):
                    bad.append(("%s.request/values-not-accounted-once/%s/%s/%s" % (prefix, bufname(cfg), phase, tail(cfg)),
                                "%s: the results up to %s were computed from %s, values filled %s" % (
                                    desc, callname, short(snaps), short(H))))
                    results = False
            if len(H) % n:
                mis += 1
            last_req_len = len(H)
            bi, bo = c["sizes"]
            over = (bi is not None and bi > n) or (bo is not None and bo > max(m, 1))
            if over and not seen_bound:
                seen_bound = True
                bad.append(("%s.request/more-than-one-block-buffered/%s/%s/%s" % (prefix, bufname(cfg), phase, tail(cfg)),
                            "%s: after %s len(_buffer_in)=%r len(_buffer_out)=%r, block size %d" % (desc, callname, bi, bo, n)))
    return bad


def accounted_once(snaps, H, reset):
    """snaps: the value lists the successive results were computed from; H: distinct values filled so far.
    Without reset every result is computed from a prefix of H (growing); with reset every result is computed from a
    contiguous slice H[a:b] that starts no later than where the previous one ended (nothing skipped) and ends no
    earlier (whether a remainder result is followed by a reset is left open, so slices may share their start)."""
    end = 0
    for sn in snaps:
        if not sn:
            continue
        if sn[0] not in H:
            return False
        a = 0 if not reset else H.index(sn[0])
        b = a + len(sn)
        if sn != H[a:b] or a > end or b < end:
            return False
        end = b
    return True


def stopped(bad):
    """the history ended in a call of the FillRequest that did not return normally"""
    return any("/hang/" in f or "/exception/" in f for f, _ in bad)


def fr_desc(cfg):
    return "FillRequest(%s(m=%d), bufsize=%d, %s=True, reset=%r%s)" % (
        cfg["kind"], cfg.get("m", 1), cfg["n"], bufname(cfg), cfg["reset"],
        ", yield_on_remainder=True" if cfg.get("yor") else "")


# ---------------------------------------------------------------------------------------------- scope 2: fill/request
def case_drive(cfg, flow, sched):
    """sched[i] = number of request() calls after i fills (i = 0..len(flow))"""
    desc = "%s, fills %s, request() after fills %s" % (
        fr_desc(cfg), short(flow, 80), [i for i, k in enumerate(sched) for _ in range(k)])
    try:
        fr = make_fr(cfg)
        p = Probe(fr)
    except Exception as e:
        return [("FillRequest.__init__/exception", "%s raises %s: %s" % (fr_desc(cfg), type(e).__name__, e))]
    err = None
    try:
        with wallclock(2):
            for i in range(len(flow) + 1):
                if i:
                    with steps(call_steps(len(flow))):
                        fr.fill(flow[i - 1])
                for _ in range(sched[i]):
                    with steps(call_steps(len(flow))):
                        k = 0
                        for _r in fr.request():
                            k += 1
                            if k > 10 * (len(flow) + 2) * 3:
                                raise StepLimit()
    except (StepLimit, Timeout):
        pass
    except Exception as e:
        err = e
    bad = analyse("FillRequest", cfg, p.calls, desc)
    if err is not None and not stopped(bad):
        bad.append(("FillRequest.fill-request/exception-outside-a-call", "%s: %s: %s" % (desc, type(err).__name__, err)))
    return bad


# ---------------------------------------------------------------------------------------------- scope 3: Split
def pre_fn(x):
    return ["pre", x]


class Post(object):
    def run(self, flow):
        for v in flow:
            yield ["post", v]


def case_split(cfg, b, form, flow):
    """Split([branch], bufsize=b).run(iter(flow)); form: 'bare' FillRequest, 'tuple' (pre, FillRequest, post) that Split
    turns into a FillRequestSeq, 'seq' an explicit FillRequestSeq(pre, FillRequest, post)"""
    n = cfg["n"]
    desc = "Split([%s], bufsize=%d).run(iter(%s)) with %s" % (
        {"bare": "fr", "tuple": "(pre, fr, post)", "seq": "FillRequestSeq(pre, fr, post, bufsize=%d, reset=False, buffer_input=True)" % b}[form],
        b, short(flow, 80), "fr = " + fr_desc(cfg))
    pfx = "Split.run/FillRequest-branch"
    wrapped = form != "bare"
    try:
        fr = make_fr(cfg)
        p = Probe(fr)
        if form == "bare":
            branch = fr
        elif form == "tuple":
            branch = (pre_fn, fr, Post())
        else:
            branch = FillRequestSeq(pre_fn, fr, Post(), bufsize=b, reset=False, buffer_input=True)
        s = Split([branch], bufsize=b)
    except Exception as e:
        return [(pfx + "/exception-at-construction", "%s: %s: %s" % (desc, type(e).__name__, e))]
    got = []
    err = None
    try:
        with wallclock(2), steps(run_steps(len(flow))):
            for r in s.run(iter(flow)):
                got.append(r)
                if len(got) > 10 * (len(flow) + 2) * 3:
                    raise StepLimit()
    except (StepLimit, Timeout) as e:
        err = e
    except Exception as e:
        err = e
    inner_flow = [pre_fn(v) for v in flow] if wrapped else list(flow)
    bad = analyse("FillRequest", cfg, p.calls, desc)
    if stopped(bad):
        return bad
    if err is not None:
        sym = "hang" if isinstance(err, (StepLimit, Timeout)) else "exception"
        return bad + [("%s/%s-outside-FillRequest" % (pfx, sym), "%s: %s %s" % (desc, type(err).__name__, err))]
    # Split mechanism: a block of b values is filled, then request() is called once
    exp_calls = []
    for j in range(0, len(inner_flow), b):
        exp_calls += [("fill", v) for v in inner_flow[j:j + b]] + [("request", None)]
    got_calls = [(c["fn"], c.get("arg")) for c in p.calls]
    if not inner_flow and got_calls == [("request", None)]:
        exp_calls = got_calls       # documented: request() is called once for an empty flow; the property is silent
    if got_calls != exp_calls:
        bad.append((pfx + "/not-fill-a-block-then-request", "%s: calls on the FillRequest were %s, expected %s" % (
            desc, short(got_calls), short(exp_calls))))
    res = [r for c in p.calls if c["fn"] == "request" for r in c["res"]]
    exp_out = [["post", r] for r in res] if wrapped else res
    if got != exp_out:
        bad.append((pfx + "/output-is-not-the-request-results", "%s = %s, the FillRequest's request() results were %s" % (
            desc, short(got), short(res))))
    return bad


# ---------------------------------------------------------------------------------------------- scope 4: FillRequestSeq
def case_frs_drive(cfg, flow, sched):
    """FillRequestSeq(pre, FillRequest, post).fill / .request driven directly"""
    desc = "FillRequestSeq(pre, %s, post, bufsize=1, reset=False, buffer_input=True), fills %s, request() after fills %s" % (
        fr_desc(cfg), short(flow, 80), [i for i, k in enumerate(sched) for _ in range(k)])
    pfx = "FillRequestSeq"
    try:
        fr = make_fr(cfg)
        p = Probe(fr)
        seq = FillRequestSeq(pre_fn, fr, Post(), bufsize=1, reset=False, buffer_input=True)
    except Exception as e:
        return [(pfx + ".__init__/exception", "%s: %s: %s" % (desc, type(e).__name__, e))]
    outs = []
    filled = []
    err = None
    try:
        with wallclock(2):
            for i in range(len(flow) + 1):
                if i:
                    with steps(call_steps(len(flow))):
                        seq.fill(flow[i - 1])
                    filled.append(flow[i - 1])
                for _ in range(sched[i]):
                    with steps(call_steps(len(flow))):
                        for r in seq.request():
                            outs.append(r)
                            if len(outs) > 10 * (len(flow) + 2) * 3:
                                raise StepLimit()
    except (StepLimit, Timeout) as e:
        err = e
    except Exception as e:
        err = e
    bad = analyse("FillRequest", cfg, p.calls, desc)
    if stopped(bad):
        return bad
    if err is not None:
        sym = "hang" if isinstance(err, (StepLimit, Timeout)) else "exception"
        return bad + [("%s/%s-outside-FillRequest" % (pfx, sym), "%s: %s %s" % (desc, type(err).__name__, err))]
    got_fills = [c["arg"] for c in p.calls if c["fn"] == "fill"]
    if got_fills != [pre_fn(v) for v in filled]:
        bad.append((pfx + ".fill/values-not-preprocessed-once-in-order", "%s: the FillRequest was filled with %s" % (desc, short(got_fills))))
    nreq = len([c for c in p.calls if c["fn"] == "request"])
    if nreq != sum(sched):
        bad.append((pfx + ".request/not-one-request-per-request", "%s: %d request() calls reached the FillRequest for %d" % (desc, nreq, sum(sched))))
    res = [r for c in p.calls if c["fn"] == "request" for r in c["res"]]
    if outs != [["post", r] for r in res]:
        bad.append((pfx + ".request/results-not-postprocessed", "%s yields %s, the FillRequest's results were %s" % (desc, short(outs), short(res))))
    return bad


def case_frs_run(cfg, b, oreset, oyor, flow):
    """FillRequestSeq(pre, FillRequest(n), post, bufsize=b, reset=oreset, yield_on_remainder=oyor).run(iter(flow)):
    the outer FillRequest wraps the sequence as a fill/request element: outer blocks of b values, request() after each"""
    n = cfg["n"]
    desc = "FillRequestSeq(pre, %s, post, bufsize=%d, reset=%r, yield_on_remainder=%r, buffer_input=True).run(iter(%s))" % (
        fr_desc(cfg), b, oreset, oyor, short(flow, 80))
    pfx = "FillRequestSeq.run"
    try:
        fr = make_fr(cfg)
        p = Probe(fr)
        seq = FillRequestSeq(pre_fn, fr, Post(), bufsize=b, reset=oreset, yield_on_remainder=oyor, buffer_input=True)
    except Exception as e:
        return [(pfx + "/exception-at-construction", "%s: %s: %s" % (desc, type(e).__name__, e))]
    got = []
    err = None
    try:
        with wallclock(2), steps(run_steps(len(flow))):
            for r in seq.run(iter(flow)):
                got.append(r)
                if len(got) > 10 * (len(flow) + 2) * 3:
                    raise StepLimit()
    except (StepLimit, Timeout) as e:
        err = e
    except Exception as e:
        err = e
    bad = analyse("FillRequest", cfg, p.calls, desc, results=not oreset)
    if stopped(bad):
        return bad
    if err is not None:
        sym = "hang" if isinstance(err, (StepLimit, Timeout)) else "exception"
        return bad + [("%s/%s" % (pfx, sym), "%s: %s %s" % (desc, type(err).__name__, err))]
    if bad:
        return bad
    # reference: blocks_spec applied to the outer FillRequest, whose element is the (ideal) inner sequence
    inner = [pre_fn(v) for v in flow]
    exp = []
    if not oreset:
        upto = len(inner) if oyor else len(inner) - len(inner) % b
        exp = flat(blocks_spec(cfg, inner[:upto], False))
    else:
        # only used with n dividing b: every outer block starts with an empty element
        for j in range(0, len(inner), b):
            blk = inner[j:j + b]
            if len(blk) < b and not oyor:
                break
            exp += flat(blocks_spec(cfg, blk, False))
    exp = [["post", r] for r in exp]
    if got != exp:
        bad.append(("%s/wrong-results/outer-reset=%s/%s" % (pfx, oreset, "block-size-divides-outer" if b % n == 0 else "block-size-does-not-divide-outer"),
                    "%s = %s, expected %s" % (desc, short(got), short(exp))))
    return bad


# ---------------------------------------------------------------------------------------------- replayers
def _has(bad, fid):
    return any(f == fid for f, _ in bad)


def replay_run(fid, cfg, flow):
    return _has(confirmed(case_run, cfg, flow), fid)


def replay_drive(fid, cfg, flow, sched):
    return _has(confirmed(case_drive, cfg, flow, sched), fid)


def replay_split(fid, cfg, b, form, flow):
    return _has(confirmed(case_split, cfg, b, form, flow), fid)


def replay_frs_drive(fid, cfg, flow, sched):
    return _has(confirmed(case_frs_drive, cfg, flow, sched), fid)


def replay_frs_run(fid, cfg, b, oreset, oyor, flow):
    return _has(confirmed(case_frs_run, cfg, b, oreset, oyor, flow), fid)


REPLAYERS = {"replay_run": replay_run, "replay_drive": replay_drive, "replay_split": replay_split,
             "replay_frs_drive": replay_frs_drive, "replay_frs_run": replay_frs_run}


def report(R, case, fn, args, sample=None):
    bad = confirmed(case, *args)
    R.case(True, sample)
    for fid, what in bad:
        R.fail(fid, what, {"args": args}, {"fn": fn, "args": [fid] + args})


def subsets_upto(L, k):
    """request schedules with at most k request points among positions 0..L (one request each)"""
    for r in range(0, k + 1):
        for pts in itertools.combinations(range(L + 1), r):
            s = [0] * (L + 1)
            for q in pts:
                s[q] = 1
            yield s


# ---------------------------------------------------------------------------------------------- body
def body(R):
    rng = R.rng
    T = R.thorough

    # ---- scope 1: run
    Lrun = 16 if T else 11
    R.scope("FillRequest.run",
            "element kinds {run element with/without reset method, fill/compute, fill/request} x bufsize 1..5 x "
            "{buffer_input, buffer_output} x reset x yield_on_remainder x results per "
            "request m in {0,1,2} (fill kinds) x flow lengths 0..%d x {distinct ints, flow with falsy values}; results and "
            "block-by-block laziness against blocks_spec" % Lrun, True)
    for kind in ("run", "run0", "fc", "fq"):
        for n in range(1, 6):
            for buf, yor in (("in", False), ("in", True), ("out", False), ("out", True)):
                for reset in ((None,) if kind == "run0" else (False, True)):
                    for m in ((None,) if kind in ("run", "run0") else (1, 0, 2)):
                        for L in range(0, Lrun + 1):
                            for variant in ("ints", "falsy"):
                                if variant == "falsy" and (L == 0 or m in (0, 2)):
                                    continue
                                cfg = {"kind": kind, "n": n, "buf": buf, "reset": reset, "yor": yor}
                                if m is not None:
                                    cfg["m"] = m
                                flow = make_flow(L, variant)
                                report(R, case_run, "replay_run", [cfg, flow], {"cfg": cfg, "flow": flow})

    R.scope("FillRequest.run (run element that reads only the first k values of its block)",
            "k in 0..2 x bufsize 1..4 x {buffer_input, buffer_output} x yield_on_remainder x flow lengths 0..9", True)
    for k in range(0, 3):
        for n in range(1, 5):
            for buf in ("in", "out"):
                for yor in (False, True):
                    for L in range(0, 10):
                        cfg = {"kind": "first", "k": k, "n": n, "buf": buf, "reset": None, "yor": yor}
                        flow = make_flow(L, "ints")
                        report(R, case_run, "replay_run", [cfg, flow])

    # ---- scope 2: fill/request schedules
    def all_schedules(L):
        return itertools.product((0, 1), repeat=L + 1)

    def drive(kinds, ns, yors, lengths, scheds, ms=(1,), variant="ints", sample=False):
        for kind in kinds:
            for n in ns:
                for buf in ("in", "out"):
                    for reset in (True, False):
                        for yor in yors:
                            for m in ms:
                                cfg = {"kind": kind, "n": n, "buf": buf, "reset": reset, "yor": yor, "m": m}
                                for L in lengths:
                                    flow = make_flow(L, variant)
                                    for sched in scheds(L):
                                        sched = list(sched)
                                        report(R, case_drive, "replay_drive", [cfg, flow, sched],
                                               {"cfg": cfg, "flow": flow, "sched": sched} if sample else None)

    La = 10 if T else 6
    R.scope("FillRequest.fill/request (all schedules)",
            "fill/compute element (1 result per request) x bufsize 1..5 x {buffer_input, buffer_output} x reset, "
            "yield_on_remainder off: ALL request schedules (request() or not after each of the 0..L fills, also before the "
            "first fill) for every L = 0..%d" % La, True)
    drive(("fc",), range(1, 6), (False,), range(0, La + 1), all_schedules, sample=True)

    Lb, nb = (7, 5) if T else (5, 3)
    R.scope("FillRequest.fill/request (all schedules, yield_on_remainder on)",
            "fill/compute element x bufsize 1..%d x {buffer_input, buffer_output} x reset, yield_on_remainder on: all request "
            "schedules for L = 0..%d; checked: termination, buffer sizes, every value accounted for once and in order (the "
            "results themselves are not specified for this mode)" % (nb, Lb), True)
    drive(("fc",), range(1, nb + 1), (True,), range(0, Lb + 1), all_schedules)

    Lc = 7 if T else 4
    R.scope("FillRequest.fill/request (all schedules, fill/request element)",
            "fill/request element (that also has a compute method, which must not be used) x bufsize 1..5 x {buffer_input, "
            "buffer_output} x reset, yield_on_remainder off: all request schedules for L = 0..%d" % Lc, True)
    drive(("fq",), range(1, 6), (False,), range(0, Lc + 1), all_schedules)

    Ld, kd, nd = ((10, 11, 12, 13), 4, 2) if T else ((9, 11), 3, 3)
    R.scope("FillRequest.fill/request (long flows, few requests)",
            "fill/compute element x bufsize %d..5 x {buffer_input, buffer_output} x reset, yield_on_remainder off: all schedules "
            "with at most %d request points among the positions 0..L, L in %r" % (nd, kd, list(Ld)), True)
    drive(("fc",), range(nd, 6), (False,), Ld, lambda L: subsets_upto(L, kd))

    # "every call returns in finite time": also when very many blocks wait in the input buffer (a request that handles one
    # block per stack frame dies with RecursionError beyond ~1000 blocks)
    Lv = 3000
    R.scope("FillRequest.fill/request (thousands of buffered blocks)",
            "fill/compute element x bufsize in {1, 2, 4} x buffer_input x reset, yield_on_remainder off: %d values filled, one "
            "request() at the end (a block boundary)" % Lv, True)
    for n in (1, 2, 4):
        for reset in (True, False):
            cfg = {"kind": "fc", "n": n, "buf": "in", "reset": reset, "yor": False, "m": 1}
            sched = [0] * Lv + [1]
            report(R, case_drive, "replay_drive", [cfg, make_flow(Lv, "ints"), sched])

    Lm = 6 if T else 4
    R.scope("FillRequest.fill/request (0 or 2 results per request, falsy values)",
            "fill/compute element with m in {0,2} results per request, and m=1 with falsy values in the flow; bufsize 1..3 x "
            "{buffer_input, buffer_output} x reset, yield_on_remainder off; all request schedules for L = 0..%d" % Lm, True)
    drive(("fc",), range(1, 4), (False,), range(0, Lm + 1), all_schedules, ms=(0, 2))
    drive(("fc",), range(1, 4), (False,), range(0, Lm + 1), all_schedules, variant="falsy")

    nrand = 30000 if T else 1500
    R.scope("FillRequest.fill/request (random long histories)",
            "%d random cases: kind, bufsize 1..5, buffer_input (2/3) or buffer_output, reset, m in {1,2}, yield_on_remainder off, "
            "flow length 0..24, 0..2 request() calls after each fill with request probability in {0.1,0.3,0.6}, "
            "half of the cases with requests only at block boundaries" % nrand, False)
    for _ in range(nrand):
        n = rng.randint(1, 5)
        cfg = {"kind": rng.choice(["fc", "fq"]), "n": n, "buf": rng.choice(["in", "in", "out"]),
               "reset": rng.choice([True, False]), "yor": False, "m": rng.choice([1, 1, 2])}
        L = rng.randint(0, 24)
        flow = make_flow(L, rng.choice(["ints", "ints", "falsy"]))
        pr = rng.choice([0.1, 0.3, 0.6])
        only_aligned = rng.random() < 0.5
        sched = []
        for i in range(L + 1):
            k = 0
            if rng.random() < pr and (not only_aligned or i % n == 0):
                k = 1 if rng.random() < 0.8 else 2
            sched.append(k)
        report(R, case_drive, "replay_drive", [cfg, flow, sched])

    # ---- scope 3: Split around a FillRequest branch
    bmax = 10 if T else 6
    Lsp = 20 if T else 10
    R.scope("Split.run around a FillRequest branch",
            "fill/compute and fill/request elements x block size 1..5 x Split bufsize 1..%d (dividing, divided by, equal to, "
            "coprime to the block size) x {buffer_input, buffer_output} x reset x flow lengths 0..%d x branch forms "
            "{bare FillRequest, tuple (pre, FillRequest, post), explicit FillRequestSeq} (fill/request element: tuple form only%s); "
            "yield_on_remainder off" % (bmax, Lsp, "" if T else ", block size 1..3"), True)
    for kind in ("fc", "fq"):
        for n in range(1, 6):
            for b in range(1, bmax + 1):
                for buf in ("in", "out"):
                    for reset in (True, False):
                        for form in (("bare", "tuple", "seq") if kind == "fc" else ("tuple",)):
                            if kind == "fq" and n > 3 and not T:
                                continue
                            for L in range(0, Lsp + 1):
                                cfg = {"kind": kind, "n": n, "buf": buf, "reset": reset, "yor": False, "m": 1}
                                flow = make_flow(L, "ints")
                                report(R, case_split, "replay_split", [cfg, b, form, flow],
                                       {"cfg": cfg, "b": b, "form": form, "flow": flow})

    # ---- scope 4: FillRequestSeq wiring
    Lf = 6 if T else 4
    R.scope("FillRequestSeq.fill/request",
            "FillRequestSeq(pre, FillRequest, post) driven by fill()/request(): fill/compute element, block size 1..3, "
            "{buffer_input, buffer_output} x reset, all request schedules for L = 0..%d" % Lf, True)
    for n in range(1, 4):
        for buf in ("in", "out"):
            for reset in (True, False):
                cfg = {"kind": "fc", "n": n, "buf": buf, "reset": reset, "yor": False, "m": 1}
                for L in range(0, Lf + 1):
                    flow = make_flow(L, "ints")
                    for sched in itertools.product((0, 1), repeat=L + 1):
                        sched = list(sched)
                        report(R, case_frs_drive, "replay_frs_drive", [cfg, flow, sched])

    R.scope("FillRequestSeq.run",
            "FillRequestSeq(pre, FillRequest(block size 1..%d, buffer_input/buffer_output, reset), post, bufsize=b in 1..%d, "
            "reset=outer reset (True only when the block size divides b), yield_on_remainder=outer flag).run over flows of "
            "length 0..%d" % ((4, 6, 12) if T else (3, 5, 10)), True)
    for n in range(1, 5 if T else 4):
        for b in range(1, 7 if T else 6):
            for buf in ("in", "out"):
                for reset in (True, False):
                    for oreset in (False, True):
                        if oreset and b % n:
                            continue
                        for oyor in (False, True):
                            for L in range(0, 13 if T else 11):
                                cfg = {"kind": "fc", "n": n, "buf": buf, "reset": reset, "yor": False, "m": 1}
                                flow = make_flow(L, "ints")
                                report(R, case_frs_run, "replay_frs_run", [cfg, b, oreset, oyor, flow])


if __name__ == "__main__":
    R = Run("C16", REPLAYERS)
    sys.exit(R.main(body, "exhaustive enumeration of configurations x flow lengths x request schedules (plus seeded random long "
                          "histories); every case executes the real FillRequest/FillRequestSeq/Split and compares every request() "
                          "prefix with the block reference; a hang is a call exceeding a bound on executed lena lines"))
