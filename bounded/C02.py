"""C02 bounded stand-in: evaluation is lazy -- demand-driven consumption and bounded buffering.

The REAL pipelines (Sequence / Source of callables, Variable, Filter, Slice, Count, RunIf, Print, Context,
UpdateContext, MakeFilename, UpdateContextFromStatic, Split of such) are driven by an instrumented consumer that
stops after every number k of results, over an instrumented input iterator that counts every pull and every probe
for the end of the input (finite inputs, and infinite inputs with a step watchdog).

Reference (written from the property text, never from the code):
  * every element has a list-level denotation (Python list slicing, list comprehension, "all but the last unchanged,
    the last one carries the count", blocks of bufsize run through the branches in order, ...);
  * "the shortest prefix that determines the first k results" is computed by brute force from that denotation:
    the results determined by a prefix are the common prefix of the denotation over the continuations
    {the flow ends here, one more fresh value, many fresh values (two different families)};  Count's documented
    look-ahead falls out of this (its i-th result is only determined when value i+1 exists or the end is seen);
  * Split is block-granular as the property says: it may pull whole blocks of bufsize, the next block only when a
    result beyond those of the blocks read so far is demanded;
  * needs compose backwards through the pipeline (need_{e1;e2}(k) = need_e1(need_e2(k)));
  * only a Slice can know that its output is complete before its input ends (selectors and nested sequences are
    opaque to the element that runs them).  itertools.islice's documented behaviour of reading max(start, stop)
    values when it is asked for more than it has, and one value of slack for a negative Slice whose result is decided
    by a finite prefix (Slice(-a, b) is empty as soon as a + b values exist; the tree notices it one pull later), are
    allowed as upper bounds (the lower bound is the semantic one), so every expectation is an interval
    lo <= (pulled, end probed) <= hi; for the k-th result of every pipeline of the scopes lo == hi except behind such
    an exhausted Slice.
Reading decisions: the property speaks about the state after the k-th result; the step "the consumer asks for one more
and there is none" must terminate whenever a finite prefix seen by a Slice decides it (also on an infinite input), and
may not read beyond the bound above.
Weak-reference liveness of the input values is used for the two "holds / keeps alive" clauses: at most bufsize input
values alive after every result of a Split (the processed previous block may still be referenced while the next one is
being read: not counted against it), at most max|negative index| input values alive at every pull and after every
result of a negative Slice.  Counter marks are not compared where documented context sharing (copy_buf=False) or an
abandoned run of a nested Count makes them depend on more than the denotation."""
import contextlib
import io
import itertools
import json
import os
import sys
import weakref

sys.path.insert(0, os.path.dirname(os.path.dirname(os.path.abspath(__file__))))
from bounded.common import Run, watchdog, Timeout

import lena.core
import lena.flow
import lena.context
import lena.output
import lena.variables
import lena.meta
from lena.core import Sequence, Source, Split, FillComputeSeq
from lena.flow import Slice, Count, Filter, RunIf, Print, CountFrom

M_INF = 26       # horizon of the oracle for infinite inputs (values 0..M_INF-1 are modelled)
BUDGET = 300     # step watchdog: the instrumented infinite source refuses to be pulled more often than this
K_INF = 7        # results taken from an infinite input
EXT_LEN = 14     # length of the "many fresh values" continuations (> every |index| * step used)


class Budget(Exception):
    """step watchdog of the infinite instrumented source"""


WD = [4.0]          # wall-clock watchdog (seconds); halved after every hang so that a mass failure stays affordable


def hang_seen():
    WD[0] = max(0.25, WD[0] / 2)


WORK = [0]          # number of calls of user code (callables, getters, selectors, print transforms)
STDOUT = io.StringIO()


# ----------------------------------------------------------------------------------------------- instrumented inputs
class Src(object):
    """instrumented input iterator: values ((i,), {}) for i = 0, 1, ...; n=None: infinite (with step budget)"""

    def __init__(self, n):
        self.n = n
        self.pulled = 0      # values handed out
        self.end_seen = 0    # 1 once StopIteration has been delivered
        self.calls = 0       # __next__ calls

    def __iter__(self):
        return self

    def __next__(self):
        self.calls += 1
        if self.n is not None and self.pulled >= self.n:
            self.end_seen = 1
            raise StopIteration
        if self.pulled >= BUDGET:
            raise Budget()
        i = self.pulled
        self.pulled += 1
        return ((i,), {})

    def state(self):
        return (self.pulled, self.end_seen)


class Val(object):
    """weak-referenceable flow value"""
    __slots__ = ("i", "__weakref__")

    def __init__(self, i):
        self.i = i

    def __repr__(self):
        return "Val(%d)" % self.i


class LiveSrc(object):
    """input iterator of Val objects that knows how many of the values it produced are still alive"""

    def __init__(self, n, track=False):
        self.n = n
        self.track = track          # record which values are alive at every pull (not only how many)
        self.pulled = 0
        self.live = 0
        self._refs = {}
        self.alive_at_pull = []     # number of live earlier values at the moment value i is asked for

    def _dead(self, r):
        self.live -= 1

    def alive(self):
        """indices of the input values that are alive"""
        return [i for i, r in sorted(self._refs.items()) if r() is not None]

    def __iter__(self):
        return self

    def __next__(self):
        self.alive_at_pull.append(self.alive() if self.track else self.live)
        if self.n is not None and self.pulled >= self.n:
            raise StopIteration
        if self.pulled >= BUDGET:
            raise Budget()
        v = Val(self.pulled)
        self.pulled += 1
        self.live += 1
        self._refs[v.i] = weakref.ref(v, self._dead)
        return v


# ------------------------------------------------------------------------------------------------ element language
# A pipeline is a JSON list of element descriptors:
#   ["f", tag] plain function        ["obj", tag] callable object      ["var", tag] Variable (getter appends tag)
#   ["print"] ["context"] ["updctx"] ["mkfn"] ["ucfs"]                   ["filter", sel]   ["count", name]
#   ["slice", [args]]                ["runif", sel, [elements]]
#   ["split", bufsize, copy_buf, [branches]];  branch = ["seq", [elements]] (explicit Sequence) | ["tup", [elements]]
#       (a tuple) | ["el", element] (bare element) | ["src", start, m] (Source(CountFrom(start), Slice(m))) |
#       ["fc", stop] (FillComputeSeq(Slice(stop), Acc()); stop None: Acc() alone)
# Data are tuples (i, tag, tag, ...); selectors look at the origin i only.
SELECTORS = {
    "even": lambda i: i % 2 == 0,
    "m3": lambda i: i % 3 == 1,
    "none": lambda i: False,
    "all": lambda i: True,
    "lt3": lambda i: i < 3,
    "ge2": lambda i: i >= 2,
}


def selected(name, i):
    """selectors are opaque to the elements: on the fresh continuation values of the oracle (origins >= 1000) every
    selector accepts the F family (1000..1999) and rejects the G family (>= 2000)"""
    if i >= 2000:
        return False
    if i >= 1000:
        return True
    return SELECTORS[name](i)


def _origin(value):
    data = value[0] if isinstance(value, tuple) and len(value) == 2 and isinstance(value[1], dict) else value
    return data[0]


def real_selector(name):
    p = SELECTORS[name]

    def sel(value):
        WORK[0] += 1
        return p(_origin(value))
    return sel


def tagger(tag):
    def f(value):
        WORK[0] += 1
        data, context = value
        return (data + (tag,), context)
    return f


class TagObj(object):
    def __init__(self, tag):
        self.tag = tag

    def __call__(self, value):
        WORK[0] += 1
        data, context = value
        return (data + (self.tag,), context)


class Acc(object):
    """FillCompute accumulator that stores no value: yields ((n_filled, 'acc'), {})"""

    def __init__(self):
        self.n = 0

    def fill(self, value):
        WORK[0] += 1
        self.n += 1

    def compute(self):
        yield ((self.n, "acc"), {})


def _getter(tag):
    def g(data):
        WORK[0] += 1
        return data + (tag,)
    return g


def _print_transform(value):
    WORK[0] += 1
    return value[0]


def build(d):
    """the real element of a descriptor"""
    k = d[0]
    if k == "f":
        return tagger(d[1])
    if k == "obj":
        return TagObj(d[1])
    if k == "var":
        return lena.variables.Variable("x" + d[1], _getter(d[1]))
    if k == "print":
        return Print(transform=_print_transform)
    if k == "context":
        return lena.context.Context()
    if k == "updctx":
        return lena.context.UpdateContext("u", 1)
    if k == "mkfn":
        return lena.output.MakeFilename("name")
    if k == "ucfs":
        return lena.meta.UpdateContextFromStatic()
    if k == "filter":
        return Filter(real_selector(d[1]))
    if k == "count":
        return Count(d[1])
    if k == "slice":
        return Slice(*d[1])
    if k == "runif":
        return RunIf(real_selector(d[1]), *[build(e) for e in d[2]])
    if k == "split":
        return Split([build_branch(b) for b in d[3]], bufsize=d[1], copy_buf=d[2])
    raise ValueError(d)


def build_branch(b):
    k = b[0]
    if k == "seq":
        return Sequence(*[build(e) for e in b[1]])
    if k == "tup":
        return tuple(build(e) for e in b[1])
    if k == "el":
        return build(b[1])
    if k == "src":
        return Source(_SrcBranch(b[1]), Slice(b[2])) if b[2] is not None else Source(_SrcBranch(b[1]))
    if k == "fc":
        return FillComputeSeq(Slice(b[1]), Acc()) if b[1] is not None else Acc()
    raise ValueError(b)


class _SrcBranch(object):
    """own flow of a Source branch: ((start + j, 'S'), {}), infinite, lazily generated"""

    produced = [0]

    def __init__(self, start):
        self.start = start

    def __call__(self):
        for j in itertools.count(self.start):
            if j - self.start >= BUDGET:
                raise Budget()
            self.produced[0] += 1
            yield ((j, "S"), {})


def kind_of(d):
    k = d[0]
    if k in ("f", "obj", "var", "print", "context", "updctx", "mkfn"):
        return "Run._call_run"
    if k == "ucfs":
        return "UpdateContextFromStatic.run"
    if k == "filter":
        return "Filter.run"
    if k == "count":
        return "Count.run"
    if k == "slice":
        return "Slice.run" if all(a is None or a >= 0 for a in d[1]) else "Slice._run_negative_islice"
    if k == "runif":
        return "RunIf.run"
    if k == "split":
        return "Split.run" if d[3] else "Split._empty_run"
    return k


# --------------------------------------------------------------------------------------- list-level denotations
# model values: (data tuple, marks) with marks = sorted tuple of (counter name, count)
def mv(i):
    return ((i,), ())


def _mark(v, name, n):
    m = dict(v[1])
    m[name] = n
    return (v[0], tuple(sorted(m.items())))


class MMap(object):
    def __init__(self, tag):
        self.tag = tag

    def run(self, xs):
        return [(d + (self.tag,), m) for d, m in xs] if self.tag else list(xs)


class MFilter(object):
    def __init__(self, sel):
        self.sel = sel

    def run(self, xs):
        return [x for x in xs if selected(self.sel, x[0][0])]


class MSlice(object):
    def __init__(self, args):
        self.s = slice(*args)

    def run(self, xs):
        return list(xs)[self.s]         # Python's own slicing rule is the specification


class MCount(object):
    """all values but the last pass unchanged; the last carries the total count (of all runs so far)"""

    def __init__(self, name):
        self.name = name
        self.total = 0

    def run(self, xs):
        if not xs:
            return []
        self.total += len(xs)
        return list(xs[:-1]) + [_mark(xs[-1], self.name, self.total)]


class MSeq(object):
    def __init__(self, els):
        self.els = [model(e) for e in els]

    def run(self, xs):
        for e in self.els:
            xs = e.run(xs)
        return list(xs)


class MRunIf(object):
    def __init__(self, sel, els):
        self.sel = sel
        self.seq = MSeq(els)

    def run(self, xs):
        out = []
        for x in xs:
            if selected(self.sel, x[0][0]):
                out.extend(self.seq.run([x]))
            else:
                out.append(x)
        return out


SRC_BRANCH_CAP = 40      # an infinite Source branch is modelled by its first 40 values


class MBranch(object):
    def __init__(self, b):
        self.kind = {"seq": "seq", "tup": "seq", "el": "seq", "src": "src", "fc": "fc"}[b[0]]
        if b[0] in ("seq", "tup"):
            self.seq = MSeq(b[1])
        elif b[0] == "el":
            self.seq = MSeq([b[1]])
        elif b[0] == "src":
            m = b[2] if b[2] is not None else SRC_BRANCH_CAP
            self.out = [((b[1] + j, "S"), ()) for j in range(m)]
        else:
            self.stop = b[1]
            self.filled = 0


class MSplit(object):
    """split_spec of the property family: blocks of bufsize; per block the branches in order; a Source branch gives
    its whole output once; fill/compute branches give compute() when they refuse a value or after the last block;
    empty flow: every branch is invoked once"""

    def __init__(self, bufsize, branches):
        self.b = bufsize
        self.descs = branches
        self.br = [MBranch(b) for b in branches]     # elements keep their state from one run to the next

    def run(self, xs):
        return self.run_blocks(xs, True)

    def run_blocks(self, xs, ended):
        xs = list(xs)
        if not self.descs:
            return xs
        br = self.br
        if self.b is None:
            blocks = [xs] if (xs and ended) else []
        else:
            blocks = [xs[j:j + self.b] for j in range(0, len(xs), self.b)]
            if blocks and len(blocks[-1]) < self.b and not ended:
                blocks.pop()
        out = []
        active = list(br)
        for blk in blocks:
            for x in list(active):
                if x.kind == "src":
                    out += x.out
                    active.remove(x)
                elif x.kind == "seq":
                    out += x.seq.run(blk)
                else:
                    stopped = False
                    for _ in blk:
                        if x.stop is not None and x.filled >= x.stop:
                            stopped = True
                            break
                        x.filled += 1
                    if stopped:
                        out.append(((x.filled, "acc"), ()))
                        active.remove(x)
        if ended:
            for x in active:
                if x.kind == "fc":
                    out.append(((x.filled, "acc"), ()))
                elif not xs:
                    out += x.out if x.kind == "src" else x.seq.run([])
        return out


def model(d):
    k = d[0]
    if k in ("f", "obj", "var"):
        return MMap(d[1])
    if k in ("print", "context", "updctx", "mkfn", "ucfs"):
        return MMap(None)
    if k == "filter":
        return MFilter(d[1])
    if k == "count":
        return MCount(d[1])
    if k == "slice":
        return MSlice(d[1])
    if k == "runif":
        return MRunIf(d[1], d[2])
    if k == "split":
        return MSplit(d[1], d[3])
    raise ValueError(d)


def abstract(v):
    """a real result in the model's vocabulary"""
    try:
        data, ctx = v
        marks = tuple(sorted((k, c) for k, c in ctx.items() if k.startswith("c") and isinstance(c, int)))
        return (tuple(data), marks)
    except Exception:
        return ("?", repr(v))


# --------------------------------------------------------------------------------------------------- the oracle
F1 = [((1000 + j, "F"), ()) for j in range(EXT_LEN)]
F2 = [((2001 + j, "G"), ()) for j in range(EXT_LEN)]
EXTS = [[], F1[:1], F2[:1], F1, F2]
_DET = {}


def _common(lists):
    m = min(len(x) for x in lists)
    first = lists[0]
    for i in range(m):
        if any(x[i] != first[i] for x in lists):
            return i
    return m


def det_table(d, I, inf):
    """for one stage with input list I (a prefix of an infinite input if inf):
    cnt[p] = number of results determined by I[:p] alone, tight[p]/loose[p] = the output is known to be complete
    after I[:p] (semantically / allowing islice to read up to stop); full = the stage's output"""
    key = (json.dumps(d), tuple(I), inf)
    t = _DET.get(key)
    if t is not None:
        return t
    n = len(I)
    cnt, tight, loose = [], [], []
    blocky = d[0] == "split" and d[3]
    if blocky:
        b = d[1]
        for p in range(n + 1):
            q = 0 if b is None else (p // b) * b
            if b is not None and cnt and (p % b):
                cnt.append(cnt[-1])
            else:
                cnt.append(len(model(d).run_blocks(I[:q], False)))
            tight.append(False)
            loose.append(False)
        outs = model(d).run_blocks(I[:(0 if b is None else (n // b) * b)], False) if inf else model(d).run_blocks(I, True)
        out_inf = inf
    else:
        # only a Slice can know that its output is complete before its input ends (a selector or a nested sequence is
        # opaque).  tight: as soon as list slicing gives the same for every continuation; loose: a non-negative Slice
        # may read up to max(start, stop) (documented islice behaviour), a negative one may read one value more
        is_slice = d[0] == "slice"
        nonneg = is_slice and kind_of(d) == "Slice.run"
        # itertools.islice documents that it reads max(start, stop) values when it is exhausted
        nonneg_stop = None
        if nonneg and slice(*d[1]).stop is not None:
            nonneg_stop = max(slice(*d[1]).start or 0, slice(*d[1]).stop)
        neg_decided = None
        if is_slice and not nonneg:
            sl = slice(*d[1])
            if sl.start is not None and sl.start < 0 and sl.stop is not None and sl.stop >= 0:
                neg_decided = sl.stop - sl.start
        last = None
        for p in range(n + 1):
            pre = I[:p]
            res = [model(d).run(pre + e) for e in EXTS]
            c = _common(res)
            cnt.append(c)
            complete = is_slice and all(len(r) == c for r in res)
            tight.append(complete)
            if nonneg:
                loose.append(complete and (nonneg_stop is None or p >= nonneg_stop))
            elif neg_decided is not None:
                # Slice(-a, b), b >= 0, is empty as soon as a + b values exist; one value of slack: the arrival of the
                # value that completes the deciding prefix may be noticed one pull later
                loose.append(complete and p >= neg_decided + 1)
            else:
                loose.append(complete)
            last = res[0]
        if inf:
            outs = model(d).run(I + F1)[:cnt[n]]
            out_inf = not tight[n]
        else:
            outs = last
            out_inf = False
    t = (cnt, tight, loose, outs, out_inf)
    _DET[key] = t
    return t


class Oracle(object):
    def __init__(self, pipe, n):
        inf = n is None
        I = [mv(i) for i in range(M_INF if inf else n)]
        self.tabs = []
        for d in pipe:
            t = det_table(d, I, inf)
            self.tabs.append((t, len(I), inf))
            I, inf = t[3], t[4]
        self.results = I
        self.inf = inf

    def need(self, k, want_end, loose):
        """(pulled, end_seen) the source must have delivered; None: not determinable within the horizon"""
        dem = (k, want_end)
        for t, n, inf in reversed(self.tabs):
            cnt, tight, lo = t[0], t[1], t[2]
            comp = lo if loose else tight
            kk, we = dem
            for p in range(n + 1):
                if cnt[p] >= kk and (not we or comp[p]):
                    dem = (p, False)
                    break
            else:
                if inf:
                    return None
                dem = (n, True)
        return (dem[0], 1 if dem[1] else 0)

    def interval(self, k, want_end):
        lo = self.need(k, want_end, False)
        hi = self.need(k, want_end, True)
        if lo is None or hi is None:
            return None
        return lo, hi


def oracle_selftest():
    """the brute-force oracle reproduces the closed forms of the property family (DESIGN, C02 need functions)"""
    for k in range(1, 6):
        assert Oracle([["f", "a"]], None).need(k, False, False) == (k, 0)
        assert Oracle([["count", "c"]], None).need(k, False, False) == (k + 1, 0)
        assert Oracle([["filter", "m3"]], None).need(k, False, False) == (3 * (k - 1) + 2, 0)
        assert Oracle([["slice", [-2]]], None).need(k, False, False) == (k + 2, 0)
        assert Oracle([["slice", [1, -1]]], None).need(k, False, False) == (1 + k + 1, 0)
        assert Oracle([["split", 3, True, [["el", ["f", "a"]], ["el", ["f", "b"]]]]], None).need(k, False, False) == \
            (3 * ((k + 5) // 6), 0)
    assert Oracle([["slice", [1, 6, 2]]], None).need(2, False, False) == (4, 0)
    assert Oracle([["slice", [1, 6, 2]]], None).interval(3, True) == ((6, 0), (6, 0))
    assert Oracle([["slice", [1, 5, 2]]], None).interval(2, True) == ((4, 0), (5, 0))
    assert Oracle([["count", "c"]], 3).need(3, False, False) == (3, 1)
    assert Oracle([["slice", [-2, None]]], 5).need(1, False, False) == (5, 1)
    assert Oracle([["slice", [-2, None]]], None).need(1, False, False) is None
    assert Oracle([["split", 2, True, [["el", ["f", "a"]]]]], 3).need(3, False, False) == (3, 1)
    assert Oracle([["split", 2, True, [["el", ["f", "a"]]]]], 4).need(4, False, False) == (4, 0)
    assert Oracle([["slice", [3]], ["count", "c"]], None).need(3, False, False) == (3, 0)


# ------------------------------------------------------------------------------------------------ real execution
def shares_contexts(pipe):
    """Split(copy_buf=False) with several branches hands the same context object to all of them (documented), so a
    Count further down marks the context of more than one result: the counter marks are then not compared"""
    def walk(d):
        if isinstance(d, list):
            if d and d[0] == "split" and d[2] is False and len(d[3]) > 1:
                return True
            return any(walk(x) for x in d)
        return False
    if walk(pipe) and '"count"' in json.dumps(pipe):
        return True
    # a Count that is run once per block / per value adds to its total only when its run is completed; a Slice behind
    # it in the same nested sequence abandons the run (laziness again), so the totals of later runs are not modelled
    nested = json.dumps([d[2:] for d in pipe if d[0] in ("runif", "split")])
    return '"count"' in nested and '"slice"' in nested


def unique_counters(pipe):
    """every Count gets its own name c1, c2, ... (two counters of one name would overwrite each other's mark, and the
    value-level oracle would see results coincide that no element can know to coincide)"""
    n = [0]

    def walk(d):
        if isinstance(d, list):
            if d and d[0] == "count":
                n[0] += 1
                return ["count", "c%d" % n[0]]
            return [walk(x) for x in d]
        return d
    return walk(pipe)


class IterOnly(object):
    """an iterable that is not an iterator (like a list, but lazy): only __iter__"""

    def __init__(self, src):
        self.src = src

    def __iter__(self):
        return self.src


class SizedIterOnly(IterOnly):
    """a sized LAZY iterable (a reader that knows how many records it has, a huge range): __len__ and __iter__, no __next__;
    having a length does not make reading it cheap or finite - run() / __call__() must still pull nothing"""

    def __init__(self, src, n):
        IterOnly.__init__(self, src)
        self.n = n

    def __len__(self):
        return self.n


def make_iter(pipe, src, mode):
    """build the pipeline and call run(): returns the result iterator.
    modes: sequence / source: Sequence(*els).run(iterator), Source(callable returning the iterator, *els)();
    sequence-iterable / source-iterable: the input is an iterable without __next__"""
    els = [build(d) for d in pipe]
    if mode == "source":
        return Source(lambda: src, *els)()
    if mode == "source-iterable":
        return Source(IterOnly(src), *els)()
    if mode == "sequence-iterable":
        return Sequence(*els).run(IterOnly(src))
    if mode == "source-sized":
        return Source(SizedIterOnly(src, getattr(src, "n", None)), *els)()
    if mode == "sequence-sized":
        return Sequence(*els).run(SizedIterOnly(src, getattr(src, "n", None)))
    return Sequence(*els).run(src)


def _close(it):
    if hasattr(it, "close"):
        it.close()


def check_pipeline(pipe, n, mode="sequence", stops=True):
    """all C02 checks of one pipeline on one input; returns a list of (clause, text)"""
    bad = []
    with contextlib.redirect_stdout(STDOUT):
        try:
            with watchdog(WD[0]):
                _check_pipeline(pipe, n, mode, stops, bad)
        except Timeout:
            hang_seen()
            bad.append(("nonterminating", "hang (wall-clock watchdog)"))
        except Budget:
            bad.append(("nonterminating", "the infinite input was pulled more than %d times" % BUDGET))
        except Exception as e:
            bad.append(("exception", "%s: %s" % (type(e).__name__, e)))
    STDOUT.seek(0)
    STDOUT.truncate()
    return bad


def _step(it):
    """one consumer step: ('v', value) | ('end',) | ('budget',) | ('exc', text)"""
    try:
        return ("v", next(it))
    except StopIteration:
        return ("end",)
    except Budget:
        return ("budget",)
    except Timeout:
        raise
    except Exception as e:
        return ("exc", "%s: %s" % (type(e).__name__, e))


def _check_pipeline(pipe, n, mode, stops, bad):
    orc = Oracle(pipe, n)
    relax = shares_contexts(pipe)
    # ---- nothing happens when the pipeline is built and when run() / __call__() is called
    src = Src(n)
    WORK[0] = 0
    STDOUT.seek(0)
    STDOUT.truncate()
    try:
        it = make_iter(pipe, src, mode)
    except Budget:
        bad.append(("work-before-first-demand", "construction and %s drain the infinite input"
                    % ("run()" if mode.startswith("sequence") else "__call__()")))
        return
    except Exception as e:
        bad.append(("exception", "building/run(): %s: %s" % (type(e).__name__, e)))
        return
    if src.calls or WORK[0] or STDOUT.tell():
        bad.append(("work-before-first-demand", "after construction and %s the input was asked %d times, user code ran "
                    "%d times, %d characters were printed" % ("run()" if mode.startswith("sequence") else "__call__()",
                                                             src.calls, WORK[0], STDOUT.tell())))
        return
    # ---- one full consumption, the state of the input is recorded after every result
    results = []
    profile = [src.state()]
    total = len(orc.results)
    kmax = min(K_INF, total) if orc.inf or n is None else total + 1
    ended = False
    while len(results) < kmax:
        k = len(results) + 1
        iv = orc.interval(k, False) if k <= total else None
        if k <= total and iv is None:
            break                       # the k-th result is not determined within the oracle's horizon: stop here
        st = _step(it)
        if st[0] == "budget":
            bad.append(("nonterminating", "result %d needs the prefix %s but the infinite input was pulled %d times"
                        % (k, iv and iv[1], BUDGET)))
            return
        if st[0] == "exc":
            bad.append(("exception", "taking result %d: %s" % (k, st[1])))
            return
        if st[0] == "end":
            ended = True
            break
        results.append(abstract(st[1]))
        profile.append(src.state())
        if k > total:
            bad.append(("results-differ", "more results than the denotation has: %r, expected %r" % (results, orc.results)))
            return
        if (results[-1][0] != orc.results[k - 1][0]) if relax else (results[-1] != orc.results[k - 1]):
            bad.append(("results-differ", "result %d is %r, the denotation gives %r" % (k, results[-1], orc.results[k - 1])))
            return
        lo, hi = iv
        got = src.state()
        if got > hi:
            what = "end-probed-early" if got[0] == hi[0] else "pulled-more-than-needed"
            bad.append((what, "after %d results (pulled, end seen) = %r; the shortest determining prefix is %r" % (k, got, hi)))
            return
        if got < lo:
            bad.append(("pulled-less-than-determining-prefix", "after %d results (pulled, end seen) = %r < %r" % (k, got, lo)))
            return
    if ended and len(results) < total:
        bad.append(("results-differ", "the pipeline ended after %d results %r, the denotation gives %r%s"
                    % (len(results), results, orc.results[:K_INF + 1], " ..." if orc.inf else "")))
        return
    finite_out = not orc.inf
    if finite_out and len(results) >= total and orc.interval(total, True) is not None:
        # the consumer asks for more than there is: this must terminate, and (islice may read up to its stop)
        if not ended:
            st = _step(it)
            if st[0] == "v":
                bad.append(("results-differ", "more results than the denotation has: %r + %r" % (results, abstract(st[1]))))
                return
            if st[0] == "budget":
                bad.append(("nonterminating", "exhausting the pipeline (all %d results taken) never ends on an infinite "
                            "input" % total))
                return
            if st[0] == "exc":
                bad.append(("exception", "exhausting: %s" % st[1]))
                return
        if len(results) != total:
            bad.append(("results-differ", "%d results %r, the denotation gives %r" % (len(results), results, orc.results)))
            return
        iv = orc.interval(total, True)
        got = src.state()
        if iv is not None:
            if got > iv[1]:
                bad.append(("exhaustion-overpull", "after exhaustion (pulled, end seen) = %r; deciding that there are only "
                            "%d results needs %r" % (got, total, iv[1])))
                return
            if got < iv[0]:
                bad.append(("pulled-less-than-determining-prefix", "after exhaustion (pulled, end seen) = %r < %r" % (got, iv[0])))
                return
    if not stops:
        return
    # ---- every consumer stop point: a fresh pipeline, k results, stop (close); nothing more is pulled
    for k in range(len(profile)):
        src = Src(n)
        it = make_iter(pipe, src, mode)
        for _ in range(k):
            st = _step(it)
            if st[0] != "v":
                bad.append(("stop-point-differs", "a second run gave %r at result %d" % (st, _ + 1)))
                return
        st = None
        if src.state() != profile[k]:
            bad.append(("stop-point-differs", "consumer stopping after %d results: (pulled, end seen) = %r, in the full "
                        "run it was %r" % (k, src.state(), profile[k])))
            return
        before = (src.calls, WORK[0])
        try:
            _close(it)
            del it
        except Budget:
            bad.append(("pulls-after-stop", "closing after %d results drains the infinite input" % k))
            return
        if (src.calls, WORK[0]) != before:
            bad.append(("pulls-after-stop", "closing the pipeline after %d results: input asked %d more times, user code "
                        "ran %d more times" % (k, src.calls - before[0], WORK[0] - before[1])))
            return


# ---------------------------------------------------------------------------------------------------- reporting
BAD_KINDS = set()


def culprit(pipe, mode):
    kinds = [kind_of(d) for d in pipe]
    if not pipe:
        return "Sequence.run" if mode.startswith("sequence") else "Source.__call__"
    if len(pipe) == 1:
        return kinds[0]
    for k in kinds:
        if k in BAD_KINDS:
            return k
    return "Sequence.run" if mode.startswith("sequence") else "Source.__call__"


def report(R, pipe, n, mode, bad):
    if not bad:
        return
    cul = culprit(pipe, mode)
    if len(pipe) == 1:
        BAD_KINDS.add(cul)
    for clause, text in bad:
        R.fail("%s/%s" % (cul, clause),
               "%s of %s on %s input: %s" % (mode, json.dumps(pipe), "an infinite" if n is None else "a %d-value" % n, text),
               {"pipeline": pipe, "n": n, "mode": mode}, {"fn": "replay_pipeline", "args": [pipe, n, mode]})


def replay_pipeline(pipe, n, mode):
    return bool(check_pipeline(pipe, n, mode))


# ------------------------------------------------------------------------------------------------------ alphabets
def S(*a):
    return ["slice", list(a)]


FA, FB = ["f", "a"], ["obj", "b"]
SPLITS = [
    ["split", 2, True, []],
    ["split", 1, True, [["el", FA]]],
    ["split", 2, True, [["el", FA], ["el", FB]]],
    ["split", 3, False, [["el", FA], ["el", FB]]],
    ["split", 2, True, [["tup", [["filter", "even"], FA]], ["el", FB]]],
    ["split", 2, True, [["seq", [["count", "c3"]]]]],
    ["split", 3, True, [["seq", [S(1)]], ["el", FB]]],
    ["split", 3, True, [["seq", [S(-1)]]]],
    ["split", 2, True, [["src", 100, 2], ["el", FA]]],
    ["split", 2, True, [["el", FA], ["fc", None]]],
    ["split", 2, True, [["fc", 3], ["el", FA]]],
    ["split", None, True, [["el", FA]]],
    ["split", 1000, True, [["el", FA], ["el", FB]]],
    ["split", 2, True, [["seq", [["split", 1, True, [["el", FA], ["el", FB]]]]]]],
    ["split", 4, True, [["tup", [["filter", "none"]]], ["tup", [["filter", "m3"]]]]],
]
SINGLES = [
    FA, FB, ["var", "V"], ["print"], ["context"], ["updctx"], ["mkfn"], ["ucfs"],
    ["filter", "even"], ["filter", "m3"], ["filter", "none"], ["filter", "all"], ["filter", "lt3"], ["filter", "ge2"],
    ["count", "c1"],
    S(0), S(1), S(3), S(1, 4), S(1, 6, 2), S(1, 5, 2), S(2, None), S(None, None, 2), S(0, 5, 3), S(None), S(2, 2),
    S(-1), S(-2), S(1, -1), S(2, -2), S(None, -1, 2), S(1, -2, 3), S(-2, None), S(-3, 2), S(-3, -1), S(-2, None, 2),
    S(-1, -3), S(0, -4),
    ["runif", "even", [FA]], ["runif", "m3", [["filter", "none"]]], ["runif", "all", [["count", "c2"]]],
    ["runif", "even", [["split", 1, True, [["el", FA], ["el", FB]]]]], ["runif", "ge2", [FA, S(1)]],
] + SPLITS
PAIR_QUICK = [
    FA, ["var", "V"], ["filter", "even"], ["filter", "lt3"], ["filter", "none"], ["count", "c1"],
    S(0), S(3), S(1, 5, 2), S(2, None), S(None, None, 2),
    S(-2), S(1, -1), S(None, -1, 2), S(-2, None), S(-3, 2), S(-3, -1),
    ["runif", "even", [["split", 1, True, [["el", FA], ["el", FB]]]]], ["runif", "m3", [["filter", "none"]]],
    ["runif", "all", [["count", "c2"]]],
    ["print"], ["context"], ["updctx"], ["mkfn"], ["ucfs"],
    SPLITS[0], SPLITS[2], SPLITS[3], SPLITS[4], SPLITS[5], SPLITS[6], SPLITS[8], SPLITS[9], SPLITS[10], SPLITS[11],
]
TRIPLE = [FA, ["filter", "even"], ["count", "c1"], S(3), S(1, None, 2), S(-1), S(-2, None), SPLITS[2], SPLITS[5],
          ["runif", "m3", [FA, FB]], S(1, -1), ["filter", "lt3"], SPLITS[8], SPLITS[10], ["var", "V"], S(1, 5, 2)]


def lengths(tier_thorough):
    return ([0, 1, 2, 3, 4, 5, 6, 7, 9, None] if tier_thorough else [0, 1, 2, 3, 5, 6, None])


# ------------------------------------------------------------------------------------ negative Slice: lag + liveness
def slice_neg_case(args, n):
    """closed forms of the property text for one negative Slice on one input; list of (clause, text)"""
    bad = []
    start, stop, step = slice(*args).start, slice(*args).stop, slice(*args).step or 1
    bound = max(-a for a in (start, stop) if a is not None and a < 0)
    finite = list(range(n if n is not None else M_INF))
    expected = finite[slice(*args)] if n is not None else None
    lagging = stop is not None and stop < 0 and (start is None or start >= 0)
    # Slice(-a, b) (a > 0, b >= 0), or a negative stop at or before a negative start: the result is empty as soon as
    # the flow has a + b values (resp. at once), whatever follows -- the shortest prefix that determines it
    decided = None
    if start is not None and start < 0 and stop is not None:
        decided = (stop - start) if stop >= 0 else (0 if stop <= start else None)
    if n is None and not lagging and decided is None:
        return bad          # a negative start needs the end of the flow: nothing to observe on an infinite input
    src = LiveSrc(n, track=True)
    it = Slice(*args).run(src)
    if src.pulled or src.alive_at_pull:
        bad.append(("work-before-first-demand", "run() pulled %d values" % src.pulled))
        return bad
    got = []
    try:
        with watchdog(WD[0]):
            while n is not None or len(got) < K_INF:
                try:
                    v = next(it)
                except StopIteration:
                    break
                got.append(v.i)
                del v
                k = len(got)
                if src.live > bound:
                    bad.append((_alive_clause(src.alive(), start, bound), "after result %d was handed over and dropped, %d "
                                "input values are still alive: %r (documented: %d)" % (k, src.live, src.alive(), bound)))
                    break
                if lagging:
                    # the k-th result is value number i = start + (k-1)*step; the input is lagged by exactly |stop|
                    i = (start or 0) + (k - 1) * step
                    want = i + 1 - stop
                    if src.pulled != want:
                        bad.append(("stop-lag", "after result %d (input value %d) %d values were pulled; a stop of %d lags "
                                    "the input by exactly %d: %d" % (k, i, src.pulled, stop, -stop, want)))
                        break
    except Timeout:
        hang_seen()
        bad.append(("nonterminating", "hang"))
    except Budget:
        bad.append(("nonterminating", "infinite input pulled more than %d times" % BUDGET))
    if bad:
        return bad
    for j, alive in enumerate(src.alive_at_pull):
        if len(alive) > bound:
            bad.append((_alive_clause(alive, start, bound), "when input value %d is asked for, %d earlier input values are "
                        "alive: %r (documented: %d)" % (j, len(alive), alive, bound)))
            break
    if expected is not None and got != expected:
        bad.append(("results-differ", "results %r, list slicing gives %r" % (got, expected)))
    if decided is not None and (n is None or n >= decided):
        if got:
            bad.append(("results-differ", "results %r, list slicing gives [] for every flow of %d or more values" % (got, decided)))
        elif src.pulled > decided + 1:
            bad.append(("exhaustion-overpull", "%d values pulled although the first %d decide that there is no result "
                        "(one value of slack allowed)" % (src.pulled, decided)))
    elif n is None and got != [(start or 0) + j * step for j in range(len(got))]:
        bad.append(("results-differ", "results %r on the infinite input" % (got,)))
    return bad


def _alive_clause(alive, start, bound):
    """more than |index| values alive.  Kept apart from a real breach of the deque bound: the values from `start` on
    respect the bound and the surplus consists of at most two of the `start` SKIPPED values (pinned by the plumbing
    of the skipping loop: a constant, not a growing buffer)"""
    skipped = [i for i in alive if start is not None and i < start]
    if 0 < len(skipped) <= 2 and len(alive) - len(skipped) <= bound:
        return "skipped-value-kept-alive"
    return "keeps-more-than-index-alive"


def _guard(fn):
    """an exception of the real code in one of the closed-form cases is a reported failure, not a crash of the harness"""
    def g(*a):
        try:
            return fn(*a)
        except Timeout:
            hang_seen()
            return [("nonterminating", "hang")]
        except Budget:
            return [("nonterminating", "the infinite input was pulled more than %d times" % BUDGET)]
        except Exception as e:
            return [("exception", "%s: %s" % (type(e).__name__, e))]
    g.__name__ = fn.__name__
    return g


slice_neg_case = _guard(slice_neg_case)


def replay_slice_neg(args, n):
    return bool(slice_neg_case(args, n))


# ---------------------------------------------------------------------------------------------- Split: liveness
def _ident(v):
    return v


class _IdObj(object):
    def __call__(self, v):
        return v


class _Sink(object):
    def fill(self, v):
        pass

    def compute(self):
        yield "done"


def split_live_branches(name):
    return {
        "id": lambda: [_ident],
        "id,id": lambda: [_ident, _IdObj()],
        "id,id,id": lambda: [_ident, _IdObj(), _ident],
        "slice(-1),id": lambda: [Sequence(Slice(-1)), _ident],
        "sink,id": lambda: [_Sink(), _ident],
        "filter,id": lambda: [(Filter(lambda v: v.i % 2 == 0),), _ident],
        "id;slice(1,None)": lambda: [Sequence(_ident, Slice(1, None))],
    }[name]()


def split_live_case(name, bufsize, copy_buf, n):
    """Split never holds more than bufsize unprocessed input values; pulls come in blocks"""
    bad = []
    src = LiveSrc(n)
    sp = Split(split_live_branches(name), bufsize=bufsize, copy_buf=copy_buf)
    it = sp.run(src)
    if src.alive_at_pull:
        bad.append(("work-before-first-demand", "run() pulled %d values" % src.pulled))
        return bad
    k = 0
    try:
        with watchdog(WD[0]):
            while n is not None or k < 3 * K_INF:
                try:
                    v = next(it)
                except StopIteration:
                    break
                del v
                k += 1
                if src.live > bufsize:
                    bad.append(("holds-more-than-bufsize", "after result %d was handed over and dropped, %d input values "
                                "are alive, bufsize is %d (pulled %d)" % (k, src.live, bufsize, src.pulled)))
                    break
                if src.pulled % bufsize and src.pulled != n:
                    bad.append(("partial-block", "after result %d, %d values are pulled: not whole blocks of %d"
                                % (k, src.pulled, bufsize)))
                    break
    except Timeout:
        hang_seen()
        bad.append(("nonterminating", "hang"))
    except Budget:
        bad.append(("nonterminating", "infinite input pulled more than %d times" % BUDGET))
    if not bad and n is not None:
        del it
        if src.live:
            bad.append(("holds-after-exhaustion", "%d input values alive after the exhausted run was dropped" % src.live))
    return bad


split_live_case = _guard(split_live_case)


def replay_split_live(name, bufsize, copy_buf, n):
    return bool(split_live_case(name, bufsize, copy_buf, n))


# ------------------------------------------------------------------------- infinite Sources, Slice(n) terminates
class _Num(float):
    """a number whose additions are counted: itertools.count (CountFrom) computes one value per addition"""
    adds = [0]

    def __add__(self, other):
        self.adds[0] += 1
        if self.adds[0] > 50 * BUDGET:
            raise Budget()
        return _Num(float.__add__(self, other))

    __radd__ = __add__


def infinite_source_case(which, n_stop):
    """a Slice(n) placed after an infinite Source terminates and generates nothing beyond; list of (clause, text)"""
    bad = []
    made = [0]

    def gen():
        for i in itertools.count():
            if made[0] >= BUDGET:
                raise Budget()
            made[0] += 1
            yield ((i,), {})

    if which == "CountFrom":
        _Num.adds[0] = 0
        s = Source(CountFrom(_Num(5), _Num(3)), Slice(n_stop))
        expected = [5.0 + 3 * j for j in range(n_stop)]
        view = float
    elif which == "generator":
        s = Source(gen, tagger("a"), Slice(n_stop))
        expected = [(j, "a") for j in range(n_stop)]
        view = lambda v: v[0]
    elif which == "generator-count-filter":
        s = Source(gen, Count("c1"), Filter(real_selector("even")), tagger("a"), Slice(n_stop))
        expected = [(2 * j, "a") for j in range(n_stop)]
        view = lambda v: v[0]
    elif which == "split-with-infinite-source-branch":
        _SrcBranch.produced[0] = 0
        s = Source(gen, Split([Source(_SrcBranch(100)), tagger("a")], bufsize=2), Slice(n_stop))
        expected = [(100 + j, "S") for j in range(n_stop)]
        view = lambda v: v[0]
    elif which == "nested-source":
        s = Source(Source(gen, tagger("a")), Slice(n_stop), tagger("b"))
        expected = [(j, "a", "b") for j in range(n_stop)]
        view = lambda v: v[0]
    else:
        raise ValueError(which)
    need = {"CountFrom": None, "generator": n_stop, "generator-count-filter": 0 if n_stop == 0 else 2 * (n_stop - 1) + 2,
            "split-with-infinite-source-branch": 0 if n_stop == 0 else 2, "nested-source": n_stop}[which]
    try:
        with watchdog(min(WD[0], 1.0)):
            it = s()
            if made[0]:
                bad.append(("work-before-first-demand", "Source.__call__ generated %d values" % made[0]))
                return bad
            got = [view(v) for v in it]
    except Timeout:
        hang_seen()
        bad.append(("nonterminating", "Slice(%d) after the infinite source does not terminate" % n_stop))
        return bad
    except Budget:
        bad.append(("nonterminating", "more than %d values generated for Slice(%d)" % (BUDGET, n_stop)))
        return bad
    if got != expected:
        bad.append(("results-differ", "%r, expected %r" % (got, expected)))
    elif need is not None and made[0] != need:
        bad.append(("pulled-more-than-needed" if made[0] > need else "pulled-less-than-determining-prefix",
                    "%d values generated, %d determine the %d results" % (made[0], need, n_stop)))
    elif which == "CountFrom" and _Num.adds[0] > n_stop + 1:
        bad.append(("pulled-more-than-needed", "CountFrom computed %d values for Slice(%d)" % (_Num.adds[0], n_stop)))
    elif which == "split-with-infinite-source-branch" and _SrcBranch.produced[0] != n_stop:
        bad.append(("pulled-more-than-needed", "the infinite Source branch of the Split generated %d values for Slice(%d)"
                    % (_SrcBranch.produced[0], n_stop)))
    return bad


infinite_source_case = _guard(infinite_source_case)


def replay_infinite_source(which, n_stop):
    return bool(infinite_source_case(which, n_stop))


# ------------------------------------------------------------------------------------------------ random pipelines
def rand_element(rng, depth):
    r = rng.random()
    if r < 0.16:
        return [rng.choice(["f", "obj", "var"]), rng.choice("abxy")]
    if r < 0.24:
        return [rng.choice(["print", "context", "updctx", "mkfn", "ucfs"])]
    if r < 0.36:
        return ["filter", rng.choice(["even", "m3", "all", "lt3", "ge2", "none"])]
    if r < 0.44:
        return ["count", rng.choice(["c1", "c2", "c3"])]
    if r < 0.70:
        vals = [None, 0, 1, 2, 3, 5, -1, -2, -3]
        start, stop = rng.choice(vals), rng.choice(vals)
        step = rng.choice([None, None, 1, 2, 3])
        form = rng.random()
        if form < 0.3:
            return S(stop)
        if form < 0.6:
            return S(start, stop)
        return S(start, stop, step)
    if r < 0.80 and depth < 2:
        return ["runif", rng.choice(["even", "m3", "all", "ge2"]),
                [rand_element(rng, depth + 1) for _ in range(rng.randint(1, 2))]]
    if depth < 2:
        nb = rng.randint(0, 3)
        branches = []
        for _ in range(nb):
            q = rng.random()
            if q < 0.6:
                branches.append(["seq", [rand_element(rng, depth + 1) for _ in range(rng.randint(1, 2))]])
            elif q < 0.75:
                branches.append(["el", [rng.choice(["f", "obj"]), rng.choice("abxy")]])
            elif q < 0.85:
                branches.append(["src", rng.choice([50, 100]), rng.randint(0, 3)])
            elif depth == 0:
                # (a nested Split is run once per block / value and a Slice behind it may abandon a run half-way: the
                # state a fill-compute branch then carries into the next run is C03's matter, not modelled here)
                branches.append(["fc", rng.choice([None, 0, 1, 3])])
        # copy_buf=False lets a Count branch mark the context another branch yields (documented sharing, C04's matter)
        copy_buf = rng.random() < 0.7 or '"count"' in json.dumps(branches)
        return ["split", rng.choice([1, 2, 3, 4, None, 1000]), copy_buf, branches]
    return ["f", "z"]


# ----------------------------------------------------------------------------------------------------------- body
def body(R):
    oracle_selftest()
    rng = R.rng
    T = R.thorough

    def run_scope(pipes, ns, modes, stops=True):
        for pipe in pipes:
            pipe = unique_counters(pipe)
            for n in ns:
                for mode in modes:
                    if n is None and mode.endswith("-sized"):
                        continue        # a sized iterable has finitely many values
                    bad = check_pipeline(pipe, n, mode, stops)
                    R.case(True, {"pipeline": pipe, "n": n, "mode": mode})
                    report(R, pipe, n, mode, bad)

    ns = lengths(T)
    R.scope("single streaming elements: Sequence(e).run(input) and Source(input, e)()",
            "the input as an iterator, as an iterable without __next__ and as a sized lazy iterable (__len__ + __iter__); the empty pipeline and %d element instances "
            "(callable, callable object, Variable, Print, Context, UpdateContext, MakeFilename, UpdateContextFromStatic, 6 Filters, Count, 11 non-negative and 12 negative Slices, 5 RunIf, 15 Splits incl. "
            "bufsize 1/2/3/4/1000/None, Source / fill-compute / Slice / Count / nested-Split branches); input lengths %s "
            "(None = infinite with a %d-pull watchdog, %d results taken); every consumer stop point k = 0..all results "
            "and exhaustion; after each k: (pulled, end probed) within the determining-prefix interval"
            % (len(SINGLES), ns, BUDGET, K_INF), True)
    run_scope([[]] + [[d] for d in SINGLES], ns, ["sequence", "source", "sequence-iterable", "source-iterable",
                                                  "sequence-sized", "source-sized"])

    pair = SINGLES if T else PAIR_QUICK
    ns2 = [0, 1, 2, 3, 4, 5, 7, None] if T else [0, 3, 5, None]
    R.scope("pipelines of two streaming elements",
            "all ordered pairs of %d element instances; input lengths %s; every consumer stop point and exhaustion"
            % (len(pair), ns2), True)
    run_scope([[a, b] for a in pair for b in pair], ns2, ["sequence"])

    tri = TRIPLE if T else TRIPLE[:8]
    ns3 = [0, 1, 2, 3, 5, 6, None] if T else [4, None]
    R.scope("pipelines of three streaming elements",
            "all ordered triples of %d element instances (callable, Filter, Count, Slice(3), Slice(1,None,2), Slice(-1), "
            "Slice(-2,None)%s); "
            "input lengths %s; every consumer stop point and exhaustion"
            % (len(tri), ", two Splits%s" % (", RunIf, Slice(1,-1), Filter(<3), Split with Source / fill-compute branch, "
                                              "Variable, Slice(1,5,2)" if T else ""), ns3), True)
    run_scope([[a, b, c] for a in tri for b in tri for c in tri], ns3, ["sequence"])

    n_rand = 40000 if T else 2500
    R.scope("random pipelines",
            "%d random pipelines of 1..4 elements (nested RunIf / Split to depth 2, Source and fill-compute branches, "
            "bufsize in {1,2,3,4,1000,None}, Slice indices in {None,0,1,2,3,5,-1,-2,-3}, step {None,1,2,3}), input length "
            "0..9 or infinite, Sequence or Source form; every consumer stop point and exhaustion" % n_rand, False)
    for _ in range(n_rand):
        pipe = unique_counters([rand_element(rng, 0) for _ in range(rng.randint(1, 4))])
        n = rng.choice([None, None] + list(range(10)))
        mode = rng.choice(["sequence", "sequence", "source"])
        try:
            with contextlib.redirect_stdout(STDOUT):
                make_iter(pipe, Src(0), mode)
        except lena.core.LenaValueError:
            continue                # e.g. Slice(5, -1, 0): outside the domain
        except Exception:
            pass                    # reported by check_pipeline
        bad = check_pipeline(pipe, n, mode)
        R.case(True, {"pipeline": pipe, "n": n, "mode": mode})
        report(R, pipe, n, mode, bad)

    rng_idx = [None] + list(range(-4, 5)) if T else [None, -3, -2, -1, 0, 1, 2, 3]
    steps = [None, 1, 2, 3]
    nmax = 10 if T else 7
    R.scope("Slice._run_negative_islice: deque bound and lag",
            "all Slice(start, stop, step) with start, stop in %s (at least one negative), step in %s, input lengths 0..%d "
            "and infinite; weak-reference liveness of the input values at every pull and after every result: at most "
            "max|negative index| alive; negative stop with start >= 0 or None: pulled == index of the k-th result + 1 + |stop| "
            "after every k; results == list slicing" % (rng_idx, steps, nmax), True)
    for start in rng_idx:
        for stop in rng_idx:
            if not ((start is not None and start < 0) or (stop is not None and stop < 0)):
                continue
            for step in steps:
                args = [start, stop] if step is None else [start, stop, step]
                for n in list(range(nmax + 1)) + [None]:
                    bad = slice_neg_case(args, n)
                    R.case(True, {"args": args, "n": n})
                    for clause, text in bad:
                        R.fail("Slice._run_negative_islice/" + clause,
                               "Slice(%s).run on %s values: %s" % (", ".join(map(repr, args)), "infinitely many" if n is None else n, text),
                               {"args": args, "n": n}, {"fn": "replay_slice_neg", "args": [args, n]})
    for stop in ([-1, -2, -5] if not T else [-1, -2, -3, -5, -8]):
        for n in list(range(nmax + 1)) + [None]:
            bad = slice_neg_case([stop], n)
            R.case(True)
            for clause, text in bad:
                R.fail("Slice._run_negative_islice/" + clause, "Slice(%d).run on %s values: %s" % (stop, n, text),
                       {"args": [stop], "n": n}, {"fn": "replay_slice_neg", "args": [[stop], n]})

    names = ["id", "id,id", "id,id,id", "slice(-1),id", "sink,id", "filter,id", "id;slice(1,None)"]
    bufs = [1, 2, 3, 4, 7] if T else [1, 2, 3]
    nsl = list(range(0, 15 if T else 9)) + [None]
    R.scope("Split.run: at most bufsize input values held, whole blocks",
            "branch lists %s x bufsize %s x copy_buf {True, False} x input lengths %s (None = infinite, %d results taken); "
            "weak-reference liveness after every result: at most bufsize input values alive; pulled is a multiple of "
            "bufsize (or the whole input); nothing alive after exhaustion" % (names, bufs, nsl, 3 * K_INF), True)
    for name in names:
        for b in bufs:
            for cb in (True, False):
                for n in nsl:
                    if n is None and name == "id;slice(1,None)" and b == 1:
                        continue        # every block of one value yields nothing: rightly never returns
                    bad = split_live_case(name, b, cb, n)
                    R.case(True, {"branches": name, "bufsize": b, "copy_buf": cb, "n": n})
                    for clause, text in bad:
                        R.fail("Split.run/" + clause, "Split([%s], bufsize=%d, copy_buf=%r) on %s values: %s" % (name, b, cb, n, text),
                               {"branches": name, "bufsize": b, "copy_buf": cb, "n": n},
                               {"fn": "replay_split_live", "args": [name, b, cb, n]})

    kinds = ["CountFrom", "generator", "generator-count-filter", "split-with-infinite-source-branch", "nested-source"]
    stops_ = list(range(0, 12 if T else 6))
    R.scope("Source(infinite, ..., Slice(n))() terminates",
            "infinite sources %s, Slice(n) for n in %s, whole output consumed with list(); terminates, results and the "
            "number of generated values as determined" % (kinds, stops_), True)
    for which in kinds:
        for m in stops_:
            bad = infinite_source_case(which, m)
            R.case(True, {"source": which, "n": m})
            who = {"CountFrom": "CountFrom.__call__", "split-with-infinite-source-branch": "Split.run(Source branch)"}.get(
                which, "Source.__call__")
            for clause, text in bad:
                R.fail(who + "/" + clause, "%s with Slice(%d): %s" % (which, m, text), {"source": which, "n": m},
                       {"fn": "replay_infinite_source", "args": [which, m]})


if __name__ == "__main__":
    R = Run("C02", {"replay_pipeline": replay_pipeline, "replay_slice_neg": replay_slice_neg,
                    "replay_split_live": replay_split_live, "replay_infinite_source": replay_infinite_source})
    sys.exit(R.main(body, "a case = one pipeline on one input (finite length or infinite), consumed result by result with the "
                          "input's pull counter compared with the determining-prefix oracle after every result, then re-run "
                          "once per consumer stop point; non-trivial when the real pipeline was executed; distinct by "
                          "construction of the enumeration (random scope: seeded)"))
