"""C13 bounded stand-in: static context seen by an element depends only on what encloses and precedes it.

Real lena trees of Sequence/Source/Split (depth <= 3) are built from a JSON description; every context consumer
(StoreContext, UpdateContextFromStatic, MakeFilename, Write, Cache), every SetContext and every container is
observed AFTER the whole tree exists and compared with a reference fold written from the property text (class Ref):

* a sequence threads the context through its items in document order; SetContext(key, value) formats value
  against the context that precedes it and merges {key: value} into it;
* a Split hands each branch a copy of the incoming context and exports the intersection of the branch contexts
  (a Split without branches "acts as an empty Sequence": transparent);
* consumers keep what they were given (no later or sibling element may change it or a name derived from it);
* an unresolvable formatting key surfaces as LenaKeyError naming the key when the context is requested; nothing is
  demanded of elements that FOLLOW such a key in an enclosing sequence;
* running the tree puts static context into run-time contexts only through UpdateContextFromStatic (and the names
  MakeFilename derives).

Failure ids.  A difference found by the reference is named after the element and the clause
(<Element>/later-SetContext-visible, /fold-mismatch, /unresolved-name-changed, <Container>/exported-context-...,
LenaKeyError/..., run/...).  Three deviations of the unchanged tree change what MANY elements of a tree see; so that
each of them keeps one stable id (and does not hide other failures in the same tree), class Sim replays the protocol
with these deviations switched on one by one, and the smallest set of them that explains more differences than the
plain reference gives the ids Split/empty-split-erases-context, Source/tail-sequence-rethreads-context-without-SetContext,
Split/sibling-branch-context-lost-after-unresolved-key; what is left over is named against that world.  Sim is never
the oracle: a tree is reported iff it differs from Ref.

Witnesses are shrunk by deleting elements while the same id is reported.  Never counted as proved."""
import copy
import itertools
import json
import os
import pickle
import re
import shutil
import sys
import tempfile

sys.path.insert(0, os.path.dirname(os.path.dirname(os.path.abspath(__file__))))
from bounded.common import Run, watchdog, Timeout

from lena.core import Sequence, Source, Split, LenaKeyError
from lena.meta import SetContext, StoreContext, UpdateContextFromStatic
from lena.output import MakeFilename, Write
from lena.flow import Cache

_TMP = [None]
_CASE = [0]


def tmpdir():
    if _TMP[0] is None:
        _TMP[0] = tempfile.mkdtemp(prefix="C13-", dir="/var/tmp")
    return _TMP[0]


def cleanup():
    if _TMP[0] is not None:
        shutil.rmtree(_TMP[0], ignore_errors=True)
        _TMP[0] = None


# ------------------------------------------------------------------------------------------------ reference
FIELD = re.compile(r"\{\{([^{}]+)\}\}")
CONSUMERS = ("store", "ucfs", "mf", "write", "cache")
CONTAINERS = ("seq", "src", "tup", "split")


class Unres(Exception):
    def __init__(self, key):
        Exception.__init__(self, key)
        self.key = key


class RefFail(Exception):
    pass


def r_lookup(ctx, dotted):
    cur = ctx
    for part in dotted.split("."):
        if not isinstance(cur, dict) or part not in cur:
            raise Unres(dotted)
        cur = cur[part]
    return cur


def r_format(tmpl, ctx):
    """every {{key}} replaced by the text of ctx[key] (dots = nesting); Unres if a key is absent"""
    return FIELD.sub(lambda m: "{}".format(r_lookup(ctx, m.group(1))), tmpl)


def r_merge(d, other):
    for k, v in other.items():
        if isinstance(v, dict) and isinstance(d.get(k), dict):
            r_merge(d[k], v)
        else:
            d[k] = copy.deepcopy(v)


def r_set(ctx, key, value):
    """the SetContext update: format against the prefix, then merge {key: value} (dots = nesting)"""
    if isinstance(value, str) and "{{" in value:
        value = r_format(value, ctx)
    upd = value
    for part in reversed(key.split(".")):
        upd = {part: upd}
    r_merge(ctx, upd)


def r_intersect(dicts):
    """greatest nested dictionary contained in every one of dicts (non-empty list)"""
    res = {}
    for k, v in dicts[0].items():
        if not all(k in d for d in dicts[1:]):
            continue
        vals = [d[k] for d in dicts]
        if all(isinstance(x, dict) for x in vals):
            res[k] = r_intersect(vals)
        elif all(x == v and isinstance(x, dict) == isinstance(v, dict) for x in vals[1:]):
            res[k] = copy.deepcopy(v)
    return res


class Ref(object):
    """reference walk of a tree description.

    seen[path]      context a consumer at path must have received / a SetContext must export
    exported[path]  context a container must export
    sibling         paths (consumers) that lie in a branch after a branch with an unresolvable key
    snaps           every context value that exists at some gap, in document order (with the position)
    fail            (path, key) of the first unresolvable formatting key in document order or None
    """

    def __init__(self, spec):
        self.seen = {}
        self.exported = {}
        self.sibling = set()
        self.snaps = []
        self.order = {}
        self.fail = None
        self.fail_keys = []
        self._sib = 0
        self._n = 0
        self.has_empty_split = any(sp[0] == "split" and not sp[1] for _, sp in walk_paths(spec))
        self.has_src = any(sp[0] == "src" for _, sp in walk_paths(spec))
        self.has_split = any(sp[0] == "split" for _, sp in walk_paths(spec))
        try:
            self.out = self.node(spec, {}, ())
        except RefFail:
            self.out = None

    def snap(self, ctx):
        self.snaps.append((self._n, copy.deepcopy(ctx)))

    def items(self, items, ctx, path):
        for i, it in enumerate(items):
            ctx = self.node(it, ctx, path + (i,))
            self.snap(ctx)
        return ctx

    def node(self, sp, ctx, path):
        self._n += 1
        self.order[path] = self._n
        kind = sp[0]
        if kind == "set":
            try:
                r_set(ctx, sp[1], sp[2])
            except Unres as u:
                self.fail_keys.append(u.key)
                if self.fail is None:
                    self.fail = (path, u.key)
                raise RefFail()
            self.seen[path] = copy.deepcopy(ctx)
            if self._sib:
                self.sibling.add(path)
            return ctx
        if kind in CONSUMERS:
            self.seen[path] = copy.deepcopy(ctx)
            if self._sib:
                self.sibling.add(path)
            return ctx
        if kind in ("data", "gen"):
            return ctx
        if kind in ("seq", "src", "tup"):
            ctx = self.items(sp[1], ctx, path)
            self.exported[path] = copy.deepcopy(ctx)
            if self._sib:
                self.sibling.add(path)
            return ctx
        if kind == "split":
            outs = []
            failed = False
            for i, br in enumerate(sp[1]):
                # a bare element as a branch is wrapped into a Sequence by Split: one level more in the path
                bpath = path + (i,) if br[0] in ("seq", "src", "tup") else path + (i, 0)
                try:
                    outs.append(self.node(br, copy.deepcopy(ctx), bpath))
                except RefFail:
                    if not failed:
                        failed = True
                        self._sib += 1
            if failed:
                self._sib -= 1
                raise RefFail()
            if outs:
                ctx = r_intersect(outs)
            # else: no branch context to intersect with - the Split "acts as an empty Sequence" (its docstring)
            self.exported[path] = copy.deepcopy(ctx)
            if self._sib:
                self.sibling.add(path)
            return ctx
        raise ValueError(sp)


# ------------------------------------------------------------------------------------------------ real tree
class Gen(object):
    def __init__(self, tag, n):
        self.tag, self.n = tag, n

    def __call__(self):
        for i in range(self.n):
            yield ((self.tag, i), {"g": "%s%d" % (self.tag, i)})


class Tag(object):
    """ordinary data element: appends its tag to the data part, leaves the context alone"""

    def __init__(self, tag):
        self.tag = tag

    def __call__(self, val):
        data, context = val
        return (tuple(data) + (self.tag,), context)


def build(sp, path, objs, prefix):
    kind = sp[0]
    if kind == "set":
        o = SetContext(sp[1], copy.deepcopy(sp[2]))
    elif kind == "store":
        o = StoreContext()
    elif kind == "ucfs":
        o = UpdateContextFromStatic()
    elif kind == "mf":
        o = MakeFilename(sp[1], dirname=sp[2]) if len(sp) > 2 and sp[2] is not None else MakeFilename(sp[1])
    elif kind == "write":
        o = Write(os.path.join(prefix, sp[1]), verbose=False)
    elif kind == "cache":
        o = Cache(os.path.join(prefix, sp[1]))
    elif kind == "data":
        o = Tag(sp[1])
    elif kind == "gen":
        o = Gen(sp[1], sp[2])
    elif kind in ("seq", "src", "tup"):
        els = [build(it, path + (i,), objs, prefix) for i, it in enumerate(sp[1])]
        if kind == "seq":
            o = Sequence(*els)
        elif kind == "src":
            o = Source(*els)
        else:
            o = tuple(els)
    elif kind == "split":
        brs = []
        for i, br in enumerate(sp[1]):
            if br[0] in ("seq", "src", "tup"):
                brs.append(build(br, path + (i,), objs, prefix))
            else:
                brs.append(build(br, path + (i, 0), objs, prefix))
        o = Split(brs)
        # the branches as Split holds them (tuples and bare elements were wrapped)
        for i, br in enumerate(sp[1]):
            if br[0] not in ("seq", "src"):
                try:
                    objs[path + (i,)] = o._seqs[i]
                except Exception:
                    pass
    else:
        raise ValueError(sp)
    if kind != "tup":
        objs[path] = o
    return o


def walk_paths(sp, path=()):
    yield path, sp
    if sp[0] in ("seq", "src", "tup"):
        for i, it in enumerate(sp[1]):
            for x in walk_paths(it, path + (i,)):
                yield x
    elif sp[0] == "split":
        for i, br in enumerate(sp[1]):
            if br[0] in ("seq", "src", "tup"):
                for x in walk_paths(br, path + (i,)):
                    yield x
            else:
                for x in walk_paths(br, path + (i, 0)):
                    yield x


def cache_name(c):
    m = re.match(r'Cache\("(.*?)" \+ "', repr(c), re.S)
    if m:
        return m.group(1)
    return getattr(c, "_filename", None)


def expected_name(tmpl, ctx):
    """(name, resolved): the template formatted with what the element saw, else the template itself"""
    try:
        return r_format(tmpl, ctx), True
    except Unres:
        return tmpl, False


RAISES = "<LenaKeyError>"


def observe(kind, o):
    """what the element at this place shows of the static context it holds"""
    if kind == "store":
        return copy.deepcopy(o.context)
    if kind == "ucfs":
        res = list(o.run(iter([(0, {})])))
        return copy.deepcopy(res[0][1])
    if kind == "mf":
        res = o((0, {}))
        out = res[1].get("output", {}) if isinstance(res, tuple) else {}
        return [out.get("filename"), out.get("dirname")]
    if kind == "write":
        return o.output_directory
    if kind == "cache":
        return cache_name(o)
    if kind == "set":
        return o._get_context()
    raise ValueError(kind)


def expect(kind, sp, ctx, prefix):
    if ctx is RAISES:
        return RAISES
    if kind in ("store", "ucfs", "set"):
        return ctx
    if kind == "mf":
        res = []
        for t in (sp[1], sp[2] if len(sp) > 2 else None):
            if t is None:
                res.append(None)
            else:
                name, ok = expected_name(t, ctx)
                res.append(name if ok else None)
        return res
    if kind in ("write", "cache"):
        return os.path.join(prefix, expected_name(sp[1], ctx)[0])
    raise ValueError(kind)


NAMES = {"store": "StoreContext", "ucfs": "UpdateContextFromStatic", "mf": "MakeFilename", "write": "Write",
         "cache": "Cache", "set": "SetContext", "seq": "Sequence", "src": "Source", "tup": "Sequence", "split": "Split"}


def short(x, n=160):
    s = x if isinstance(x, str) else repr(x)
    return s if len(s) <= n else s[:n] + "..."


# ------------------------------------------------------------------------------------------------ worlds
class World(object):
    """what a tree is compared with: the reference of the property (flags == ()), or - only to NAME a deviation that
    was found - the reference plus a set of already known deviations of the implementation"""

    def __init__(self, spec, ref, flags=()):
        self.flags = tuple(flags)
        self.ref = ref
        if not flags:
            self.seen = ref.seen
            self.exported = dict(ref.exported)
            failpos = ref.order[ref.fail[0]] if ref.fail else None
            if ref.fail:
                for path in list(self.exported):
                    if path in ref.sibling or ref.order[path] > failpos:
                        del self.exported[path]      # a sibling of a failed branch: only its consumers are demanded
                p = ref.fail[0]
                for n in range(len(p)):
                    self.exported[p[:n]] = RAISES
            self.fail_keys = list(ref.fail_keys)
            self.sim = None
        else:
            sim = Sim(spec, "ese" in flags, "tail" in flags, "sib" in flags)
            self.sim = sim
            self.seen = sim.seen
            self.exported = sim.exports(spec)
            self.fail_keys = sim.fail_keys

    def seen_of(self, path, kind):
        if self.sim is None:
            return self.seen[path]
        if kind == "set":
            return self.seen.get(path, RAISES)
        return self.seen.get(path, {})

    def later(self, path):
        if self.sim is None:
            n = self.ref.order[path]
            return [c for pos, c in self.ref.snaps if pos > n]
        t = self.sim.t_seen.get(path, 0)
        return [c for pos, c in self.sim.snaps if pos > t]


class SimFail(Exception):
    def __init__(self, key):
        Exception.__init__(self, key)
        self.key = key


class Sim(object):
    """Event-order replay of the static-context protocol (every element is first initialised on its own, then given the
    context by each enclosing sequence from the inside out, an empty context is not handed on) with three switchable
    deviations from the property that the unchanged tree shows:
      ese   a Split without branches exports {} instead of what it received
      tail  Source builds a second Sequence from its data elements, which threads the context again WITHOUT the
            SetContext elements of the Source
      sib   Split stops handing the context to its branches at the first branch whose context raises
    It is never used as the oracle, only to give a difference found by the oracle a stable name."""

    def __init__(self, spec, ese, tail, sib):
        self.ese, self.tail, self.sib = ese, tail, sib
        self.seen, self.t_seen, self.static, self.exc, self.last_in = {}, {}, {}, {}, {}
        self.snaps, self.clock, self.fail_keys = [], 0, []
        self.construct(spec, ())

    @staticmethod
    def has_set(sp):
        return sp[0] in CONSUMERS or sp[0] == "set" or sp[0] in CONTAINERS

    @staticmethod
    def has_get(sp):
        return sp[0] == "set" or sp[0] in CONTAINERS

    def branches(self, sp, path):
        for i, br in enumerate(sp[1]):
            if br[0] in ("seq", "src", "tup"):
                yield br, path + (i,)
            else:
                yield ["seq", [br]], path + (i,)

    def construct(self, sp, path):
        kind = sp[0]
        if kind == "set":
            try:
                self.set_ctx(sp, path, {})
            except SimFail:
                pass
        elif kind in CONSUMERS:
            pass
        elif kind in ("seq", "src", "tup"):
            for i, it in enumerate(sp[1]):
                self.construct(it, path + (i,))
            items = [(it, path + (i,)) for i, it in enumerate(sp[1])]
            try:
                self.thread(items, {}, path)
            except SimFail:
                pass
            if kind == "src" and self.tail:
                data = [x for x in items if x[0][0] not in ("set", "store")]
                try:
                    self.thread(data[1:], {}, ("tail",) + path)
                except SimFail:
                    pass
        elif kind == "split":
            for br, bpath in self.branches(sp, path):
                self.construct(br, bpath)
            self.last_in[path] = {}

    def thread(self, items, ctx, cpath):
        for it, ipath in items:
            if self.has_set(it) and ctx:
                try:
                    self.set_ctx(it, ipath, ctx)
                except SimFail as e:
                    self.exc[cpath] = e.key
                    return
            if self.has_get(it):
                try:
                    ctx = self.get(it, ipath)
                except SimFail as e:
                    self.exc[cpath] = e.key
                    raise
        self.static[cpath] = copy.deepcopy(ctx)

    def set_ctx(self, sp, path, ctx):
        kind = sp[0]
        self.clock += 1
        if kind == "set":
            c = copy.deepcopy(ctx)
            try:
                r_set(c, sp[1], sp[2])
            except Unres as u:
                self.exc[path] = u.key
                self.fail_keys.append(u.key)
                raise SimFail(u.key)
            self.seen[path] = c
            self.snaps.append((self.clock, c))
        elif kind in CONSUMERS:
            if kind in ("write", "cache") and not expected_name(sp[1], ctx)[1]:
                return      # the name stays what the last successful formatting made it
            self.seen[path] = copy.deepcopy(ctx)
            self.t_seen[path] = self.clock
        elif kind in ("seq", "src", "tup"):
            self.thread([(it, path + (i,)) for i, it in enumerate(sp[1])], ctx, path)
        elif kind == "split":
            if not ctx:
                return
            self.last_in[path] = copy.deepcopy(ctx)
            first = None
            for br, bpath in self.branches(sp, path):
                try:
                    self.set_ctx(br, bpath, copy.deepcopy(ctx))
                except SimFail as e:
                    if self.sib:
                        raise
                    first = first or e
            if first is not None:
                raise first

    def get(self, sp, path):
        kind = sp[0]
        if kind == "set":
            if path in self.seen:
                return copy.deepcopy(self.seen[path])
            raise SimFail(self.exc[path])
        if kind in ("seq", "src", "tup"):
            if path in self.static:
                return copy.deepcopy(self.static[path])
            raise SimFail(self.exc[path])
        if kind == "split":
            ctxs = [self.get(br, bpath) for br, bpath in self.branches(sp, path)]
            if not ctxs:
                return {} if self.ese else copy.deepcopy(self.last_in[path])
            return r_intersect(ctxs)
        raise ValueError(sp)

    def exports(self, spec):
        res = {}
        for path, sp in walk_paths(spec):
            if sp[0] in CONTAINERS:
                try:
                    res[path] = self.get(sp, path)
                except SimFail:
                    res[path] = RAISES
        return res


FLAG_FID = {"ese": "Split/empty-split-erases-context",
            "tail": "Source/tail-sequence-rethreads-context-without-SetContext",
            "sib": "Split/sibling-branch-context-lost-after-unresolved-key"}
FLAG_TEXT = {"ese": "a Split without branches ('acts as an empty Sequence') erases the static context for what follows",
             "tail": "the Sequence that Source builds from its data elements hands them the context again without the "
                     "SetContext updates of the Source",
             "sib": "after a branch whose context raises LenaKeyError the later branches of the Split are not given the context"}
FLAG_SETS = [("ese",), ("tail",), ("sib",), ("ese", "tail"), ("ese", "sib"), ("tail", "sib"), ("ese", "tail", "sib")]


class Obs(object):
    pass


def observe_all(spec, objs, ref):
    """everything the real tree shows, taken once, after the whole tree exists"""
    ob = Obs()
    ob.el, ob.cont, ob.copy_ok, ob.after, ob.share = {}, {}, {}, {}, {}
    for path, sp in walk_paths(spec):
        kind = sp[0]
        if (kind in CONSUMERS or kind == "set") and path in ref.seen:
            try:
                ob.el[path] = observe(kind, objs[path])
            except LenaKeyError as e:
                ob.el[path] = RAISES
            except Exception as e:
                ob.el[path] = "%s %s" % (type(e).__name__, e)
    for path, sp in walk_paths(spec):
        kind = sp[0]
        if kind not in CONTAINERS or path not in objs or not hasattr(objs[path], "_get_context"):
            continue
        if kind == "split" and not sp[1]:
            continue        # a Split without branches cannot know what it received; only what follows it is observed
        o = objs[path]
        try:
            got = o._get_context()
            ob.cont[path] = (copy.deepcopy(got), None)
        except LenaKeyError as e:
            ob.cont[path] = (RAISES, str(e))
            continue
        except Exception as e:
            ob.cont[path] = ("%s %s" % (type(e).__name__, e), None)
            continue
        # the result is a copy: changing it (deeply) must not change the next answer
        try:
            _scribble(got)
            again = o._get_context()
        except Exception as e:
            again = "%s %s" % (type(e).__name__, e)
        ob.copy_ok[path] = again
    # consumers must not have been disturbed by the _get_context calls and scribbles above
    for path, sp in walk_paths(spec):
        kind = sp[0]
        if kind in ("store", "ucfs") and path in ob.el:
            try:
                ob.after[path] = observe(kind, objs[path])
            except Exception as e:
                ob.after[path] = "%s %s" % (type(e).__name__, e)
        if kind == "ucfs" and path in ob.el:
            o = objs[path]
            try:
                g = o.run(iter([(0, {}), (1, {})]))
                first = next(g)
                _scribble(first[1])
                second = next(g)
                third = list(o.run(iter([(2, {})])))[0]
                ob.share[path] = (second[1], third[1])
            except Exception as e:
                ob.share[path] = ("%s %s" % (type(e).__name__, e), None)
    return ob


def compare(spec, ref, world, ob, prefix):
    """differences between the observations and a world, on the places where the property demands something;
    returns [(fid, what)] and the set of UpdateContextFromStatic/MakeFilename places that differ"""
    diffs, bad = [], set()
    for path, sp in walk_paths(spec):
        kind = sp[0]
        if path not in ob.el:
            continue
        seen = world.seen_of(path, kind)
        exp = expect(kind, sp, seen, prefix)
        got = ob.el[path]
        name = NAMES[kind]
        if got == exp:
            if kind in ("store", "ucfs") and ob.after.get(path, exp) != exp:
                diffs.append((name + "/changed-through-get_context-result",
                              "%s at %s shows %s after the dictionaries returned by _get_context() were changed" % (
                                  name, list(path), short(ob.after[path]))))
            if kind == "ucfs" and path in ob.share and (ob.share[path][0] != exp or ob.share[path][1] != exp):
                diffs.append(("UpdateContextFromStatic/run-shares-static-with-runtime",
                              "UpdateContextFromStatic at %s: after the first value's run-time context was changed the "
                              "next values receive %s" % (list(path), short(ob.share[path]))))
            continue
        if kind in ("ucfs", "mf"):
            bad.add(path)
        if any(got == expect(kind, sp, c, prefix) for c in world.later(path)):
            fid = name + "/later-SetContext-visible"
        elif seen is not RAISES and kind in ("write", "cache", "mf") and not all(
                expected_name(t, seen)[1] for t in sp[1:] if isinstance(t, str)):
            fid = name + "/unresolved-name-changed"
        elif got is RAISES:
            fid = name + "/LenaKeyError-for-resolvable"
        else:
            fid = name + "/fold-mismatch"
        diffs.append((fid, "%s at %s shows %s, the fold of the SetContext updates that enclose and precede it gives %s" % (
            name, list(path), short(got).replace(prefix + os.sep, ""), short(exp).replace(prefix + os.sep, ""))))
    keys = set()
    for k in world.fail_keys:
        keys.update(k.split("."))
    for path, sp in walk_paths(spec):
        kind = sp[0]
        if path not in ob.cont or path not in world.exported or path not in World_domain(ref):
            continue
        name = NAMES[kind]
        exp = world.exported[path]
        got, msg = ob.cont[path]
        if exp is RAISES:
            if got is not RAISES:
                diffs.append(("LenaKeyError/not-raised", "%s at %s: a formatting key (%s) cannot be resolved but "
                              "_get_context() returned %s" % (name, list(path), sorted(set(world.fail_keys)), short(got))))
            elif not any(re.search(r"\b%s\b" % re.escape(k), msg) for k in keys):
                diffs.append(("LenaKeyError/key-not-named", "%s at %s: LenaKeyError %s does not name the key (%s)" % (
                    name, list(path), short(msg), sorted(set(world.fail_keys)))))
            continue
        if got is RAISES:
            diffs.append(("LenaKeyError/raised-for-resolvable", "%s at %s: every key resolves, _get_context() raised %s" % (
                name, list(path), short(msg))))
            continue
        if got != exp:
            if kind == "split":
                fid = "Split/exported-not-intersection"
            elif any(c == got for c in world.later(path)):
                fid = name + "/exported-context-later-SetContext-visible"
            else:
                fid = name + "/exported-context-mismatch"
            diffs.append((fid, "%s at %s exports %s, reference %s" % (name, list(path), short(got), short(exp))))
            continue
        if ob.copy_ok.get(path, exp) != exp:
            diffs.append((name + "/get_context-not-a-deep-copy", "%s at %s: after changing the dictionary returned by "
                          "_get_context() the next call returns %s" % (name, list(path), short(ob.copy_ok[path]))))
    return diffs, bad


def World_domain(ref):
    """containers about which the property says something: those that completed before an unresolvable key (their
    context) and those that enclose it (LenaKeyError)"""
    d = getattr(ref, "_domain", None)
    if d is None:
        d = set(ref.exported)
        if ref.fail:
            failpos = ref.order[ref.fail[0]]
            d = set(p for p in d if p not in ref.sibling and ref.order[p] < failpos)
            p = ref.fail[0]
            for n in range(len(p)):
                d.add(p[:n])
        ref._domain = d
    return d


def check_tree(spec, mode="static"):
    """returns the list of disagreements [(fid, what)] between the real tree and the reference"""
    out = []
    ref = Ref(spec)
    _CASE[0] += 1
    if mode == "static":
        prefix = os.path.join(tmpdir(), "s")
    else:
        prefix = os.path.join(tmpdir(), "k%d" % _CASE[0])
        os.mkdir(prefix)
    try:
        _check(spec, mode, ref, prefix, out)
    finally:
        if mode != "static":
            shutil.rmtree(prefix, ignore_errors=True)
    return out


def _check(spec, mode, ref, prefix, out):
    objs = {}
    try:
        with watchdog(5):
            top = build(spec, (), objs, prefix)
    except Timeout:
        out.append(("construct/non-termination", "building the tree did not terminate"))
        return
    except Exception as e:
        out.append(("construct/exception", "building the tree raised %s: %s" % (type(e).__name__, short(str(e)))))
        return
    ob = observe_all(spec, objs, ref)
    world = World(spec, ref)
    diffs, bad = compare(spec, ref, world, ob, prefix)
    if diffs:
        # name the difference: does a known deviation (or a set of them) explain more of it?
        best = (len(diffs), 0, world, diffs, bad)
        for fl in FLAG_SETS:
            if ("ese" in fl and not ref.has_empty_split) or ("tail" in fl and not ref.has_src) or \
                    ("sib" in fl and not (ref.fail and ref.has_split)):
                continue
            w = World(spec, ref, fl)
            d, b = compare(spec, ref, w, ob, prefix)
            if (len(d), len(fl)) < best[:2]:
                best = (len(d), len(fl), w, d, b)
        if best[2] is not world:
            first = diffs[0][1]
            world, rest, bad = best[2], best[3], best[4]
            for f in world.flags:
                out.append((FLAG_FID[f], FLAG_TEXT[f] + ": " + first))
            diffs = rest
        out.extend(diffs)
    if mode == "files":
        _check_files(spec, ref, world, objs, prefix, out)
    elif mode == "run":
        _check_run(spec, ref, world, objs, top, prefix, out, bad, bool(diffs))


def _scribble(d):
    """change a nested dictionary in every sub-dictionary"""
    if isinstance(d, dict):
        for v in list(d.values()):
            _scribble(v)
        d["__scribble__"] = "S"
        for k in list(d):
            if not isinstance(d[k], dict) and k != "__scribble__":
                d[k] = "S"


# ---- names on the file system
def _check_files(spec, ref, world, objs, prefix, out):
    for path, sp in walk_paths(spec):
        kind = sp[0]
        if kind not in ("write", "cache") or path not in ref.seen:
            continue
        o = objs[path]
        exp = expect(kind, sp, world.seen_of(path, kind), prefix)
        before = set(_listing(prefix))
        try:
            with watchdog(2):
                if kind == "write":
                    res = list(o.run(iter([("text%s" % (path,), {"output": {"filename": "f"}})])))
                    want = os.path.join(exp, "f.txt")
                    ok = (len(res) == 1 and res[0][0] == want and os.path.isfile(want)
                          and open(want).read() == "text%s" % (path,))
                    if ok:
                        c = res[0][1]
                        if set(c) != {"output"} or set(c["output"]) - {"changed"} != {"filename", "fileext", "filepath"} \
                                or c["output"]["filename"] != "f" or c["output"]["filepath"] != want:
                            out.append(("Write/run-context-gains-other-keys", "Write at %s: the value's context after run is %s; "
                                        "only output.filename/fileext/filepath(/changed) are documented" % (list(path), short(c))))
                else:
                    res = list(o.run(iter([("v", {"p": list(path)})])))
                    want = exp
                    ok = res == [("v", {"p": list(path)})] and os.path.isfile(want)
                    if ok:
                        with open(want, "rb") as f:
                            ok = pickle.load(f) == ("v", {"p": list(path)})
        except Timeout:
            out.append((NAMES[kind] + "/non-termination", "%s at %s: run did not terminate" % (NAMES[kind], list(path))))
            continue
        except Exception as e:
            ok, want = False, "%s (run raised %s %s)" % (exp, type(e).__name__, e)
        if not ok:
            new = sorted(set(_listing(prefix)) - before)
            rel = [os.path.relpath(x, prefix) for x in new]
            later = False
            for c in world.later(path):
                lv = expect(kind, sp, c, prefix)
                lv = os.path.join(lv, "f.txt") if kind == "write" else lv
                if lv in new:
                    later = True
            fid = NAMES[kind] + ("/file-named-from-later-SetContext" if later else "/file-name-mismatch")
            out.append((fid, "%s at %s wrote %s, the context that precedes it gives %s" % (
                NAMES[kind], list(path), rel, os.path.relpath(want, prefix) if want.startswith(prefix) else want)))


def _listing(root):
    res = []
    for d, _, fs in os.walk(root):
        for f in fs:
            res.append(os.path.join(d, f))
    return res


# ---- run-time: static context reaches run-time contexts only through UpdateContextFromStatic
def runnable(sp, top=True):
    """the tree can be run as a whole (Source only on top, as a Split branch or first in a Source)"""
    kind = sp[0]
    if kind == "seq" or kind == "tup":
        return all(it[0] not in ("src", "gen") and runnable(it, False) for it in sp[1])
    if kind == "src":
        data = [it for it in sp[1] if it[0] not in ("set", "store")]
        if not data:
            return False
        first = data[0]
        if first[0] == "gen" or first[0] == "src":
            pass
        elif first[0] == "split":
            if not first[1] or not all(b[0] == "src" for b in first[1]):
                return False
        else:
            return False
        return all(runnable(it, False) for it in sp[1]) and all(it[0] not in ("gen", "src") for it in data[1:])
    if kind == "split":
        return all(b[0] in ("seq", "src", "tup") and runnable(b, False) for b in sp[1])
    return True


FLOW = [((1,), {"rt": "r1"}), ((2,), {}), ((3,), {"output": {"fileext": "x"}})]


def ref_run(sp, path, flow, world):
    """reference run: list of (data, context) values leaving the node for the list entering it"""
    kind = sp[0]
    if kind in ("set", "store", "write", "cache"):
        return flow          # Write lets non-string data pass, Cache lets everything pass
    if kind == "gen":
        return list(Gen(sp[1], sp[2])())
    if kind == "data":
        return [(tuple(d) + (sp[1],), c) for d, c in flow]
    if kind == "ucfs":
        res = []
        for d, c in flow:
            c = copy.deepcopy(c)
            r_merge(c, world.seen_of(path, "ucfs"))
            res.append((d, c))
        return res
    if kind == "mf":
        res = []
        for d, c in flow:
            c = copy.deepcopy(c)
            for key, t in (("filename", sp[1]), ("dirname", sp[2] if len(sp) > 2 else None)):
                if t is None or key in c.get("output", {}):
                    continue
                full = copy.deepcopy(world.seen_of(path, "mf"))
                full.update(copy.deepcopy(c))       # documented: run-time context takes precedence
                try:
                    name = r_format(t, full)
                except Unres:
                    continue
                r_merge(c, {"output": {key: name}})
            res.append((d, c))
        return res
    if kind in ("seq", "tup", "src"):
        for i, it in enumerate(sp[1]):
            flow = ref_run(it, path + (i,), flow, world)
        return flow
    if kind == "split":
        if not sp[1]:
            return flow
        res = []
        for i, br in enumerate(sp[1]):
            res.extend(ref_run(br, path + (i,), copy.deepcopy(flow), world))
        return res
    raise ValueError(sp)


def static_values(ref):
    vals = set()

    def rec(v):
        if isinstance(v, dict):
            for x in v.values():
                rec(x)
        elif isinstance(v, str):
            vals.add(v)
    for _, c in ref.snaps:
        rec(c)
    return vals


def strings_in(v, acc):
    if isinstance(v, dict):
        for x in v.values():
            strings_in(x, acc)
    elif isinstance(v, (list, tuple)):
        for x in v:
            strings_in(x, acc)
    elif isinstance(v, str):
        acc.add(v)
    return acc


def _check_run(spec, ref, world, objs, top, prefix, out, bad, had_diffs):
    if ref.fail is not None or not runnable(spec) or bad or had_diffs:
        return
    try:
        with watchdog(3):
            if spec[0] == "src":
                got = list(top())
                exp = ref_run(spec, (), [], world)
            else:
                got = list(top.run(copy.deepcopy(FLOW)))
                exp = ref_run(spec, (), copy.deepcopy(FLOW), world)
    except Timeout:
        out.append(("run/non-termination", "running the tree did not terminate"))
        return
    except Exception as e:
        out.append(("run/exception", "running the tree raised %s: %s" % (type(e).__name__, short(str(e)))))
        return
    got = [(tuple(d), c) for d, c in got]
    if got != exp:
        sv = static_values(ref)
        leaked = (strings_in([c for _, c in got], set()) - strings_in([c for _, c in exp], set())) & sv
        if leaked:
            out.append(("run/static-context-leaked-into-runtime", "run-time contexts contain static values %s that no "
                        "UpdateContextFromStatic/MakeFilename put there: got %s, reference %s" % (
                            sorted(leaked), short(got, 300), short(exp, 300))))
        else:
            out.append(("run/output-mismatch", "running the tree gave %s, reference %s" % (short(got, 300), short(exp, 300))))
    # every Cache the flow passed through wrote the file named from what precedes it
    want = set()
    for path, sp in walk_paths(spec):
        if sp[0] == "cache" and path in ref.seen:
            want.add(expect("cache", sp, world.seen_of(path, "cache"), prefix))
    have = set(_listing(prefix))
    if have != want:
        out.append(("run/cache-files-mismatch", "running the tree created %s, the Cache names derived from what precedes "
                    "them are %s" % (sorted(os.path.relpath(x, prefix) for x in have),
                                     sorted(os.path.relpath(x, prefix) for x in want))))


# ------------------------------------------------------------------------------------------------ replay
def replay_tree(spec, mode, fid):
    try:
        return any(f == fid for f, _ in check_tree(spec, mode))
    finally:
        cleanup()


# ------------------------------------------------------------------------------------------------ enumeration
# SetContext alphabet of the exhaustive scopes; '#' is replaced by the number of the leaf, so that a repeated key
# has a different value at every place (attribution), while K/Q are the same everywhere (survive intersections).
A_EXH = [("a", "A#"), ("k", "K"), ("n.p", "P#"), ("n.q", "Q"), ("c", "{{a}}|{{n.p}}"), ("d", "{{zz}}")]
A_RND = A_EXH + [("a", "{{a}}+"), ("b", "B#"), ("e", 0), ("e", ""), ("n", {"r": "R"}), ("n", "N#"), ("b", "{{n.q}}{{k}}"),
                 ("d", "{{n.zz}}"), ("a", "A"), ("n.p", "P"), ("x.y.z", "Z#"), ("x.y", "{{x.y.z}}")]


def lists_of(size, item_fn):
    """all lists of items whose sizes add up to size; item_fn(s) enumerates the items of size s"""
    if size == 0:
        yield []
        return
    for s in range(1, size + 1):
        for first in item_fn(s):
            for rest in lists_of(size - s, item_fn):
                yield [first] + rest


def items_of(size, depth, alphabet):
    """items (leaf or container) of exactly this size that may stand in a sequence with `depth` levels left below"""
    if size == 1:
        for a in alphabet:
            yield ["set", a[0], a[1]]
    if depth >= 1:
        for content in lists_of(size - 1, lambda s: items_of(s, depth - 1, alphabet)):
            yield ["seq", content]
        for sp in splits_of(size, depth, alphabet):
            yield sp


def splits_of(size, depth, alphabet):
    """Split nodes of this size (1 + sizes of the branches); the branches take one more level"""
    def branch(s):
        if depth < 2:
            return
        for content in lists_of(s - 1, lambda t: items_of(t, depth - 2, alphabet)):
            yield ["tup", content]
            yield ["src", [["gen", "g", 2]] + content]
    if size == 1:
        yield ["split", []]
    elif depth >= 2:
        for brs in lists_of(size - 1, branch):
            yield ["split", brs]


def skeletons(max_size, alphabet):
    """all trees with at most max_size nodes (top included), depth <= 3, leaves = SetContext from the alphabet"""
    for size in range(1, max_size + 1):
        for content in lists_of(size - 1, lambda s: items_of(s, 2, alphabet)):
            yield ["seq", content]
            yield ["src", [["gen", "g", 2]] + content]
        for sp in splits_of(size, 3, alphabet):
            yield sp


def number_leaves(sp, counter=None):
    """replace '#' in SetContext values and consumer templates by a per-leaf number (in document order)"""
    if counter is None:
        counter = [0]
    kind = sp[0]
    if kind in CONTAINERS:
        return [kind, [number_leaves(x, counter) for x in sp[1]]]
    counter[0] += 1
    n = str(counter[0])
    return [x.replace("#", n) if isinstance(x, str) else x for x in sp]


def gaps(sp, path=()):
    """(path of a sequence, index) for every place where an element may be inserted"""
    kind = sp[0]
    if kind in ("seq", "src", "tup"):
        for i in range(len(sp[1]) + 1):
            yield path, i
        for i, it in enumerate(sp[1]):
            for g in gaps(it, path + (i,)):
                yield g
    elif kind == "split":
        for i, br in enumerate(sp[1]):
            for g in gaps(br, path + (i,)):
                yield g


PROBES = [["store"], ["ucfs"], ["mf", "m#{{a}}_{{k}}", "{{n.p}}"], ["write", "w#_{{a}}_{{n.q}}"], ["cache", "c#_{{c}}_{{k}}.pkl"],
          ["data", "t#"], ["mf", "m#{{n.q}}"], ["write", "w#_{{k}}/{{n.p}}"], ["cache", "c#_{{a}}.pkl"]]
PROBES_RUN = [["store"], ["ucfs"], ["mf", "m#{{a}}_{{k}}"], ["write", "w#_{{a}}_{{n.q}}"], ["cache", "c#_{{c}}_{{k}}.pkl"],
              ["data", "t#"], ["mf", "m#{{b}}"], ["cache", "c#_{{a}}.pkl"]]


def insert(sp, inserts):
    """inserts: {(path, index): [elements]} -> new tree with the elements inserted at the gaps"""
    def rec(node, path):
        kind = node[0]
        if kind in ("seq", "src", "tup"):
            res = []
            for i in range(len(node[1]) + 1):
                for e in inserts.get((path, i), []):
                    if kind == "src" and not any(x[0] in ("gen", "src", "split") for x in res) and e[0] not in ("store", "set"):
                        continue        # only elements without a data part may stand before the generator
                    res.append(copy.deepcopy(e))
                if i < len(node[1]):
                    res.append(rec(node[1][i], path + (i,)))
            return [kind, res]
        if kind == "split":
            return [kind, [rec(b, path + (i,)) for i, b in enumerate(node[1])]]
        return copy.deepcopy(node)
    return rec(sp, ())


def with_bundles(skel, probes, rot=0):
    ins = {}
    for j, g in enumerate(gaps(skel)):
        k = (j + rot) % len(probes)
        ins[g] = probes[k:] + probes[:k]
    return number_leaves(insert(skel, ins))


# ---- random trees
def rnd_leaf(rng, alphabet, probes, p_set):
    if rng.random() < p_set:
        a = rng.choice(alphabet)
        return ["set", a[0], copy.deepcopy(a[1])]
    return copy.deepcopy(rng.choice(probes))


def rnd_items(rng, depth, alphabet, probes, p_set, maxlen):
    res = []
    for _ in range(rng.randint(0, maxlen)):
        r = rng.random()
        if depth >= 1 and r < 0.18:
            res.append(["seq", rnd_items(rng, depth - 1, alphabet, probes, p_set, maxlen)])
        elif depth >= 2 and r < 0.40:
            res.append(rnd_split(rng, depth, alphabet, probes, p_set, maxlen))
        elif depth >= 1 and r < 0.42:
            res.append(["split", []])
        else:
            res.append(rnd_leaf(rng, alphabet, probes, p_set))
    return res


def rnd_src(rng, depth, alphabet, probes, p_set, maxlen):
    """depth = levels available below this Source"""
    head = []
    for _ in range(rng.randint(0, 1)):
        a = rng.choice(alphabet)
        head.append(rng.choice([["set", a[0], copy.deepcopy(a[1])], ["store"]]))
    r = rng.random()
    if depth >= 1 and r < 0.15:
        first = rnd_src(rng, depth - 1, alphabet, probes, p_set, maxlen)
    elif depth >= 2 and r < 0.3:
        first = ["split", [rnd_src(rng, depth - 2, alphabet, probes, p_set, maxlen) for _ in range(rng.randint(1, 2))]]
    else:
        first = ["gen", "g#", rng.randint(1, 2)]
    return ["src", head + [first] + rnd_items(rng, depth, alphabet, probes, p_set, maxlen)]


def rnd_split(rng, depth, alphabet, probes, p_set, maxlen, bare=True):
    """depth = levels available including the Split itself (>= 2)"""
    brs = []
    for _ in range(rng.randint(1, 3)):
        r = rng.random()
        if r < 0.2:
            brs.append(rnd_src(rng, depth - 2, alphabet, probes, p_set, maxlen))
        elif r < 0.3 and bare:
            brs.append(rnd_leaf(rng, alphabet, [["store"], ["ucfs"], ["data", "t#"]], p_set))
        else:
            brs.append([rng.choice(["tup", "seq"]), rnd_items(rng, depth - 2, alphabet, probes, p_set, maxlen)])
    return ["split", brs]


def rnd_tree(rng, alphabet, probes, p_set=0.45, maxlen=4, bare=True, depth=3):
    r = rng.random()
    if r < 0.55:
        t = ["seq", rnd_items(rng, depth - 1, alphabet, probes, p_set, maxlen)]
    elif r < 0.85:
        t = rnd_src(rng, depth - 1, alphabet, probes, p_set, maxlen)
    else:
        t = rnd_split(rng, depth, alphabet, probes, p_set, maxlen, bare)
    return number_leaves(t)


def depth_of(sp):
    if sp[0] not in CONTAINERS:
        return 0
    return 1 + max([depth_of(x) for x in sp[1]] + [0])


# ------------------------------------------------------------------------------------------------ body
def body(R):
    try:
        _body(R)
    finally:
        cleanup()


def removals(sp):
    """all trees obtained by deleting one item / one branch"""
    kind = sp[0]
    if kind in CONTAINERS:
        for i in range(len(sp[1])):
            if sp[1][i][0] != "gen":
                yield [kind, sp[1][:i] + sp[1][i + 1:]]
        for i in range(len(sp[1])):
            for sub in removals(sp[1][i]):
                yield [kind, sp[1][:i] + [sub] + sp[1][i + 1:]]


def safe_check(spec, mode):
    try:
        return check_tree(spec, mode)
    except Exception as e:
        return [("harness/exception", "%s %s" % (type(e).__name__, e))]


def minimize(spec, mode, fid, budget=400):
    """greedy deletion of elements while the same kind of failure is still reported"""
    changed = True
    while changed and budget > 0:
        changed = False
        for cand in removals(spec):
            budget -= 1
            if budget <= 0:
                break
            if any(f == fid for f, _ in safe_check(cand, mode)):
                spec, changed = cand, True
                break
    return spec


def run_case(R, spec, mode, nontrivial=True):
    R.case(nontrivial, {"tree": spec, "mode": mode})
    res = safe_check(spec, mode)
    seen = set()
    for fid, what in res:
        if fid in seen:
            continue
        seen.add(fid)
        if R.fail_counts.get(fid, 0) < 3:
            small = minimize(spec, mode, fid)
            ws = [w for f, w in safe_check(small, mode) if f == fid]
            if ws:
                what = ws[0]
            else:           # not reproducible on its own (state carried between trees): keep the tree as found
                small = spec
            R.fail(fid, what + " | tree " + json.dumps(small), {"tree": small, "mode": mode, "found_in": spec},
                   {"fn": "replay_tree", "args": [small, mode, fid]})
        else:
            R.fail(fid, what)
    return res


def _body(R):
    rng = R.rng
    thorough = R.thorough

    # 1. every consumer kind in every gap at once
    n1 = 5 if thorough else 4
    R.scope("static context of every consumer in every gap (bundle of StoreContext, UpdateContextFromStatic, MakeFilename, "
            "Write, Cache, data element in each gap)",
            "ALL trees of Sequence/Source/Split (branches as tuples and Sources) with <= %d nodes, depth <= 3, leaves = "
            "SetContext over %s ('#' = number of the leaf); all 9 probe elements inserted in every gap of every sequence "
            "(rotated); observed after the whole tree exists: StoreContext.context, UpdateContextFromStatic.run output, "
            "MakeFilename output, Write.output_directory, Cache name, SetContext._get_context(), every container's "
            "_get_context() (value, deep-copy independence, LenaKeyError naming the key)" % (n1, A_EXH), True)
    k = 0
    for sk in skeletons(n1, A_EXH):
        k += 1
        run_case(R, with_bundles(sk, PROBES, k), "static")

    # 2. one consumer at one position
    n2 = 4 if thorough else 3
    R.scope("one context consumer / data element at one position",
            "ALL trees with <= %d nodes as above, x every gap x each of the 9 probe elements alone" % n2, True)
    for sk in skeletons(n2, A_EXH):
        for g in gaps(sk):
            for p in PROBES:
                t = number_leaves(insert(sk, {g: [p]}))
                if t == number_leaves(sk):
                    continue        # a data element cannot stand before the generator of a Source
                run_case(R, t, "static")

    # 2b. Splits with two and three branches
    opts = [[], [["set", "a", "A#"]], [["set", "k", "K"]], [["set", "n.p", "P#"]], [["set", "n.q", "Q"]],
            [["set", "k", "K"], ["set", "n.q", "Q"]], [["set", "a", "A#"], ["set", "k", "K"]]]
    if not thorough:
        opts = opts[:5]
    pres = [[], [["set", "a", "A#"]], [["set", "n.p", "P#"]]]
    tops = ["seq", "src"] if thorough else ["seq"]
    R.scope("Split with 2 and 3 branches: independent copies in, intersection out",
            "ALL trees Top(pre, Split([b1, b2(, b3)]), ...) with Top in %s, pre in {nothing, SetContext a, SetContext n.p}, each branch one of "
            "%d SetContext lists over a/k/n.p/n.q (branch i is a tuple, a Sequence or a Source in turn), probe bundle in every gap" % (
                tops, len(opts)), True)
    k = 0
    for top in tops:
        for pre in pres:
            for nb in (2, 3):
                for combo in itertools.product(opts, repeat=nb):
                    k += 1
                    brs = []
                    for i, b in enumerate(combo):
                        bk = ("tup", "seq", "src")[(i + k) % 3]
                        brs.append([bk, ([["gen", "g#", 1]] if bk == "src" else []) + copy.deepcopy(b)])
                    sk = [top, ([["gen", "g#", 1]] if top == "src" else []) + copy.deepcopy(pre) + [["split", brs]]]
                    run_case(R, with_bundles(sk, PROBES, k), "static")

    # 3. random larger trees, richer alphabet
    n3 = 50000 if thorough else 3000
    R.scope("random trees, static context",
            "%d random trees of depth <= 3, sequences of 0..4 items (SetContext over %d key/value forms incl. self-referring "
            "formats, dict and falsy values, nested keys, unresolvable keys; all consumers; Sequence/tuple/Source/bare-element "
            "branches; nested Sources; empty Splits)" % (n3, len(A_RND)), False)
    for _ in range(n3):
        t = rnd_tree(rng, A_RND, PROBES)
        assert depth_of(t) <= 3
        run_case(R, t, "static")

    # 4. names on the file system
    n4 = 4 if thorough else 3
    R.scope("Write directory / Cache file actually written",
            "ALL trees with <= %d nodes as in scope 1 with the probe bundle in every gap: every Write is given one string value, "
            "every Cache one value; the file must appear under the name derived from the context that precedes the element" % n4, True)
    k = 0
    for sk in skeletons(n4, A_EXH[:5]):
        k += 1
        run_case(R, with_bundles(sk, PROBES, k), "files")
    n4r = 3000 if thorough else 300
    R.scope("Write directory / Cache file actually written (random)", "%d random trees as in scope 3" % n4r, False)
    for _ in range(n4r):
        run_case(R, rnd_tree(rng, A_RND, PROBES), "files")

    # 5. run-time
    n5 = 4 if thorough else 3
    alpha_run = [("a", "A#"), ("k", "K"), ("b", "B#"), ("c", "{{a}}|{{k}}")]
    R.scope("run-time contexts: static context enters only through UpdateContextFromStatic (and MakeFilename's names)",
            "ALL runnable trees with <= %d nodes, SetContext over %s, probe bundle in every gap; the tree is run on 3 values "
            "(a Source is called) and the (data, context) values are compared with a reference run in which only "
            "UpdateContextFromStatic merges the static context it saw and MakeFilename formats its name from it; Cache files "
            "created = names derived from what precedes each Cache" % (n5, alpha_run), True)
    k = 0
    for sk in skeletons(n5, alpha_run):
        k += 1
        t = with_bundles(sk, PROBES_RUN, k)
        if runnable(t):
            run_case(R, t, "run")
    n5r = 6000 if thorough else 600
    R.scope("run-time contexts (random)", "%d random runnable trees of depth <= 3 over %s" % (n5r, alpha_run + [("e", 0), ("a", "{{a}}+")]), False)
    done = 0
    while done < n5r:
        t = rnd_tree(rng, alpha_run + [("e", 0), ("a", "{{a}}+")], PROBES_RUN, bare=False)
        if runnable(t):
            done += 1
            run_case(R, t, "run")

    # 5b. values that carry items of their own under a nested static key
    R.scope("run-time contexts with items under a nested static key: earlier values do not change what later values see",
            "ALL trees of 3 shapes (flat, nested Sequence followed by a later SetContext, Split with two branches) x 5 probes "
            "(MakeFilename with one / two nested keys, UpdateContextFromStatic, StoreContext, Write) below "
            "SetContext('n.p') / SetContext('n.q'), run on 5 values of which the first and third carry their own "
            "{'n': {...}} (overriding one nested key, adding another): every value is named / merged exactly as the "
            "reference computes it from the static context that precedes the consumer - whatever flowed through before", True)
    flow_nested = [((1,), {"n": {"p": "rtP", "z": "rtZ"}}), ((2,), {}), ((3,), {"n": {"q": "rtQ"}}), ((4,), {}),
                   ((5,), {"n": {"p": "rtP2", "q": "rtQ2"}})]
    saved_flow = list(FLOW)
    FLOW[:] = flow_nested
    try:
        for probe in (["mf", "m#{{n.p}}_{{n.q}}"], ["mf", "m#{{n.p}}"], ["ucfs"], ["store"], ["write", "w#_{{n.p}}_{{n.q}}"]):
            for probe2 in (["mf", "u#{{n.q}}"], ["ucfs"]):
                shapes = [
                    ["seq", [["set", "n.p", "P#"], ["set", "n.q", "Q"], probe, probe2]],
                    ["seq", [["set", "n.p", "P#"], ["seq", [["set", "n.q", "Q"], probe, probe2]], ["set", "n.p", "late#"]]],
                    ["seq", [["set", "n.p", "P#"], ["split", [["tup", [["set", "n.q", "Q"], probe]], ["tup", [probe2]]]]]],
                ]
                for t in shapes:
                    run_case(R, number_leaves(copy.deepcopy(t)), "run")
    finally:
        FLOW[:] = saved_flow

    # 6. one level deeper than the property's quantifier (the statement itself has no depth)
    n6 = 6000 if thorough else 700
    alpha6 = A_EXH + [("d", "{{zz}}"), ("b", "B#"), ("a", "{{a}}+")]
    R.scope("random trees of depth 4 (one level beyond the quantifier), static context",
            "%d random trees of depth <= 4, sequences of 0..3 items, SetContext over %s (unresolvable keys twice as likely), "
            "all consumers" % (n6, alpha6), False)
    for _ in range(n6):
        t = rnd_tree(rng, alpha6, PROBES, maxlen=3, depth=4)
        run_case(R, t, "static")
    R.scope("depth 4: a branch with an unresolvable key next to a branch with a consumer",
            "ALL trees Sequence(SetContext, Split([B1, B2])) and the same with the branches exchanged: B1 in {(Sequence(SetContext('d','{{zz}}')),), "
            "Source(gen, Sequence(SetContext('d','{{zz}}'))), (SetContext('d','{{zz}}'),), (Sequence(SetContext('c','{{a}}|{{n.p}}')),)}, "
            "B2 = (SetContext, probe) for each of the 9 probe elements; outer SetContext a or k", True)
    for outer in (["set", "a", "A#"], ["set", "n.p", "P#"]):
        for b1 in (["tup", [["seq", [["set", "d", "{{zz}}"]]]]], ["src", [["gen", "g#", 1], ["seq", [["set", "d", "{{zz}}"]]]]],
                   ["tup", [["set", "d", "{{zz}}"]]], ["tup", [["seq", [["set", "c", "{{a}}|{{n.p}}"]]]]]):
            for p in PROBES:
                b2 = ["tup", [["set", "k", "K"], p]]
                for brs in ([b1, b2], [b2, b1]):
                    run_case(R, number_leaves(["seq", [outer, ["split", copy.deepcopy(brs)]]]), "static")


if __name__ == "__main__":
    R = Run("C13", {"replay_tree": replay_tree})
    sys.exit(R.main(body, "a case is one tree built from real lena elements and compared, element by element, with the "
                          "reference fold of the SetContext updates that enclose and precede each element; non-trivial when the "
                          "tree was built and at least one observation was compared; trees are distinct by construction of the "
                          "enumeration (random scopes may repeat small trees)"))
