"""C10 bounded stand-in: selective elements pass the values they do not select through unchanged.

For every selective element (ToCSV, Write, RenderLaTeX, LaTeXToPDF, PDFToPNG, HistToGraph, MapBins, IterateBins, RunIf,
MapGroup(map_scalars=False)) the REAL `run` is executed on flows obtained by interleaving a list A of values the element
selects with a list B of values it does not (bare numbers, strings, tuples, (data, context) pairs with unrelated or
disabling context, foreign objects, element-specific look-alikes).  The reference is the property text itself, i.e. the
metamorphic relation  run(interleave(A, B)) == interleave(run(A), B):

* every b of B comes out as the very same object (`is`), exactly once, in unchanged relative order, and is not modified;
* what comes out for A (values, contexts, files in the working directory, launched converter commands) equals what a
  fresh element in an equal fresh directory produces for A alone;
* a flow of unselected values only leaves the directory bit-for-bit and mtime-for-mtime untouched and launches nothing.

Which values an element selects is taken from its documentation (docstrings of `run`), never computed with the element.
The converters are stubs: `pdflatex`, `pdftoppm` and the `create_command` target are recording shell scripts in a
temporary directory that is the ONLY entry of PATH while the harness runs (the real programs cannot be reached).
LaTeXToPDF yields finished pdfs whenever its process pool reports them (documented), so for it the outputs for A are
compared as a multiset and the position of pdfs relative to unselected values is not constrained.

RunIf, MapGroup and MapBins send their selected values through an INNER SEQUENCE.  Besides element-wise inner sequences
they are configured with inner sequences whose output depends on their whole flow (`Chunk`: number within the `run`
call, count over the life of the element, number of the call, two results per value and a closing result per call;
`RunningTotal`; lena.math.Sum, lena.flow.Slice, lena.flow.Count), so that any regrouping of the selected values into
other `run` calls (adjacent selected values in one call, all at the end, a re-created or additionally advanced inner
sequence) makes the results for A differ between the interleavings in which selected values are adjacent (A alone, SSU,
USS, ...) and those in which unselected values separate them (SUS, ...).
Failure ids are "<Element>/<clause of the property>/<class of the unselected value>", classes: bare, pair (unrelated
context), disabled (output.write / output.to_csv / histogram.to_graph False), lookalike (near miss of the element's own
selection), already-written (Write: data == the path it would write), written-elsewhere (Write: data ==
context.output.filepath produced by a Write with another output directory; a scope of its own)."""
import atexit
import copy
import io
import itertools
import os
import shutil
import stat
import sys
import tempfile

sys.path.insert(0, os.path.dirname(os.path.dirname(os.path.abspath(__file__))))
from bounded.common import Run, watchdog, Timeout

import lena.core
import lena.flow
import lena.math
import lena.structures
import lena.output
from lena.flow import get_data, get_context
from lena.structures import histogram, graph

# ------------------------------------------------------------------------------------------------ environment

ROOT = None
STUB = None
_counter = itertools.count()
OLD = 1000000000  # fixed mtime (s) of prepared files; anything written later is visibly newer

_STUBS = {
    # never the real converters: they record their command line and fabricate the output file
    "pdflatex": '#!/bin/sh\nfor a in "$@"; do last="$a"; done\necho "pdflatex $*" >> "$C10_STUB_LOG"\n'
                'case "$last" in *fail*) exit 1;; esac\n/bin/cat "$last" > "${last%.tex}.pdf"\nexit 0\n',
    "texstub": '#!/bin/sh\necho "texstub $*" >> "$C10_STUB_LOG"\ncase "$1" in *fail*) exit 1;; esac\n'
               '/bin/cat "$1" > "$2"\nexit 0\n',
    "pdftoppm": '#!/bin/sh\necho "pdftoppm $*" >> "$C10_STUB_LOG"\nfmt="${3#-}"\necho "image of $1" > "$2.$fmt"\nexit 0\n',
}


def cleanup():
    global ROOT
    _WORK.clear()
    if ROOT and os.path.isdir(ROOT):
        try:
            os.chdir("/")
        except OSError:
            pass
        shutil.rmtree(ROOT, ignore_errors=True)
    ROOT = None


def ensure_root():
    global ROOT, STUB
    if ROOT:
        return
    ROOT = tempfile.mkdtemp(prefix="C10-", dir="/var/tmp")
    atexit.register(cleanup)
    STUB = os.path.join(ROOT, "stubbin")
    os.mkdir(STUB)
    for name, text in _STUBS.items():
        p = os.path.join(STUB, name)
        with open(p, "w") as f:
            f.write(text)
        os.chmod(p, os.stat(p).st_mode | stat.S_IXUSR)
    # the stub directory is the whole PATH: no real pdflatex / pdftoppm can be launched by any code path
    os.environ["PATH"] = STUB


def put(path, text, mtime=OLD):
    d = os.path.dirname(path)
    if d and not os.path.isdir(d):
        os.makedirs(d)
    with open(path, "w") as f:
        f.write(text)
    os.utime(path, (mtime, mtime))


def age_dirs():
    for root, dirs, files in os.walk(".", topdown=False):
        os.utime(root, (OLD, OLD))


def snapshot():
    snap = {}
    for root, dirs, files in os.walk("."):
        for d in dirs:
            p = os.path.join(root, d)
            snap[p] = ["d", None, os.stat(p).st_mtime_ns]
        for fn in files:
            p = os.path.join(root, fn)
            with open(p, "rb") as f:
                snap[p] = ["f", f.read().decode("latin1"), os.stat(p).st_mtime_ns]
    snap["."] = ["d", None, os.stat(".").st_mtime_ns]
    return snap


def content_only(snap):
    return dict((k, v[:2]) for k, v in snap.items())


def fs_diff(a, b):
    keys = sorted(set(a) | set(b))
    return [k for k in keys if a.get(k) != b.get(k)][:4]


# ------------------------------------------------------------------------------------------------ canonical form

def canon(x, depth=0):
    """structural, order-insensitive for dicts, type-sensitive (1, 1.0, True differ), json-friendly"""
    if depth > 14:
        return "<deep>"
    if x is None or isinstance(x, (bool, int, float, str, bytes)):
        return "%s:%r" % (type(x).__name__, x)
    if isinstance(x, dict):
        return {"dict": sorted(([canon(k, depth + 1), canon(v, depth + 1)] for k, v in x.items()), key=repr)}
    if isinstance(x, (list, tuple)):
        return {type(x).__name__: [canon(i, depth + 1) for i in x]}
    if callable(x) and not hasattr(x, "tag"):
        return "callable:%s" % getattr(x, "__qualname__", type(x).__name__)
    if hasattr(x, "__dict__"):
        return {"obj:" + type(x).__name__: canon(vars(x), depth + 1)}
    return "repr:%r" % (x,)


# ------------------------------------------------------------------------------------------------ helper classes

class Foreign(object):
    """an object no element knows: no rows, no write, not iterable"""

    def __init__(self, tag):
        self.tag = tag

    def __repr__(self):
        return "Foreign(%r)" % (self.tag,)


class Writable(object):
    """selected by Write (has a method write) unless the context forbids writing"""

    def __init__(self, tag):
        self.tag = tag
        self.written = []

    def write(self, filepath):
        self.written.append(filepath)
        d = os.path.dirname(filepath)
        if d and not os.path.isdir(d):
            os.makedirs(d)
        with open(filepath, "w") as f:
            f.write("writable %s" % (self.tag,))


class RowsObj(object):
    """selected by ToCSV (has a method rows) unless output.to_csv is False"""

    def __init__(self, tag):
        self.tag = tag
        self.calls = 0

    def rows(self):
        self.calls += 1
        return [(self.tag, 1), (self.tag, 2.5)]


class Twice(object):
    """stateful Run element: two results per value, numbered by the count of values it has ever seen"""

    def __init__(self):
        self.n = 0

    def run(self, flow):
        for v in flow:
            self.n += 1
            yield (v, self.n, "a")
            yield (v, self.n, "b")


class CountingCall(object):
    """stateful Call element: writes the number of calls so far into the context"""

    def __init__(self):
        self.n = 0

    def __call__(self, v):
        self.n += 1
        c = get_context(v)
        c["n"] = self.n
        return (get_data(v) + 1, c)


class TwoResults(object):
    def __init__(self):
        self.n = 0

    def run(self, flow):
        for v in flow:
            self.n += 1
            yield v
            yield (get_data(v) * 10, {"a": 1, "second": self.n})


class Chunk(object):
    """Run element whose results depend on its WHOLE flow and on its history: every value is numbered within the current
    `run` call (i) and over the life of the element object (n), the calls are numbered (call); it yields two results per
    value and one closing result per `run` call telling how many values that call received.  Any regrouping of the
    selected values into other `run` calls (several at once, all at the end, a re-created element) changes its output.
    pairs=False: results are bare tuples; pairs=True: (data, context) pairs (what MapGroup and MapBins expect)."""

    def __init__(self, pairs=False):
        self.pairs = pairs
        self.n = 0
        self.calls = 0

    def run(self, flow):
        self.calls += 1
        call, i = self.calls, 0
        for v in flow:
            self.n += 1
            info = {"i": i, "n": self.n, "call": call}
            if self.pairs:
                c = copy.deepcopy(get_context(v))
                c["chunk"] = info
                yield (get_data(v), c)
                yield ((get_data(v), "again"), {"chunk": dict(info), "again": True})
            else:
                yield ("item", v, i, self.n, call)
                yield ("again", v, i)
            i += 1
        if self.pairs:
            yield (("end", i), {"chunk": {"received": i, "call": call}})
        else:
            yield ("end", i, call)


class RunningTotal(object):
    """Run element without any state of its own: the total of the data seen so far IN THIS `run` call"""

    def run(self, flow):
        tot = 0
        for v in flow:
            tot += get_data(v)
            yield (tot, get_context(v))


def hist_num(k):
    return histogram([0, 1, 2], [k, k + 1])


def hist_tuples(k):
    return histogram([0, 1, 2], [(k, 1), (k, 2)])


def hist_hists(k):
    return histogram([0, 1, 2], [histogram([0, 1], [k]), histogram([0, 1], [k + 1])])


# ------------------------------------------------------------------------------------------------ value kinds
# unselected kinds: name -> (class used in the failure id, constructor(tag)).  Every constructor returns fresh objects.

GENERIC = [
    ("int", "bare", lambda k: 1000 + k),
    ("float", "bare", lambda k: k + 0.5),
    ("zero", "bare", lambda k: 0),
    ("false", "bare", lambda k: False),
    ("none", "bare", lambda k: None),
    ("str", "bare", lambda k: "plain string %d" % k),
    ("empty_str", "bare", lambda k: ""),
    ("bytes", "bare", lambda k: ("bytes %d" % k).encode()),
    ("tuple", "bare", lambda k: (k, k + 1)),
    ("empty_tuple", "bare", lambda k: ()),
    ("tuple3", "bare", lambda k: (k, {"a": 1}, 3)),
    ("list", "bare", lambda k: [k, k + 1]),
    ("dict", "bare", lambda k: {"a": k}),
    ("foreign", "bare", lambda k: Foreign(k)),
    # a value is a (data, context) pair only if it is a TUPLE of two items with a dict second: lists of the same shape are data
    ("list_pair_text", "bare", lambda k: ["list text %d" % k, {"output": {"filename": "leak%d" % k}}]),
    ("list_pair_hist", "bare", lambda k: [hist_num(k), {"tag": k, "output": {"filetype": "csv"}}]),
    ("list_pair_tex", "bare", lambda k: ["out/leak%d.tex" % k, {"output": {"filetype": "tex", "filepath": "out/leak%d.tex" % k}}]),
    ("list_pair_pdf", "bare", lambda k: ["out/leak%d.pdf" % k, {"output": {"filetype": "pdf"}}]),
    ("list_pair_group", "bare", lambda k: [[k, k + 1], {"group": [{"a": 1}, {"a": 2}]}]),
    ("pair_empty_ctx", "pair", lambda k: (k, {})),
    ("pair_unrelated", "pair", lambda k: (k + 0.25, {"unrelated": {"tag": k}, "variable": {"name": "v%d" % k}})),
    ("pair_foreign", "pair", lambda k: (Foreign(k), {"y": k})),
    ("pair_nested", "pair", lambda k: ((k, {"inner": 1}), {"outer": k})),
    ("pair_none", "pair", lambda k: (None, {"tag": k})),
    ("pair_scalar_output", "pair", lambda k: (k + 0.75, {"output": k, "histogram": 3})),
    ("pair_tempting", "pair", lambda k: (Foreign(k), {"output": {"filename": "tempting%d" % k, "dirname": "tdir", "changed": True,
                                                                 "template": "t2.tex", "fileext": "zzz"},
                                                      "value": {"v": k}, "bins": {"b": k}, "bin": {"edges": k}})),
]


def generic(exclude=()):
    return [(n, c, f) for (n, c, f) in GENERIC if n not in exclude]


class Config(object):
    def __init__(self, name, element, make, sel, unsel, prep=None, ordered=True, wd=5.0, spawn=False):
        self.name = name
        self.element = element
        self.make = make
        self.sel = sel                      # list of (name, ctor(tag))
        self.unsel = unsel                  # list of (name, class, ctor(tag))
        self.prep = prep or (lambda: None)
        self.ordered = ordered
        self.wd = wd
        self.spawn = spawn
        self.seld = dict(sel)
        self.unseld = dict((n, (c, f)) for n, c, f in unsel)
        self.note = ""


def configs():
    from lena.output import ToCSV, Write, RenderLaTeX, LaTeXToPDF, PDFToPNG
    from lena.structures import HistToGraph, MapBins, IterateBins
    from lena.flow import RunIf, MapGroup
    cs = []

    # ---- ToCSV: selects histograms (dim 1, 2) and objects with rows(), unless output.to_csv is False
    tocsv_sel = [
        ("hist1d", lambda k: hist_num(k)),
        ("hist1d_ctx", lambda k: (hist_num(k), {"tag": k, "output": {"filename": "h%d" % k}})),
        ("hist2d_nodup", lambda k: (histogram([[0, 1, 2], [0, 1]], [[k], [k + 1]]), {"output": {"duplicate_last_bin": False}})),
        ("graph_ctx", lambda k: (graph([[0, 1], [k, k + 1]]), {"tag": k})),
        ("rows_obj", lambda k: RowsObj(k)),
    ]
    tocsv_unsel = generic() + [
        ("hist_to_csv_false", "disabled", lambda k: (hist_num(k), {"output": {"to_csv": False}, "tag": k})),
        ("graph_to_csv_false", "disabled", lambda k: (graph([[0, 1], [k, k + 1]]), {"output": {"to_csv": False}})),
        ("rows_to_csv_false", "disabled", lambda k: (RowsObj(k), {"output": {"to_csv": False, "filetype": "txt"}})),
        ("str_to_csv_false", "disabled", lambda k: ("text %d" % k, {"output": {"to_csv": False, "write": False}})),
        ("hist3d", "lookalike", lambda k: histogram([[0, 1], [0, 1], [0, 1]], [[[k]]])),
        ("csv_text", "lookalike", lambda k: ("0,%d" % k, {"output": {"filetype": "csv"}})),
        ("foreign_to_csv_true", "lookalike", lambda k: (Foreign(k), {"output": {"to_csv": True}})),
        # output options in the context of an unselected value belong to that value only
        ("hist_to_csv_false_nodup", "disabled", lambda k: (hist_num(k), {"output": {"to_csv": False, "duplicate_last_bin": False}})),
        ("hist_to_csv_false_dup", "disabled", lambda k: (hist_num(k), {"output": {"to_csv": False, "duplicate_last_bin": True}})),
        ("foreign_nodup", "lookalike", lambda k: (Foreign(k), {"output": {"duplicate_last_bin": False}})),
        ("foreign_dup", "lookalike", lambda k: (Foreign(k), {"output": {"duplicate_last_bin": True}})),
        # a histogram ToCSV can not convert (3 dimensions: passed on with a warning) that carries output options
        ("hist3d_nodup", "lookalike", lambda k: (histogram([[0, 1], [0, 1], [0, 1]], [[[k]]]), {"output": {"duplicate_last_bin": False}})),
        ("hist3d_dup", "lookalike", lambda k: (histogram([[0, 1], [0, 1], [0, 1]], [[[k]]]), {"output": {"duplicate_last_bin": True}})),
    ]
    cs.append(Config("ToCSV()", "ToCSV", lambda: ToCSV(), tocsv_sel, tocsv_unsel))
    cs.append(Config("ToCSV(sep,header,row_end,nodup)", "ToCSV",
                     lambda: ToCSV(separator=" ", header="h", row_end="\\\\", last_row_end="!", duplicate_last_bin=False),
                     tocsv_sel, tocsv_unsel))

    # ---- Write: selects strings and objects with write(), unless output.write is False; a value whose data equals
    #      the path it would be written to (already written) is skipped
    def write_prep():
        put("out/pre.txt", "pre text")
        put("out/sub/g.csv", "csv 0")
        age_dirs()
    write_sel = [
        ("bare_str", lambda k: "bare text %d" % k),
        ("named", lambda k: ("text %d" % k, {"output": {"filename": "f%d" % k}, "tag": k})),
        ("same_file_csv", lambda k: ("csv %d" % k, {"output": {"filename": "g", "filetype": "csv", "dirname": "sub"}})),
        ("existing_same", lambda k: ("pre text", {"output": {"filename": "pre"}})),
        ("existing_other_changed", lambda k: ("new text %d" % k, {"output": {"filename": "pre", "changed": True}})),
        ("writable", lambda k: (Writable(k), {"output": {"filename": "w%d" % k, "fileext": "bin"}})),
        ("empty_text", lambda k: ("", {"output": {"filename": "empty%d" % k}})),
    ]
    write_unsel = generic(exclude=("str", "empty_str")) + [
        ("str_write_false", "disabled", lambda k: ("forbidden text %d" % k, {"output": {"write": False, "filename": "forbidden%d" % k}})),
        ("bare_name_write_false", "disabled", lambda k: ("forbidden default %d" % k, {"output": {"write": False}})),
        ("existing_write_false", "disabled", lambda k: ("changed text %d" % k, {"output": {"write": False, "filename": "pre"}})),
        ("writable_write_false", "disabled", lambda k: (Writable(k), {"output": {"write": False, "filename": "w%d" % k}})),
        ("already_written", "already-written", lambda k: ("out/pre.txt", {"output": {"filename": "pre", "fileext": "txt",
                                                                                      "filepath": "out/pre.txt", "changed": False}})),
        ("already_written_absent", "already-written", lambda k: ("out/sub/n%d.csv" % k, {"output": {
            "filename": "n%d" % k, "fileext": "csv", "filetype": "csv", "dirname": "sub", "filepath": "out/sub/n%d.csv" % k}})),
        # its directory does not exist (any more): skipping it must not create one
        ("already_written_new_dir", "already-written", lambda k: ("out/nd%d/x.txt" % k, {"output": {
            "filename": "x", "fileext": "txt", "dirname": "nd%d" % k, "filepath": "out/nd%d/x.txt" % k}})),
        ("write_false_new_dir", "disabled", lambda k: ("text %d" % k, {"output": {
            "write": False, "filename": "y", "dirname": os.path.join("nw%d" % k, "deep")}})),
    ]
    cs.append(Config("Write('out')", "Write", lambda: Write("out", verbose=False), write_sel, write_unsel, write_prep))
    cs.append(Config("Write('out',overwrite)", "Write", lambda: Write("out", verbose=True, overwrite=True),
                     write_sel, write_unsel, write_prep))
    cs.append(Config("Write('out',existing_unchanged)", "Write", lambda: Write("out", verbose=True, existing_unchanged=True),
                     write_sel, write_unsel, write_prep))

    # ---- RenderLaTeX: selects values with context.output.filetype == "csv" (or by select_data)
    def render_prep():
        put("templates/t.tex", "T1 \\VAR{ output.filepath } tag=\\VAR{ tag }\n")
        put("templates/t2.tex", "T2 \\VAR{ output.filename }\\BLOCK{ if render } r=\\VAR{ render }\\BLOCK{ endif }\n")
        age_dirs()
    render_sel = [
        ("csv", lambda k: ("0,%d" % k, {"output": {"filetype": "csv", "filepath": "out/c%d.csv" % k}, "tag": k})),
        ("csv_template", lambda k: ("out/d%d.csv" % k, {"output": {"filetype": "csv", "filename": "d%d" % k, "template": "t2.tex"}})),
        ("csv_foreign", lambda k: (Foreign(k), {"output": {"filetype": "csv"}, "tag": "foreign %d" % k})),
    ]
    render_unsel = generic() + [
        ("tex", "lookalike", lambda k: ("out/c%d.tex" % k, {"output": {"filetype": "tex", "template": "t2.tex"}})),
        ("txt_template", "lookalike", lambda k: ("text", {"output": {"filetype": "txt", "template": "t.tex"}, "tag": k})),
        ("fileext_csv", "lookalike", lambda k: ("0,1", {"output": {"fileext": "csv"}})),
        ("hist", "lookalike", lambda k: (hist_num(k), {"output": {"filetype": "pdf"}})),
        ("csv_elsewhere", "lookalike", lambda k: ("0,2", {"filetype": "csv", "input": {"output": {"filetype": "csv"}}})),
    ]
    cs.append(Config("RenderLaTeX('t.tex')", "RenderLaTeX", lambda: RenderLaTeX("t.tex", template_dir="templates"),
                     render_sel, render_unsel, render_prep))
    cs.append(Config("RenderLaTeX('t.tex',verbose=2)", "RenderLaTeX",
                     lambda: RenderLaTeX("t.tex", template_dir="templates", verbose=2), render_sel, render_unsel, render_prep))
    cs.append(Config("RenderLaTeX(select_data,from_data)", "RenderLaTeX",
                     lambda: RenderLaTeX("t2.tex", template_dir="templates", from_data=True,
                                         select_data=lambda v: isinstance(get_data(v), dict) and "render" in get_data(v)),
                     [("render_dict", lambda k: ({"render": k, "output": {"filename": "r%d" % k}}, {"tag": k})),
                      ("render_dict_bare", lambda k: {"render": -k, "output": {"filename": "bare"}})],
                     generic() + [("csv_not_selected_by_select_data", "lookalike",
                                   lambda k: ("0,%d" % k, {"output": {"filetype": "csv"}, "render": k}))],
                     render_prep))

    # ---- LaTeXToPDF: selects values with context.output.filetype == "tex"
    def tex_prep():
        for k in range(3):
            put("tex/doc%d.tex" % k, "doc %d" % k)
            put("tex/fail%d.tex" % k, "fail %d" % k)
            put("tex/old%d.tex" % k, "old %d" % k)
            put("tex/old%d.pdf" % k, "stale pdf %d" % k, OLD + 50)
            put("tex/newer%d.tex" % k, "newer %d" % k, OLD + 100)
            put("tex/newer%d.pdf" % k, "outdated pdf %d" % k, OLD)
        age_dirs()
    tex_sel = [
        ("tex_new", lambda k: ("tex/doc%d.tex" % k, {"output": {"filetype": "tex", "filepath": "tex/doc%d.tex" % k}, "tag": k})),
        ("tex_unchanged", lambda k: ("tex/old%d.tex" % k, {"output": {"filetype": "tex", "changed": False}})),
        ("tex_changed", lambda k: ("tex/old%d.tex" % k, {"output": {"filetype": "tex", "changed": True}})),
        ("tex_mtime_newer", lambda k: ("tex/newer%d.tex" % k, {"output": {"filetype": "tex"}})),
        ("tex_mtime_older", lambda k: ("tex/old%d.tex" % k, {"output": {"filetype": "tex"}})),
        ("tex_fail", lambda k: ("tex/fail%d.tex" % k, {"output": {"filetype": "tex", "changed": True}})),
    ]
    tex_unsel = generic() + [
        ("bare_tex_name", "lookalike", lambda k: "tex/doc%d.tex" % (k % 3)),
        ("tex_typed_csv", "lookalike", lambda k: ("tex/doc%d.tex" % (k % 3), {"output": {"filetype": "csv", "changed": True}})),
        ("pdf", "lookalike", lambda k: ("tex/old%d.pdf" % (k % 3), {"output": {"filetype": "pdf", "changed": True}})),
        ("fileext_tex", "lookalike", lambda k: ("tex/doc%d.tex" % (k % 3), {"output": {"fileext": "tex"}})),
        ("tex_elsewhere", "lookalike", lambda k: ("tex/doc%d.tex" % (k % 3), {"filetype": "tex", "input": {"output": {"filetype": "tex"}}})),
    ]
    cs.append(Config("LaTeXToPDF(create_command=stub)", "LaTeXToPDF",
                     lambda: LaTeXToPDF(verbose=0, create_command=lambda tex, out, outdir, ctx: [os.path.join(STUB, "texstub"), tex, out]),
                     tex_sel, tex_unsel, tex_prep, ordered=False, wd=20.0, spawn=True))
    cs.append(Config("LaTeXToPDF(overwrite,PATH stub)", "LaTeXToPDF", lambda: LaTeXToPDF(overwrite=True, verbose=1),
                     tex_sel, tex_unsel, tex_prep, ordered=False, wd=20.0, spawn=True))

    # ---- PDFToPNG: selects values with context.output.filetype == "pdf"
    def pdf_prep():
        for k in range(3):
            put("fig/fig%d.pdf" % k, "pdf %d" % k)
            put("fig/done%d.pdf" % k, "pdf done %d" % k)
            put("fig/done%d.png" % k, "png done %d" % k)
            put("fig/done%d.jpeg" % k, "jpeg done %d" % k)
        age_dirs()
    pdf_sel = [
        ("pdf_new", lambda k: ("fig/fig%d.pdf" % k, {"output": {"filetype": "pdf"}, "tag": k})),
        ("pdf_unchanged", lambda k: ("fig/done%d.pdf" % k, {"output": {"filetype": "pdf", "changed": False}})),
        ("pdf_changed", lambda k: ("fig/done%d.pdf" % k, {"output": {"filetype": "pdf", "changed": True}})),
    ]
    pdf_unsel = generic() + [
        ("bare_pdf_name", "lookalike", lambda k: "fig/fig%d.pdf" % (k % 3)),
        ("pdf_typed_tex", "lookalike", lambda k: ("fig/fig%d.pdf" % (k % 3), {"output": {"filetype": "tex", "changed": True}})),
        ("png", "lookalike", lambda k: ("fig/done%d.png" % (k % 3), {"output": {"filetype": "png", "changed": True}})),
        ("fileext_pdf", "lookalike", lambda k: ("fig/fig%d.pdf" % (k % 3), {"output": {"fileext": "pdf"}})),
        ("pdf_elsewhere", "lookalike", lambda k: ("fig/fig%d.pdf" % (k % 3), {"filetype": "pdf", "input": {"output": {"filetype": "pdf"}}})),
    ]
    cs.append(Config("PDFToPNG()", "PDFToPNG", lambda: PDFToPNG(verbose=False), pdf_sel, pdf_unsel, pdf_prep, wd=20.0, spawn=True))
    cs.append(Config("PDFToPNG(jpeg,overwrite)", "PDFToPNG", lambda: PDFToPNG(format="jpeg", overwrite=True, verbose=True),
                     pdf_sel, pdf_unsel, pdf_prep, wd=20.0, spawn=True))

    # ---- HistToGraph: selects histograms unless histogram.to_graph is False
    h2g_sel = [
        ("hist", lambda k: hist_num(k)),
        ("hist_ctx", lambda k: (hist_num(k), {"tag": k, "histogram": {"to_graph": True}})),
        ("hist_bin_ctx", lambda k: (histogram([0, 1, 2], [(k, {"bc": k}), (k + 1, {"bc": k})]), {"tag": k})),
    ]
    h2g_unsel = generic() + [
        ("hist_to_graph_false", "disabled", lambda k: (hist_num(k), {"histogram": {"to_graph": False}, "tag": k})),
        ("hist_bin_ctx_false", "disabled", lambda k: (histogram([0, 1, 2], [(k, {"bc": k}), (k + 1, {"bc": k})]),
                                                       {"histogram": {"to_graph": False}})),
        ("graph", "lookalike", lambda k: (graph([[0, 1], [k, k + 1]]), {"tag": k})),
        ("bare_graph", "lookalike", lambda k: graph([[0, 1], [k, k + 1]])),
    ]
    cs.append(Config("HistToGraph()", "HistToGraph", lambda: HistToGraph(), h2g_sel, h2g_unsel))
    cs.append(Config("HistToGraph(middle,scale)", "HistToGraph", lambda: HistToGraph(get_coordinate="middle", scale=True),
                     h2g_sel[:2], h2g_unsel))

    # ---- MapBins: selects histograms whose (example) bin passes select_bins
    cs.append(Config("MapBins(sum,select_bins=tuple)", "MapBins",
                     lambda: lena.structures.MapBins(lambda t: t[0] + t[1], select_bins=tuple),
                     [("hist_tuples", lambda k: hist_tuples(k)),
                      ("hist_tuples_ctx", lambda k: (hist_tuples(k), {"tag": k})),
                      ("hist2d_tuples", lambda k: (histogram([[0, 1, 2], [0, 1]], [[(k, 1)], [(k, 2)]]), {"tag": k}))],
                     generic() + [
                         ("hist_num", "lookalike", lambda k: hist_num(k)),
                         ("hist_num_ctx", "lookalike", lambda k: (hist_num(k), {"tag": k, "value": {"v": 1}})),
                         ("hist_hists", "lookalike", lambda k: hist_hists(k)),
                         ("graph", "lookalike", lambda k: (graph([[0, 1], [k, k + 1]]), {"tag": k})),
                         # a 1-d histogram whose bin CONTENT is a list (of tuples): its bins are lists, not tuples
                         ("hist_lists_of_tuples", "lookalike", lambda k: (histogram([0, 1, 2], [[(k, 1), (k, 2)], [(k, 3)]]), {"tag": k})),
                     ]))
    cs.append(Config("MapBins(double)", "MapBins", lambda: lena.structures.MapBins(lambda x: x * 2),
                     [("hist_num", lambda k: hist_num(k)), ("hist_num_ctx", lambda k: (hist_num(k), {"tag": k}))],
                     generic() + [("graph", "lookalike", lambda k: graph([[0, 1], [k, k + 1]]))]))
    cs.append(Config("MapBins(stateful,keep_ctx)", "MapBins",
                     lambda: lena.structures.MapBins(CountingCall(), select_bins=int, drop_bins_context=False),
                     [("hist_num", lambda k: hist_num(k)), ("hist_num_ctx", lambda k: (hist_num(k), {"tag": k}))],
                     generic() + [("hist_tuples", "lookalike", lambda k: hist_tuples(k)),
                                  ("hist_float_ctx", "lookalike", lambda k: (histogram([0, 1, 2], [k + 0.5, 1.5]), {"tag": k})),
                                  ("hist_lists_of_ints", "lookalike", lambda k: (histogram([0, 1, 2], [[k, 2], [3, 4]]), {"tag": k}))]))

    # ---- IterateBins: selects histograms whose bins pass select_bins (by default: contain histograms)
    cs.append(Config("IterateBins()", "IterateBins", lambda: lena.structures.IterateBins(),
                     [("hist_hists", lambda k: hist_hists(k)),
                      ("hist_hists_var", lambda k: (hist_hists(k), {"variable": {"name": "x"}, "tag": k})),
                      ("hist_hists_bin_ctx", lambda k: (histogram([0, 1, 2], [(histogram([0, 1], [k]), {"binctx": k}),
                                                                               (histogram([0, 1], [k + 1]), {"binctx": k})]), {"tag": k}))],
                     generic() + [
                         ("hist_num", "lookalike", lambda k: hist_num(k)),
                         ("hist_num_ctx", "lookalike", lambda k: (hist_num(k), {"variable": {"name": "x"}, "tag": k})),
                         ("hist_tuples", "lookalike", lambda k: (hist_tuples(k), {"tag": k})),
                         ("graph", "lookalike", lambda k: graph([[0, 1], [k, k + 1]])),
                         # bins that are LISTS of histograms are not histograms
                         ("hist_lists_of_hists", "lookalike", lambda k: (histogram([0, 1, 2], [[histogram([0, 1], [k])],
                                                                                              [histogram([0, 1], [k + 1])]]), {"tag": k})),
                     ]))
    cs.append(Config("IterateBins(select_bins=tuple)", "IterateBins", lambda: lena.structures.IterateBins(select_bins=tuple),
                     [("hist_tuples", lambda k: hist_tuples(k)), ("hist_tuples_ctx", lambda k: (hist_tuples(k), {"tag": k}))],
                     generic() + [
                         ("hist_num", "lookalike", lambda k: hist_num(k)),
                         ("hist_hists_ctx", "lookalike", lambda k: (hist_hists(k), {"tag": k})),
                         ("hist_lists_of_tuples", "lookalike", lambda k: histogram([0, 1, 2], [[(k, 1)], [(k, 2), (k, 3)]])),
                     ]))

    # ---- RunIf: selects by its Selector
    cs.append(Config("RunIf('sel',double)", "RunIf",
                     lambda: RunIf("sel", lambda v: (get_data(v) * 2, get_context(v))),
                     [("sel", lambda k: (k + 1, {"sel": 1, "tag": k})), ("sel_deep", lambda k: (k + 1.5, {"sel": {"deep": k}}))],
                     generic() + [("near_key", "lookalike", lambda k: (k, {"selx": 1, "unsel": {"sel": 1}})),
                                  ("bare_sel_string", "lookalike", lambda k: "sel")]))
    cs.append(Config("RunIf(S-tuples,Twice)", "RunIf",
                     lambda: RunIf(lambda v: isinstance(v, tuple) and len(v) == 3 and v[0] == "S", Twice()),
                     [("s_tuple", lambda k: ("S", k, 0))],
                     generic() + [("t_tuple", "lookalike", lambda k: ("T", k, 0)), ("s_pair", "lookalike", lambda k: ("S", k))]))
    cs.append(Config("RunIf(int,drop)", "RunIf",
                     lambda: RunIf(int, lena.flow.Filter(lambda v: get_data(v) % 2 == 0), CountingCall()),
                     [("even", lambda k: (2 * k, {"tag": k})), ("odd_dropped", lambda k: 2 * k + 1), ("even_bare", lambda k: 2 * k + 100)],
                     generic(exclude=("int", "zero", "false", "pair_empty_ctx"))))

    # ---- MapGroup(map_scalars=False): selects groups (context.group present and iterable data)
    def group(k):
        return ([k, k + 1], {"group": [{"a": 1, "c": k}, {"a": 1, "d": 2}], "common": k, "a": 1})
    mg_unsel = generic() + [
        ("scalar_with_group", "lookalike", lambda k: (k, {"group": [{"a": 1}]})),
        ("foreign_with_group", "lookalike", lambda k: (Foreign(k), {"group": [], "a": 1})),
        ("list_without_group", "lookalike", lambda k: ([k, k + 1], {"groups": [{"a": 1}, {"a": 1}], "output": {"group": 1}})),
    ]
    cs.append(Config("MapGroup(stateful,map_scalars=False)", "MapGroup",
                     lambda: MapGroup(CountingCall(), map_scalars=False),
                     [("group", group), ("group_changed", lambda k: ([k], {"group": [{"output": {"changed": False}, "k": k}]}))], mg_unsel))
    cs.append(Config("MapGroup(two results,map_scalars=False)", "MapGroup",
                     lambda: MapGroup(TwoResults(), map_scalars=False), [("group", group)], mg_unsel))

    # ---- the elements whose selected values go through an INNER SEQUENCE (RunIf, MapGroup, MapBins), with inner
    #      sequences that depend on their whole flow (numbering / totals / slices within one `run` call), keep state
    #      over calls and yield several results: the results for the selected values are the same whether the selected
    #      values are adjacent in the flow or separated by unselected ones (RunIf.run: "feeds values to the sequence one
    #      by one"), so every regrouping of the selected values into other `run` calls of the inner sequence is visible
    int_sel = [("int", lambda k: k + 1), ("int_ctx", lambda k: (k + 1, {"tag": k})), ("int_big", lambda k: 100 * (k + 1))]
    int_unsel = generic(exclude=("int", "zero", "false", "pair_empty_ctx")) + [
        ("float_pair", "lookalike", lambda k: (k + 0.5, {"tag": k, "int": 1})),
        ("digits", "lookalike", lambda k: "%d" % k),
        ("int_in_tuple", "lookalike", lambda k: ((k,), {"tag": k}))]
    cs.append(Config("RunIf(int,Chunk)", "RunIf", lambda: RunIf(int, Chunk()), int_sel, int_unsel))
    cs.append(Config("RunIf(int,Sum)", "RunIf", lambda: RunIf(int, lena.math.Sum()), int_sel, int_unsel))
    cs.append(Config("RunIf(int,Slice(1))", "RunIf", lambda: RunIf(int, lena.flow.Slice(1)), int_sel, int_unsel))
    cs.append(Config("RunIf(int,Slice(1,None))", "RunIf", lambda: RunIf(int, lena.flow.Slice(1, None)), int_sel, int_unsel))
    cs.append(Config("RunIf(int,RunningTotal,Chunk)", "RunIf", lambda: RunIf(int, RunningTotal(), Chunk()), int_sel, int_unsel))
    cs.append(Config("RunIf('sel',Sequence(Chunk pairs,Count))", "RunIf",
                     lambda: RunIf("sel", lena.core.Sequence(Chunk(pairs=True), lena.flow.Count())),
                     [("sel", lambda k: (k + 1, {"sel": 1, "tag": k})), ("sel_deep", lambda k: (k + 1.5, {"sel": {"deep": k}}))],
                     generic() + [("near_key", "lookalike", lambda k: (k, {"selx": 1, "unsel": {"sel": 1}})),
                                  ("bare_sel_string", "lookalike", lambda k: "sel")]))

    def group_n(n):
        return lambda k: ([k + i for i in range(n)],
                          {"group": [{"a": 1, "c": k, "item": i} for i in range(n)], "common": k, "a": 1})
    mg_sel = [("group2", group_n(2)), ("group3", group_n(3)), ("group1", group_n(1))]
    cs.append(Config("MapGroup(Chunk pairs,map_scalars=False)", "MapGroup",
                     lambda: MapGroup(Chunk(pairs=True), map_scalars=False), mg_sel, mg_unsel))
    cs.append(Config("MapGroup(RunningTotal,Count,map_scalars=False)", "MapGroup",
                     lambda: MapGroup(RunningTotal(), lena.flow.Count(), map_scalars=False), mg_sel, mg_unsel))

    mb_sel = [("hist_num", lambda k: hist_num(k)), ("hist_num_ctx", lambda k: (hist_num(k), {"tag": k})),
              ("hist2d_num", lambda k: (histogram([[0, 1, 2], [0, 1]], [[k], [k + 5]]), {"tag": k}))]
    mb_unsel = generic() + [("hist_tuples", "lookalike", lambda k: hist_tuples(k)),
                            ("hist_float_ctx", "lookalike", lambda k: (histogram([0, 1, 2], [k + 0.5, 1.5]), {"tag": k})),
                            ("graph", "lookalike", lambda k: (graph([[0, 1], [k, k + 1]]), {"tag": k}))]
    cs.append(Config("MapBins(Chunk pairs,keep_ctx)", "MapBins",
                     lambda: lena.structures.MapBins(Chunk(pairs=True), select_bins=int, drop_bins_context=False),
                     mb_sel, mb_unsel))
    cs.append(Config("MapBins(Sequence(RunningTotal,Chunk pairs))", "MapBins",
                     lambda: lena.structures.MapBins(lena.core.Sequence(RunningTotal(), Chunk(pairs=True)), select_bins=int),
                     mb_sel, mb_unsel))
    return cs


def written_elsewhere_config():
    """Write docstring: "If data is equal to context.output.filepath, this means that the file was already written by
    another Write, and the value is skipped (yielded unchanged)."  Here the other Write had another output directory."""
    from lena.output import Write
    base = [c for c in configs() if c.name == "Write('out')"][0]
    unsel = [
        ("written_elsewhere", "written-elsewhere", lambda k: ("other/f%d.txt" % k, {"output": {
            "filename": "f%d" % k, "fileext": "txt", "filepath": "other/f%d.txt" % k, "changed": False}})),
        ("written_elsewhere_dirname", "written-elsewhere", lambda k: ("other/sub/g.csv", {"output": {
            "filename": "g", "fileext": "csv", "filetype": "csv", "dirname": "sub", "filepath": "other/sub/g.csv"}})),
        ("written_elsewhere_new_dir", "written-elsewhere", lambda k: ("other/ne%d/x.txt" % k, {"output": {
            "filename": "x", "fileext": "txt", "dirname": "ne%d" % k, "filepath": "other/ne%d/x.txt" % k}})),
    ]
    cfg = Config("Write('out') after Write('other')", "Write", lambda: Write("out", verbose=False), base.sel, unsel, base.prep)
    cfg.note = ("; the unselected values are (path, context) pairs with data == context.output.filepath written by another Write "
                "with another output_directory, which Write.run documents as skipped (yielded unchanged)")
    return cfg


_CONFIGS = None


def all_configs():
    global _CONFIGS
    if _CONFIGS is None:
        cs = configs() + [written_elsewhere_config()]
        _CONFIGS = dict((c.name, c) for c in cs)
    return _CONFIGS


# ------------------------------------------------------------------------------------------------ running a flow

class Res(object):
    pass


def _source(values, res):
    for v in values:
        res.pulled.append(len(res.outs))
        yield v


_WORK = {}


def build(cfg, w):
    """(re)create the prepared working directory of a configuration from scratch"""
    os.chdir(ROOT)
    if os.path.isdir(w["dir"]):
        shutil.rmtree(w["dir"], ignore_errors=True)
    if os.path.isdir(w["dir"]):  # could not be removed (a stray child still writes there): leave it to the final cleanup
        n = next(_counter)
        w["dir"], w["log"] = os.path.join(ROOT, "w%d" % n), os.path.join(ROOT, "w%d.log" % n)
    os.mkdir(w["dir"])
    os.chdir(w["dir"])
    cfg.prep()
    os.utime(".", (OLD, OLD))
    w["pristine"] = snapshot()
    w["verify"] = False


def repair(w, cur):
    """undo what a run did to the working directory (checked against the pristine snapshot before the next run)"""
    pristine = w["pristine"]
    for p in sorted((p for p in cur if p not in pristine), key=len, reverse=True):
        if cur[p][0] == "f":
            os.remove(p)
        else:
            os.rmdir(p)
    for p, v in pristine.items():
        if v[0] == "d" and not os.path.isdir(p):
            os.makedirs(p)
    for p, v in pristine.items():
        if v[0] == "f" and cur.get(p) != v:
            with open(p, "wb") as f:
                f.write(v[1].encode("latin1"))
            os.utime(p, ns=(v[2], v[2]))
    for p, v in pristine.items():
        if v[0] == "d":
            os.utime(p, ns=(v[2], v[2]))
    w["verify"] = True


def execute(cfg, values):
    """one run of a fresh element over *values* in the working directory in its prepared state"""
    ensure_root()
    w = _WORK.get(cfg.name)
    if w is None or w["root"] != ROOT or w.get("abandon"):
        n = next(_counter)
        w = {"root": ROOT, "dir": os.path.join(ROOT, "w%d" % n), "log": os.path.join(ROOT, "w%d.log" % n)}
        _WORK[cfg.name] = w
        build(cfg, w)
    os.chdir(w["dir"])
    if w["verify"] and snapshot() != w["pristine"]:
        build(cfg, w)
    w["verify"] = False
    log = w["log"]
    open(log, "w").close()
    os.environ["C10_STUB_LOG"] = log
    res = Res()
    res.outs, res.pulled, res.exc = [], [], None
    res.fs_before = w["pristine"]
    saved_out = sys.stdout
    try:
        sys.stdout = io.StringIO()
        try:
            with watchdog(cfg.wd):
                el = cfg.make()
                for o in el.run(_source(values, res)):
                    res.outs.append((o, canon(o)))
        except Timeout:
            res.exc = "Timeout (no result within %g s)" % cfg.wd
        except Exception as e:
            res.exc = "%s: %s" % (type(e).__name__, str(e)[:100])
        finally:
            sys.stdout = saved_out
        res.fs_after = snapshot()
        with open(log) as f:
            res.log = f.read().splitlines()
        if res.exc and cfg.spawn:
            w["abandon"] = True  # converter stubs of the aborted run may still be writing: never reuse this directory / log
        elif res.fs_after != w["pristine"]:
            try:
                repair(w, res.fs_after)
            except OSError:
                build(cfg, w)
    finally:
        sys.stdout = saved_out
        os.chdir(ROOT)
    return res


_BASE = {}


def baseline(cfg, a_kinds):
    """what a fresh element produces for A alone: per input value the canonical list of its results"""
    key = (cfg.name, tuple(a_kinds))
    if key not in _BASE:
        A = [cfg.seld[k](i) for i, k in enumerate(a_kinds)]
        res = execute(cfg, A)
        cuts = res.pulled + [len(res.outs)]
        res.segs = [[c for (_, c) in res.outs[cuts[i]:cuts[i + 1]]] for i in range(len(A))] if len(res.pulled) == len(A) else None
        res.flat = [c for (_, c) in res.outs]
        res.fs_content = content_only(res.fs_after)
        res.outs = None  # keep canonical forms only
        _BASE[key] = res
    return _BASE[key]


def interleave(pattern, A, B):
    ia, ib, flow = iter(A), iter(B), []
    for ch in pattern:
        flow.append(next(ia) if ch == "S" else next(ib))
    return flow


def analyse(cfg, a_kinds, b_kinds, pattern):
    """-> None (baseline unusable) or a list of (clause, index of the unselected value or None, detail)"""
    base = baseline(cfg, a_kinds)
    if base.exc or base.segs is None:
        return None
    A = [cfg.seld[k](i) for i, k in enumerate(a_kinds)]
    B = [cfg.unseld[k][1](10 + j) for j, k in enumerate(b_kinds)]
    before = [canon(b) for b in B]
    res = execute(cfg, interleave(pattern, A, B))
    if res.exc:
        return [("exception-with-unselected", None, res.exc)]
    viol = []
    # ---- which outputs are the unselected objects themselves
    got, count = [], [0] * len(B)
    for o, c in res.outs:
        js = [j for j in range(len(B)) if B[j] is o]
        if js:
            fresh = [j for j in js if count[j] == 0]
            j = fresh[0] if fresh else js[0]
            count[j] += 1
            got.append(("U", j))
        else:
            got.append(("S", c))
    s_got = [c for (t, c) in got if t == "S"]
    u_got = [j for (t, j) in got if t == "U"]
    u_ok = True
    for j in range(len(B)):
        if count[j] > 1:
            u_ok = False
            viol.append(("unselected-duplicated", j, "yielded %d times" % count[j]))
        elif count[j] == 0:
            u_ok = False
            if before[j] in s_got:
                s_got.remove(before[j])
                viol.append(("unselected-not-identical", j, "an equal but different object was yielded"))
            else:
                viol.append(("unselected-not-passed", j, "the value is missing from the output (dropped or transformed)"))
    if u_ok and u_got != list(range(len(B))):
        u_ok = False
        j = [x for i, x in enumerate(u_got) if x != i][0]
        viol.append(("unselected-reordered", j, "unselected values came out in the order %r" % (u_got,)))
    # ---- the unselected values themselves are not modified
    for j in range(len(B)):
        if canon(B[j]) != before[j]:
            viol.append(("unselected-mutated", j, "value modified in place: now %r" % (B[j],)))
    # ---- results for the selected values do not depend on the interleaved ones
    s_exp = list(base.flat)
    same_sel = (s_got == s_exp) if cfg.ordered else (sorted(map(repr, s_got)) == sorted(map(repr, s_exp)))
    confounded = any(c in ("unselected-not-passed", "unselected-duplicated") for c, _, _ in viol)
    if not same_sel and confounded:
        pass  # a transformed / repeated unselected value is already reported; it cannot be told from a result for A
    elif not same_sel:
        viol.append(("selected-output-depends-on-unselected", None,
                     "results for the selected values alone: %s; interleaved: %s" % (short(s_exp), short(s_got))))
    elif u_ok and cfg.ordered:
        exp, ia, ib = [], 0, 0
        for ch in pattern:
            if ch == "S":
                exp.extend(("S", c) for c in base.segs[ia])
                ia += 1
            else:
                exp.append(("U", ib))
                ib += 1
        if got != exp:
            j = [g[1] for g, e in zip(got, exp) if g != e and g[0] == "U"]
            viol.append(("unselected-position", j[0] if j else None,
                         "output order %s, expected %s" % (shape(got), shape(exp))))
    # ---- file system and launched converters
    if not a_kinds:
        if res.fs_after != res.fs_before:
            viol.append(("fs-touched-by-unselected", None, "changed paths: %r" % fs_diff(res.fs_before, res.fs_after)))
        if res.log:
            viol.append(("process-launched-for-unselected", None, "launched: %r" % res.log[:3]))
    else:
        after = content_only(res.fs_after)
        if after != base.fs_content:
            viol.append(("fs-result-depends-on-unselected", None, "differing paths: %r" % fs_diff(base.fs_content, after)))
        same_log = (res.log == base.log) if cfg.ordered else (sorted(res.log) == sorted(base.log))
        if not same_log:
            viol.append(("launches-depend-on-unselected", None, "launched alone: %r; interleaved: %r" % (base.log[:4], res.log[:4])))
    return viol


def short(x, n=300):
    s = repr(x)
    return s if len(s) <= n else s[:n] + "..."


def shape(seq):
    return "".join("U%d" % x[1] if x[0] == "U" else "s" for x in seq)


def without_other_u(pattern, j):
    out, ib = [], 0
    for ch in pattern:
        if ch == "S":
            out.append(ch)
        else:
            if ib == j:
                out.append(ch)
            ib += 1
    return "".join(out)


def failures_of(cfg, a_kinds, b_kinds, pattern):
    """-> list of (fid, detail): violations attributed to the class of the responsible unselected value"""
    viol = analyse(cfg, a_kinds, b_kinds, pattern)
    if viol is None:
        return None
    out = []
    for clause, j, detail in viol:
        if j is not None:
            classes = [cfg.unseld[b_kinds[j]][0]]
            detail = "%s (%s): %s" % (b_kinds[j], "unselected #%d" % j, detail)
        elif len(b_kinds) == 1:
            classes = [cfg.unseld[b_kinds[0]][0]]
        else:
            classes = []
            for jj in range(len(b_kinds)):
                sub = analyse(cfg, a_kinds, [b_kinds[jj]], without_other_u(pattern, jj)) or []
                if any(c == clause for c, _, _ in sub):
                    cl = cfg.unseld[b_kinds[jj]][0]
                    if cl not in classes:
                        classes.append(cl)
            if not classes:
                classes = ["combination"]
        for cl in classes:
            out.append(("%s/%s/%s" % (cfg.element, clause, cl), detail))
    return out


def replay_case(cfg_name, a_kinds, b_kinds, pattern):
    try:
        cfg = all_configs()[cfg_name]
        return bool(failures_of(cfg, list(a_kinds), list(b_kinds), pattern))
    finally:
        cleanup()


# ------------------------------------------------------------------------------------------------ scopes

def patterns(max_a=3, max_b=3):
    out = []
    for a in range(max_a + 1):
        for b in range(max_b + 1):
            for pos in itertools.combinations(range(a + b), a):
                out.append("".join("S" if i in pos else "U" for i in range(a + b)))
    return out


def window(names, r, n):
    return [names[(r + i) % len(names)] for i in range(n)]


def run_case(R, cfg, a_kinds, b_kinds, pattern):
    fails = failures_of(cfg, a_kinds, b_kinds, pattern)
    R.case(fails is not None and len(b_kinds) > 0,
           {"config": cfg.name, "selected": a_kinds, "unselected": b_kinds, "pattern": pattern})
    if fails is None:
        b = baseline(cfg, a_kinds)
        R.fail("%s/selected-alone-raises" % cfg.element,
               "%s: the selected values %r alone: %s" % (cfg.name, a_kinds, b.exc or "source pulled irregularly"),
               {"config": cfg.name, "selected": a_kinds}, None)
        return
    for fid, detail in fails:
        R.fail(fid, "%s: flow %s with selected %r, unselected %r: %s" % (cfg.name, pattern, a_kinds, b_kinds, detail),
               {"config": cfg.name, "selected": a_kinds, "unselected": b_kinds, "pattern": pattern, "detail": detail},
               {"fn": "replay_case", "args": [cfg.name, a_kinds, b_kinds, pattern]})


def body(R):
    ensure_root()
    try:
        _body(R)
    finally:
        cleanup()


def _body(R):
    cfgs = all_configs()
    pats = patterns()
    rng = R.rng
    for cfg in cfgs.values():
        sn = [n for n, _ in cfg.sel]
        un = [n for n, _, _ in cfg.unsel]
        _BASE.clear()
        # ---- every unselected kind alone, with no and with one selected value before / after it
        R.scope(cfg.name + " [each kind]",
                "each of the %d unselected kinds (%s) alone and directly before/after %s of the %d selected kinds (%s)"
                % (len(un), ", ".join(un), "each" if R.thorough else "one (rotating)", len(sn), ", ".join(sn)) + cfg.note, True)
        for iu, u in enumerate(un):
            run_case(R, cfg, [], [u], "U")
            for s in (sn if R.thorough else [sn[iu % len(sn)]]):
                run_case(R, cfg, [s], [u], "US")
                run_case(R, cfg, [s], [u], "SU")
        # ---- all interleavings
        if R.thorough:
            size = len(sn) * len(un)
            ustep = 3 if (cfg.spawn or size > 120) else 2 if size > 60 else 1
            combos = [(rs, ru) for rs in range(len(sn)) for ru in range(0, len(un), ustep)]
            how = "every cyclic window of the selected kinds x the cyclic windows of the unselected kinds starting at every %s kind" % (
                {1: "", 2: "second", 3: "third"}[ustep])
        else:
            n = 1 if cfg.spawn else 2
            combos = None
            how = "%d (selected window, unselected window) pairs per interleaving, windows advancing with the case number" % n
        R.scope(cfg.name + " [interleavings]",
                "all %d interleavings of <= 3 selected with <= 3 unselected values; value lists are cyclic windows of the kind "
                "lists above (fresh tagged objects); %s" % (len(pats), how), True)
        i = 0
        for p in pats:
            a, b = p.count("S"), p.count("U")
            if a + b == 0:
                continue
            if combos is not None:
                todo = combos
                if a == 0:
                    todo = sorted(set((0, ru) for _, ru in combos))
                if b == 0:
                    todo = sorted(set((rs, 0) for rs, _ in combos))
            else:
                todo = []
                for _ in range(n):
                    i += 1
                    todo.append(((i + i // len(un)) % len(sn), i % len(un)))
            for rs, ru in todo:
                run_case(R, cfg, window(sn, rs, a), window(un, ru, b), p)
        # ---- random kinds (repetitions allowed) and random interleavings
        n_rand = (300 if cfg.spawn else 1200) if R.thorough else (15 if cfg.spawn else 40)
        R.scope(cfg.name + " [random]",
                "%d random flows: 0..3 selected and 1..3 unselected kinds drawn independently (repetitions allowed), random interleaving"
                % n_rand, False)
        for _ in range(n_rand):
            a, b = rng.randint(0, 3), rng.randint(1, 3)
            ak = [rng.choice(sn) for _ in range(a)]
            bk = [rng.choice(un) for _ in range(b)]
            pos = set(rng.sample(range(a + b), a))
            p = "".join("S" if k in pos else "U" for k in range(a + b))
            run_case(R, cfg, ak, bk, p)


if __name__ == "__main__":
    R = Run("C10", {"replay_case": replay_case})
    try:
        rc = R.main(body, "metamorphic relation run(interleave(A,B)) == interleave(run(A),B) on the real elements: a case is one flow "
                          "(element configuration, selected kinds, unselected kinds, interleaving); it is non-trivial when it contains at "
                          "least one unselected value and the selected values alone run without exception; identity by `is`, directory "
                          "snapshots with contents and mtimes, converter launches recorded by stub executables")
    finally:
        cleanup()
    sys.exit(rc)
