"""C08 bounded stand-in: context addressing, formatting and update elements touch exactly the named item.

The REAL get_recursively / str_to_dict / str_to_list / contains / format_context / format_update_with / to_string /
UpdateContext / DeleteContext / SetContext / UpdateContextFromStatic are run against a reference written from the
property text: a key path is a list of components (a dotted string is its components joined by dots, "" is the empty
path; the dictionary notation has one key per level and the last component as innermost value), `lookup` walks
dictionaries only, a mutator yields `set_path` / `del_path` of the old context and nothing else changes.

Reading decisions (what is NOT demanded):
  * contains(d, s): s is split on dots as its docstring says ("a string without dots means a key in d"), so
    contains(d, "") is `"" in d`; the documented str()-comparison with a scalar at the last level is accepted;
  * a path of one component has no dictionary notation ({"a": {}} is an implementation detail, not used);
  * dotted *field names* inside templates never have empty components (that defect of get_recursively is reported
    once, at get_recursively, and would otherwise re-appear under every caller);
  * format_context called directly: a plain ValueError from str.format while formatting is documented in its
    docstring and not reported; the same template given to format_update_with is reported, because the property
    demands LenaTypeError/LenaValueError "never another exception" of format_update_with;
  * to_string: JSON values with string keys, leaves pairwise unequal in Python (1 / 1.0 / True are outside the claim);
  * wrongly *typed* keys (DeleteContext(5), format_update_with(5, ..)) are outside the property's quantifier.

Failure ids of the defects of DESIGN section 6 (one id per defect, whatever scope meets it):
  row 2   get_recursively/dotted-string/empty-component-skipped   (sibling found here, other line of the same function:
          get_recursively/dict/trailing-empty-component-dropped)
  row 3   contains/path-through-scalar/raises-TypeError
  row 4   format_context/malformed-template/IndexError-at-construction
  row 18  DeleteContext/path-through-scalar/raises-TypeError  and  DeleteContext/empty-key/raises-IndexError
  row 24  format_update_with/malformed-template/plain-ValueError
A call of the real code that does not return within 2 s is a failure `.../raises-Timeout`; after 5 of them a scope is
abandoned (`harness/scope-abandoned-...`) so that a non-terminating edit cannot stall the run."""
import copy
import itertools
import os
import sys
import time
sys.path.insert(0, os.path.dirname(os.path.dirname(os.path.abspath(__file__))))
from bounded.common import Run, watchdog, Timeout

import lena.core
import lena.flow
import lena.context
import lena.meta
from lena.core import LenaException, LenaKeyError, LenaTypeError, LenaValueError
from lena.context import (get_recursively, str_to_dict, str_to_list, contains, format_context, format_update_with,
                          to_string, UpdateContext, DeleteContext)
from lena.meta import SetContext, UpdateContextFromStatic


# --------------------------------------------------------------------------------------------------------------
# reference specification (from the property text; no call into lena)
# --------------------------------------------------------------------------------------------------------------
class _Absent(object):
    def __repr__(self):
        return "<absent>"


ABSENT = _Absent()
UNSET = "<unset>"          # JSON-able marker for "keyword argument not given"
OBJ = "<object()>"         # JSON-able marker for an opaque fresh object


def split(s):
    """components of a dotted string; the empty string is the empty path"""
    return [] if s == "" else s.split(".")


def lookup(d, ks):
    cur = d
    for k in ks:
        if not isinstance(cur, dict) or k not in cur:
            return ABSENT
        cur = cur[k]
    return cur


def through_scalar(d, ks):
    """a proper prefix of ks is present and is not a dictionary"""
    cur = d
    for k in ks:
        if not isinstance(cur, dict):
            return True
        if k not in cur:
            return False
        cur = cur[k]
    return False


def nest(ks):
    """one-key-per-level dictionary notation of a path of length 0 or >= 2"""
    if not ks:
        return {}
    cur = ks[-1]
    for k in reversed(ks[:-1]):
        cur = {k: cur}
    return cur


def nest_value(ks, v):
    cur = v
    for k in reversed(ks):
        cur = {k: cur}
    return cur


def merge(old, new):
    """recursive update: dictionaries are merged, anything else is overwritten"""
    if isinstance(old, dict) and isinstance(new, dict):
        res = dict(old)
        for k, v in new.items():
            res[k] = merge(old[k], v) if k in old else v
        return res
    return new


def set_path(ctx, ks, new, recursively=True):
    """the context in which exactly the item ks became `new` (missing or scalar ancestors become dictionaries)"""
    res = copy.deepcopy(ctx)
    new = copy.deepcopy(new)
    cur = res
    for k in ks[:-1]:
        if not isinstance(cur.get(k, ABSENT), dict):
            cur[k] = {}
        cur = cur[k]
    last = ks[-1]
    cur[last] = merge(cur[last], new) if (recursively and last in cur) else new
    return res


def del_path(ctx, ks):
    res = copy.deepcopy(ctx)
    if ks and lookup(res, ks) is not ABSENT:
        del lookup(res, ks[:-1])[ks[-1]]
    return res


def reach(o, acc=None):
    """ids of the mutable containers reachable from o"""
    acc = set() if acc is None else acc
    if isinstance(o, (dict, list)):
        acc.add(id(o))
        for x in (list(o.values()) if isinstance(o, dict) else o):
            reach(x, acc)
    return acc


def mutate_all(o):
    """change every mutable container reachable from o in place"""
    if isinstance(o, dict):
        for x in list(o.values()):
            mutate_all(x)
        o["_m"] = 1
    elif isinstance(o, list):
        for x in list(o):
            mutate_all(x)
        o.append("_m")


def retag(o):
    """the same shape with every leaf replaced by a different value"""
    if isinstance(o, dict):
        return dict((k, retag(v)) for k, v in o.items())
    return "<%s>" % (o,) if isinstance(o, str) else [o]


def make_value(tag):
    return object() if tag == OBJ else copy.deepcopy(tag)


# ---- templates: a list of pieces ["L", text] / ["F", dotted-name, suffix]; suffix is "", "!r", ":>4", "!s:<3"
def tpl_text(pieces):
    return "".join(p[1] if p[0] == "L" else "{{" + p[1] + p[2] + "}}" for p in pieces)


def parse_template(t):
    """pieces if t consists of brace-free literal text and fields {{name[!c][:spec]}} (name non-empty, brace-free), else None"""
    pieces = []
    i = 0
    lit = ""
    while i < len(t):
        c = t[i]
        if c == "}":
            return None
        if c != "{":
            lit += c
            i += 1
            continue
        if not t.startswith("{{", i):
            return None
        j = t.find("}}", i + 2)
        if j < 0:
            return None
        body = t[i + 2:j]
        if "{" in body or "}" in body:
            return None
        cut = min([body.index(x) for x in "!:" if x in body] or [len(body)])
        name, suffix = body[:cut], body[cut:]
        if not name:
            return None
        if suffix.startswith("!"):
            if len(suffix) < 2 or suffix[1] not in "rsa" or (len(suffix) > 2 and suffix[2] != ":"):
                return None
        if lit:
            pieces.append(["L", lit])
            lit = ""
        pieces.append(["F", name, suffix])
        i = j + 2
    if lit:
        pieces.append(["L", lit])
    return pieces


def ref_render(pieces, ctx):
    """("ok", text) | ("LenaKeyError",) | ("undemanded",) -- the latter when Python's own format() rejects value/spec"""
    out = []
    for p in pieces:
        if p[0] == "L":
            out.append(p[1])
            continue
        v = lookup(ctx, split(p[1]))
        if v is ABSENT:
            return ("LenaKeyError",)
        suffix = p[2]
        if suffix.startswith("!"):
            v = {"r": repr, "s": str, "a": ascii}[suffix[1]](v)
            suffix = suffix[2:]
        try:
            out.append(format(v, suffix[1:] if suffix.startswith(":") else ""))
        except Exception:
            return ("undemanded",)
    return ("ok", "".join(out))


def has_empty_component(pieces):
    return any(p[0] == "F" and "" in p[1].split(".") for p in pieces)


# ---- running the real code
def cat(e):
    for c in (LenaKeyError, LenaTypeError, LenaValueError):
        if isinstance(e, c):
            return c.__name__
    if isinstance(e, LenaException):
        return "LenaException:" + type(e).__name__
    return type(e).__name__


class TooManyHangs(Exception):
    pass


HANGS = [0]


def call(f, *a, **k):
    """("ok", result) | ("exc", category, exception); a call that does not return within 2 s counts as "Timeout";
    after 4 of them in one scope the scope is abandoned (each would cost 2 s)"""
    try:
        with watchdog(2):
            return ("ok", f(*a, **k))
    except Timeout:
        HANGS[0] += 1
        if HANGS[0] > 4:
            raise TooManyHangs()
        return ("exc", "Timeout", None)
    except Exception as e:
        return ("exc", cat(e), e)


def show(r):
    return "%r" % (r[1],) if r[0] == "ok" else "raises %s(%s)" % (r[1], str(r[2])[:60])


LENA = ("LenaKeyError", "LenaTypeError", "LenaValueError")


# --------------------------------------------------------------------------------------------------------------
# checkers: JSON-able arguments -> list of (fid, what); also used as replayers
# --------------------------------------------------------------------------------------------------------------
def _predicted(r, item, dflt):
    """does outcome r equal what the reference predicts for a looked-up `item`?"""
    if item is ABSENT:
        if dflt == UNSET:
            return r[0] == "exc" and r[1] == "LenaKeyError"
        return r[0] == "ok" and r[1] is dflt
    return r[0] == "ok" and r[1] is item


def chk_get(ctx, ks, dflts=(UNSET, None)):
    """get_recursively in the three notations, without / with a (falsy) default, against lookup(); ctx not modified"""
    out = []
    exp = lookup(ctx, ks)
    forms = [("list", list(ks))]
    if ks != [""]:
        forms.append(("dotted-string", ".".join(ks)))
    if len(ks) != 1:
        forms.append(("dict", nest(ks)))
    for name, keys in forms:
        for dflt in dflts:
            r = call(get_recursively, ctx, keys) if dflt == UNSET else call(get_recursively, ctx, keys, dflt)
            if _predicted(r, exp, dflt):
                continue
            if name == "dotted-string" and "" in ks and _predicted(r, lookup(ctx, [k for k in ks if k]), dflt):
                fid = "get_recursively/dotted-string/empty-component-skipped"
            elif name == "dict" and ks[-1:] == [""] and _predicted(r, lookup(ctx, ks[:-1]), dflt):
                fid = "get_recursively/dict/trailing-empty-component-dropped"
            elif r[0] == "exc" and r[1] not in LENA:
                fid = "get_recursively/%s/raises-%s" % (name, r[1])
            elif exp is not ABSENT:
                fid = "get_recursively/%s/wrong-item" % name
            elif dflt == UNSET:
                fid = "get_recursively/%s/absent-not-LenaKeyError" % name
            else:
                fid = "get_recursively/%s/default-not-honoured" % name
            out.append((fid, "get_recursively(%r, %r%s) %s; the item at path %r is %r" % (
                ctx, keys, "" if dflt == UNSET else ", %r" % (dflt,), show(r), ks, exp)))
    return out


def chk_get_types():
    """documented argument errors of get_recursively"""
    out = []
    for args, want in [((5, "a"), "LenaTypeError"), (([], "a"), "LenaTypeError"), (({"a": 1}, 5), "LenaTypeError"),
                       (({"a": 1}, None), "LenaTypeError"), (({"a": 1}, ["a", 1]), "LenaTypeError"),
                       (({"a": 1}, {"a": 1, "b": 2}), "LenaValueError"), (({"a": 1}, {"a": {"b": 1, "c": 2}}), "LenaValueError"),
                       (({"a": 1}, ("a",)), "LenaTypeError")]:
        r = call(get_recursively, *args)
        if not (r[0] == "exc" and r[1] == want):
            out.append(("get_recursively/malformed-argument/not-%s" % want, "get_recursively%r %s, expected %s" % (args, show(r), want)))
    return out


def chk_law(ks, vtag):
    """str_to_dict / str_to_list and the law get_recursively(str_to_dict(s, v), s) is v, for s = '.'.join(ks), ks non-empty"""
    out = []
    s = ".".join(ks)
    v = make_value(vtag)
    r = call(str_to_list, s)
    if not (r[0] == "ok" and r[1] == list(ks)):
        out.append(("str_to_list/wrong-list", "str_to_list(%r) %s, expected %r" % (s, show(r), ks)))
    r = call(str_to_dict, s, v)
    if not (r[0] == "ok" and r[1] == nest_value(ks, v) and lookup(r[1], ks) is v):
        out.append(("str_to_dict/with-value/wrong-dict", "str_to_dict(%r, %r) %s, expected %r" % (s, v, show(r), nest_value(ks, v))))
        return out
    d = r[1]
    g = call(get_recursively, d, s)
    if not (g[0] == "ok" and g[1] is v):
        gl = call(get_recursively, d, list(ks))
        if "" in ks and gl[0] == "ok" and gl[1] is v:
            fid = "get_recursively/dotted-string/empty-component-skipped"
        else:
            fid = "roundtrip-law/dotted-string/not-v"
        out.append((fid, "get_recursively(str_to_dict(%r, %r), %r) %s, expected the value itself" % (s, v, s, show(g))))
    gl = call(get_recursively, d, list(ks))
    if not (gl[0] == "ok" and gl[1] is v):
        out.append(("roundtrip-law/list/not-v", "get_recursively(str_to_dict(%r, %r), %r) %s" % (s, v, ks, show(gl))))
    r = call(str_to_dict, s)
    if len(ks) == 1:
        if not (r[0] == "exc" and r[1] == "LenaValueError"):
            out.append(("str_to_dict/one-part-without-value/not-LenaValueError", "str_to_dict(%r) %s" % (s, show(r))))
    elif not (r[0] == "ok" and r[1] == nest(ks)):
        out.append(("str_to_dict/without-value/wrong-dict", "str_to_dict(%r) %s, expected %r" % (s, show(r), nest(ks))))
    else:
        gd = call(get_recursively, d, r[1])
        if not (gd[0] == "ok" and gd[1] is v):
            fid = ("get_recursively/dict/trailing-empty-component-dropped"
                   if ks[-1] == "" and _predicted(gd, lookup(d, ks[:-1]), UNSET) else "roundtrip-law/dict/not-v")
            out.append((fid, "get_recursively(str_to_dict(%r, %r), str_to_dict(%r)) %s, expected the value itself" % (s, v, s, show(gd))))
    return out


def chk_law_empty():
    out = []
    for f, args, want in [(str_to_dict, ("",), ("ok", {})), (str_to_list, ("",), ("ok", [])),
                          (str_to_dict, ("", 5), ("exc", "LenaValueError")), (str_to_dict, ("", None), ("exc", "LenaValueError"))]:
        r = call(f, *args)
        if r[:2] != want:
            out.append(("%s/empty-string" % f.__name__, "%s%r %s, expected %r" % (f.__name__, args, show(r), want)))
    d = {"a": 1}
    r = call(get_recursively, d, "")
    if not (r[0] == "ok" and r[1] is d):
        out.append(("get_recursively/dotted-string/wrong-item", "get_recursively(d, '') %s, expected d itself" % show(r)))
    return out


def chk_contains(ctx, ks):
    """contains(ctx, '.'.join(ks)): True iff the path is present, or its parent is a scalar whose str() is the last component"""
    out = []
    s = ".".join(ks)
    ks = s.split(".")
    parent = lookup(ctx, ks[:-1])
    by_str = parent is not ABSENT and not isinstance(parent, dict) and str(parent) == ks[-1]
    exp = lookup(ctx, ks) is not ABSENT or by_str
    r = call(contains, ctx, s)
    if r[0] == "ok" and r[1] is exp:
        return out
    if r[0] == "exc":
        fid = "contains/%sraises-%s" % ("path-through-scalar/" if through_scalar(ctx, ks[:-1]) else "", r[1])
    elif exp:
        fid = "contains/false-negative/" + ("scalar-str-rule" if by_str else "present-key")
    else:
        fid = "contains/false-positive"
    out.append((fid, "contains(%r, %r) %s, expected %r (get_recursively: %s)" % (
        ctx, s, show(r), exp, "present" if lookup(ctx, ks) is not ABSENT else "LenaKeyError")))
    return out


def chk_fmt(pieces, ctx):
    """format_context on a well-formed template: renders exactly the addressed items / LenaKeyError when one is absent"""
    out = []
    t = tpl_text(pieces)
    exp = ref_render(pieces, ctx)
    if exp[0] == "undemanded":
        return out
    before = copy.deepcopy(ctx)
    f = call(format_context, t)
    if f[0] != "ok":
        out.append(("format_context/well-formed-template/construction-raises-%s" % f[1], "format_context(%r) %s" % (t, show(f))))
        return out
    r = call(f[1], ctx)
    if exp[0] == "ok":
        if not (r[0] == "ok" and r[1] == exp[1]):
            fid = "format_context/wrong-rendering" if r[0] == "ok" else "format_context/present-items/raises-%s" % r[1]
            out.append((fid, "format_context(%r)(%r) %s, expected %r" % (t, ctx, show(r), exp[1])))
    elif not (r[0] == "exc" and r[1] == "LenaKeyError"):
        out.append(("format_context/absent-item/not-LenaKeyError", "format_context(%r)(%r) %s, expected LenaKeyError" % (t, ctx, show(r))))
    if ctx != before:
        out.append(("format_context/context-modified", "format_context(%r) changed the context %r -> %r" % (t, before, ctx)))
    # the bound function can be used again: fields are looked up at call time, nothing is kept from the previous call
    r2 = call(f[1], {})
    n_fields = sum(1 for p in pieces if p[0] == "F")
    if n_fields and not (r2[0] == "exc" and r2[1] == "LenaKeyError"):
        out.append(("format_context/second-call/absent-item/not-LenaKeyError", "format_context(%r)({}) after another call %s" % (t, show(r2))))
    ctx2 = retag(ctx)
    exp2 = ref_render(pieces, ctx2)
    r3 = call(f[1], ctx2)
    if exp2[0] == "ok" and not (r3[0] == "ok" and r3[1] == exp2[1]):
        out.append(("format_context/second-call/wrong-rendering", "f = format_context(%r); f(%r); f(%r) %s, expected %r" % (t, ctx, ctx2, show(r3), exp2[1])))
    return out


def chk_fmt_types():
    out = []
    for bad in (5, None, ["{{a}}"], b"{{a}}"):
        r = call(format_context, bad)
        if not (r[0] == "exc" and r[1] == "LenaTypeError"):
            out.append(("format_context/not-a-string/not-LenaTypeError", "format_context(%r) %s" % (bad, show(r))))
    for bad in ("{a}", "{{a}", "{a}}", "{{a}}}", "{", "}"):
        r = call(format_context, bad)
        if not (r[0] == "exc" and r[1] == "LenaValueError"):
            out.append(("format_context/unbalanced-or-single-braces/not-LenaValueError", "format_context(%r) %s" % (bad, show(r))))
    return out


TPL_CTX = {"a": 1, "b": {"a": "s"}, "x": {"a": {"b": 0}}}


def chk_template_string(t):
    """an arbitrary string as *value* of format_update_with: LenaTypeError/LenaValueError/LenaKeyError or a correct
    update, never another exception; the dictionary is untouched unless the update happened"""
    out = []
    d = copy.deepcopy(TPL_CTX)
    r = call(format_update_with, "k.j", t, d)
    pieces = parse_template(t)
    if r[0] == "exc":
        if d != TPL_CTX:
            out.append(("format_update_with/raised-but-changed-dictionary", "format_update_with('k.j', %r, d) %s and changed d to %r" % (t, show(r), d)))
        if r[1] not in LENA:
            c = call(format_context, t)
            if c[0] == "exc" and c[1] == r[1]:
                fid = "format_context/malformed-template/%s-at-construction" % r[1]
                txt = "format_context(%r) and format_update_with('k.j', %r, d) raise %s(%s) instead of LenaValueError" % (t, t, r[1], r[2])
            else:
                fid = "format_update_with/malformed-template/plain-%s" % r[1]
                txt = ("format_update_with('k.j', %r, d) raises %s(%s), not a Lena exception (documented for format_context "
                       "itself, whose call passes construction)" % (t, r[1], r[2]))
            out.append((fid, txt))
        elif pieces is not None and not has_empty_component(pieces):
            exp = ref_render(pieces, TPL_CTX)
            if exp[0] == "ok" or (exp[0] == "LenaKeyError" and r[1] != "LenaKeyError"):
                out.append(("format_update_with/well-formed-template/raises-%s" % r[1],
                            "format_update_with('k.j', %r, %r) %s, expected %r" % (t, TPL_CTX, show(r), exp)))
        return out
    if pieces is not None and not has_empty_component(pieces):
        exp = ref_render(pieces, TPL_CTX)
        if exp[0] == "LenaKeyError":
            out.append(("format_update_with/absent-item/not-LenaKeyError", "format_update_with('k.j', %r, %r) did not raise" % (t, TPL_CTX)))
            return out
        if exp[0] == "ok" and d != set_path(TPL_CTX, ["k", "j"], exp[1]):
            out.append(("format_update_with/wrong-rendering", "format_update_with('k.j', %r, %r) gave %r, expected item %r" % (t, TPL_CTX, d, exp[1])))
            return out
    d2 = copy.deepcopy(d)
    d2.pop("k", None)
    if d2 != TPL_CTX:
        out.append(("format_update_with/other-item-changed", "format_update_with('k.j', %r, d): %r -> %r" % (t, TPL_CTX, d)))
    return out


def chk_fuw(ctx, ks, value):
    """format_update_with(key, value, d): exactly d[key] becomes value / the rendered template (merged as update_recursively)"""
    out = []
    key = ".".join(ks)
    d = copy.deepcopy(ctx)
    pieces = parse_template(value) if isinstance(value, str) and "{" in value else None
    if not ks:
        want = ("LenaValueError",)
        if pieces is not None and ref_render(pieces, ctx)[0] != "ok":
            return out           # two errors apply; which one is reported first is not stated
    elif pieces is not None:
        rr = ref_render(pieces, ctx)
        want = ("ctx", set_path(ctx, ks, rr[1])) if rr[0] == "ok" else (rr[0],)
    else:
        want = ("ctx", set_path(ctx, ks, value))
    if want[0] == "undemanded":
        return out
    r = call(format_update_with, key, copy.deepcopy(value), d)
    what = "format_update_with(%r, %r, %r)" % (key, value, ctx)
    if want[0] == "ctx":
        if r[0] == "exc":
            out.append(("format_update_with/raises-%s" % r[1], "%s %s, expected %r" % (what, show(r), want[1])))
        elif d != want[1]:
            if lookup(d, ks) != lookup(want[1], ks):
                fid = "format_update_with/addressed-item-wrong"
            else:
                fid = "format_update_with/other-item-changed"
            out.append((fid, "%s gave %r, expected %r" % (what, d, want[1])))
    else:
        if not (r[0] == "exc" and r[1] == want[0]):
            fid = "format_update_with/%s/not-%s" % ("empty-key" if not ks else "absent-item", want[0])
            out.append((fid, "%s %s, expected %s" % (what, show(r), want[0])))
        if d != ctx:
            out.append(("format_update_with/raised-but-changed-dictionary", "%s changed d to %r" % (what, d)))
    return out


def permuted(o, mode):
    """an equal object whose dictionaries were built in another key order"""
    if isinstance(o, dict):
        items = list(o.items())
        if mode == 1:
            items.reverse()
        elif mode == 2:
            items = items[1:] + items[:1]
        elif mode == 3:
            items.sort(key=lambda kv: kv[0], reverse=True)
        return dict((k, permuted(v, mode)) for k, v in items)
    if isinstance(o, list):
        return [permuted(x, mode) for x in o]
    return o


def chk_tostring(ctx):
    out = []
    before = copy.deepcopy(ctx)
    r = call(to_string, ctx)
    if not (r[0] == "ok" and isinstance(r[1], str)):
        out.append(("to_string/raises-%s" % (r[1] if r[0] == "exc" else "nothing-but-not-a-string"), "to_string(%r) %s" % (ctx, show(r))))
        return out
    for mode in (1, 2, 3):
        p = permuted(ctx, mode)
        assert p == ctx
        r2 = call(to_string, p)
        if r2[:2] != r[:2]:
            out.append(("to_string/key-order-dependent", "to_string(%r) = %r but to_string(%r) %s" % (ctx, r[1], p, show(r2))))
            break
    if ctx != before:
        out.append(("to_string/argument-modified", "to_string changed %r to %r" % (before, ctx)))
    return out


def chk_tostring_pair(c1, c2):
    """different dictionaries give different strings"""
    r1, r2 = call(to_string, c1), call(to_string, c2)
    if c1 != c2 and r1[0] == "ok" and r2[0] == "ok" and r1[1] == r2[1]:
        return [("to_string/collision", "to_string(%r) == to_string(%r) == %r" % (c1, c2, r1[1]))]
    return []


def chk_tostring_bad():
    out = []
    for mk in (lambda: {"a": {1, 2}}, lambda: {"a": object()}, lambda: {("t",): 1}, lambda: {"a": {"b": [b"x"]}}):
        bad = mk()
        r = call(to_string, bad)
        if not (r[0] == "exc" and r[1] == "LenaValueError"):
            out.append(("to_string/unserializable/not-LenaValueError", "to_string(%r) %s" % (bad, show(r))))
    return out


def chk_delete(ctx, ks, notation):
    """DeleteContext(key)((data, ctx)): exactly the addressed item disappears; absent (also through a scalar) -> ignored"""
    out = []
    key = {"dotted-string": ".".join(ks), "list": list(ks), "tuple": tuple(ks)}[notation]
    what = "DeleteContext(%r)((data, %r))" % (key, ctx)
    e = call(DeleteContext, key)
    if e[0] == "exc":
        if e[1] not in LENA:
            out.append(("DeleteContext/%sconstruction-raises-%s" % ("empty-key/" if not ks else "", e[1]), "DeleteContext(%r) %s" % (key, show(e))))
        return out
    data = ["data"]
    c = copy.deepcopy(ctx)
    r = call(e[1], (data, c))
    if r[0] == "exc":
        if r[1] in LENA and not ks:
            return out           # an empty key may be refused with a Lena exception
        if not ks:
            fid = "DeleteContext/empty-key/raises-%s" % r[1]
        elif through_scalar(ctx, ks):
            fid = "DeleteContext/path-through-scalar/raises-%s" % r[1]
        else:
            fid = "DeleteContext/raises-%s" % r[1]
        out.append((fid, "%s %s, expected %s" % (what, show(r), "no exception or a Lena exception" if not ks else del_path(ctx, ks))))
        return out
    res = r[1]
    if not (isinstance(res, tuple) and len(res) == 2 and res[0] is data and data == ["data"]):
        out.append(("DeleteContext/data-changed", "%s returned %r" % (what, res)))
        return out
    if not ks:
        return out               # what deleting the whole context means is not stated
    exp = del_path(ctx, ks)
    if res[1] != exp or c != exp:
        got = res[1] if res[1] != exp else c
        fid = "DeleteContext/item-not-deleted" if lookup(got, ks) is not ABSENT else "DeleteContext/other-item-changed"
        out.append((fid, "%s gave context %r (argument now %r), expected %r" % (what, res[1], c, exp)))
    return out


def chk_delete_nocontext():
    out = []
    for v in (5, (1, 2), "ab", None):
        r = call(DeleteContext("a"), v)
        if not (r[0] == "ok" and (r[1] == v or r[1] == (v, {}))):
            out.append(("DeleteContext/value-without-context", "DeleteContext('a')(%r) %s" % (v, show(r))))
    return out


# ---- UpdateContext
MALFORMED_JINJA = ["{{a", "{{}}", "{{a b}}", "{% if %}"]


def jinja_pieces(update):
    """pieces when update is literal text and fields {{ident.ident...}} only (the documented formatting strings), else None"""
    p = parse_template(update)
    if p is None:
        return None
    for x in p:
        if x[0] == "F" and (x[2] or not all(c.isidentifier() for c in x[1].split("."))):
            return None
        if x[0] == "L" and any(c in x[1] for c in "%#\n"):
            return None
    return p


def is_single_field(update):
    return (len(update) > 4 and update.startswith("{{") and update.endswith("}}")
            and "{" not in update[2:-2] and "}" not in update[2:-2])


def ref_uc_init(sub, update, o):
    """(kind, set of acceptable construction errors); an empty set means construction must succeed"""
    errs = set()
    if not isinstance(sub, str):
        errs.add("LenaTypeError")
    elif sub == "":
        errs.add("LenaValueError")
    n = (o["default"] != UNSET) + bool(o["skip"]) + bool(o["rais"])
    if n > 1:
        errs.add("LenaValueError")
    kind = None
    if not isinstance(update, str):
        kind = "simple"
        if n:
            errs.add("LenaValueError")
    elif o["value"]:
        kind = "ctxvalue"
        if not is_single_field(update):
            errs.add("LenaValueError")
    else:
        kind = "format"
        if o["default"] != UNSET:
            errs.add("LenaValueError")
        if update in MALFORMED_JINJA:
            errs.add("LenaValueError")
    return kind, errs


def ref_uc_call(ctx, ks, kind, update, o):
    """("ctx", expected context) | ("skip",) | ("LenaKeyError",)"""
    if kind == "simple":
        new = update
    elif kind == "ctxvalue":
        new = lookup(ctx, split(update[2:-2]))
        if new is ABSENT:
            if o["default"] != UNSET:
                new = o["default"]
            elif o["skip"]:
                return ("skip",)
            else:
                return ("LenaKeyError",)
    else:
        parts = []
        for p in jinja_pieces(update):
            if p[0] == "L":
                parts.append(p[1])
                continue
            v = lookup(ctx, split(p[1]))
            if v is ABSENT:
                if o["skip"]:
                    return ("skip",)
                if o["rais"]:
                    return ("LenaKeyError",)
                v = ""
            parts.append(str(v))
        new = "".join(parts)
    return ("ctx", set_path(ctx, ks, new, o["rec"]))


def uc_kwargs(o):
    kw = {"value": o["value"], "skip_on_missing": o["skip"], "raise_on_missing": o["rais"], "recursively": o["rec"]}
    if o["default"] != UNSET:
        kw["default"] = copy.deepcopy(o["default"])
    return kw


def related(p, q):
    n = min(len(p), len(q))
    return list(p[:n]) == list(q[:n])


def chk_uc(ctxs, sub, update, o, nocontext=False):
    """UpdateContext(sub, update, **o): construction errors as documented; each call changes exactly the item sub"""
    out = []
    kind, errs = ref_uc_init(sub, update, o)
    e = call(UpdateContext, sub, copy.deepcopy(update), **uc_kwargs(o))
    sig = "UpdateContext(%r, %r, %s)" % (sub, update, ", ".join("%s=%r" % kv for kv in sorted(o.items()) if kv[1] != UNSET))
    if errs:
        if not (e[0] == "exc" and e[1] in errs):
            fid = "UpdateContext/init/%s" % ("raises-%s" % e[1] if e[0] == "exc" and e[1] not in LENA else "malformed-options-accepted-or-wrong-class")
            out.append((fid, "%s %s, expected %s" % (sig, "constructed" if e[0] == "ok" else show(e), " or ".join(sorted(errs)))))
        return out
    if e[0] == "exc":
        out.append(("UpdateContext/init/valid-arguments-raise-%s" % e[1], "%s %s" % (sig, show(e))))
        return out
    el = e[1]
    ks = sub.split(".")
    mode = "default" if o["default"] != UNSET else "skip" if o["skip"] else "raise" if (o["rais"] or kind == "ctxvalue") else "empty-string"
    for ctx in ctxs:
        want = ref_uc_call(ctx, ks, kind, update, o)
        data = ["data"]
        c = copy.deepcopy(ctx)
        src = lookup(c, split(update[2:-2])) if kind == "ctxvalue" else ABSENT
        value = data if nocontext else (data, c)
        r = call(el, value)
        what = "%s((data, %r))" % (sig, ctx)
        if want[0] == "LenaKeyError":
            if not (r[0] == "exc" and r[1] == "LenaKeyError"):
                out.append(("UpdateContext/%s/missing-key/%s/not-LenaKeyError" % (kind, mode), "%s %s, expected LenaKeyError" % (what, show(r))))
            elif c != ctx:
                out.append(("UpdateContext/%s/raised-but-changed-context" % kind, "%s changed the context to %r" % (what, c)))
            continue
        if r[0] == "exc":
            out.append(("UpdateContext/%s/raises-%s" % (kind, r[1]), "%s %s, expected %r" % (what, show(r), want)))
            continue
        res = r[1]
        if want[0] == "skip":
            if not (res is value or (isinstance(res, tuple) and len(res) == 2 and res[0] is data and res[1] == ctx)) or c != ctx:
                out.append(("UpdateContext/%s/missing-key/skip/value-changed" % kind, "%s returned %r, expected the value unchanged" % (what, res)))
            continue
        exp = want[1]
        if not (isinstance(res, tuple) and len(res) == 2 and res[0] is data and data == ["data"]):
            out.append(("UpdateContext/%s/data-changed" % kind, "%s returned %r" % (what, res)))
            continue
        got = res[1]
        if got != exp:
            if del_path(got, ks) != del_path(exp, ks):
                fid = "UpdateContext/%s/other-item-changed" % kind
            elif kind == "ctxvalue" and lookup(ctx, split(update[2:-2])) is ABSENT:
                fid = "UpdateContext/ctxvalue/missing-key/%s/wrong-item" % mode
            else:
                fid = "UpdateContext/%s/addressed-item-wrong/recursively=%s" % (kind, o["rec"])
            out.append((fid, "%s gave %r, expected %r" % (what, got, exp)))
            continue
        if not nocontext and got is not c and c != exp and c != ctx:
            out.append(("UpdateContext/%s/argument-context-half-changed" % kind, "%s left its argument as %r" % (what, c)))
        # deep copy of another context item: nothing mutable is shared with the source item
        item = lookup(got, ks)
        if kind == "ctxvalue" and src is not ABSENT and not related(ks, split(update[2:-2])) and reach(item) & reach(src):
            out.append(("UpdateContext/ctxvalue/not-a-deep-copy", "%s: the new item shares objects with the source item" % what))
        # the element is not affected by what happens to the value it produced
        if (kind == "simple" and isinstance(update, (dict, list))) or isinstance(o["default"], (dict, list)):
            mutate_all(got)
            r2 = call(el, (["data"], copy.deepcopy(ctx)))
            if not (r2[0] == "ok" and r2[1][1] == exp):
                out.append(("UpdateContext/%s/later-value-sees-mutation" % kind,
                            "%s: after the first result was mutated in place the same call %s" % (what, show(r2))))
                el = call(UpdateContext, sub, copy.deepcopy(update), **uc_kwargs(o))[1]
    return out


def chk_meta(ctx, ks, value):
    """SetContext / UpdateContextFromStatic: static context gets exactly the addressed item; runtime contexts are
    updated with a deep copy of it"""
    out = []
    key = ".".join(ks)
    pieces = parse_template(value) if isinstance(value, str) and "{" in value else None
    sig = "SetContext(%r, %r)" % (key, value)
    e = call(SetContext, key, copy.deepcopy(value))
    if e[0] == "exc":
        out.append(("SetContext/init-raises-%s" % e[1], "%s %s" % (sig, show(e))))
        return out
    el = e[1]
    def want_for(c):
        if pieces is not None:
            rr = ref_render(pieces, c)
            return ("ctx", set_path(c, ks, rr[1])) if rr[0] == "ok" else (rr[0],)
        return ("ctx", set_path(c, ks, value))
    for c0 in ({}, ctx):
        want = want_for(c0)
        if c0:
            s = call(el._set_context, copy.deepcopy(c0))
            if want[0] == "ctx" and s[0] == "exc":
                out.append(("SetContext/_set_context-raises-%s" % s[1], "%s._set_context(%r) %s" % (sig, c0, show(s))))
                return out
            if want[0] != "ctx":
                continue        # an earlier successfully set context may legitimately stay
        g = call(el._get_context)
        if want[0] == "ctx":
            if not (g[0] == "ok" and g[1] == want[1]):
                out.append(("SetContext/static-context-wrong", "%s after _set_context(%r): _get_context() %s, expected %r" % (sig, c0, show(g), want[1])))
                return out
            mutate_all(g[1])
            g2 = call(el._get_context)
            if not (g2[0] == "ok" and g2[1] == want[1]):
                out.append(("SetContext/static-context-not-copied", "%s: mutating the result of _get_context() changed the next one: %s" % (sig, show(g2))))
                return out
        elif want[0] == "LenaKeyError" and not (g[0] == "exc" and g[1] == "LenaKeyError"):
            out.append(("SetContext/absent-item/not-LenaKeyError", "%s: _get_context() %s, expected LenaKeyError" % (sig, show(g))))
            return out
    # runtime update from the static context
    static = set_path({}, ks, value) if pieces is None else {"s": {"t": [1]}}
    u = UpdateContextFromStatic()
    u._set_context(copy.deepcopy(static))
    datas = [["d0"], ["d1"], ["d2"]]
    flow = [(datas[0], copy.deepcopy(ctx)), (datas[1], {}), (datas[2], copy.deepcopy(ctx))]
    it = call(lambda: iter(u.run(iter(flow))))
    for i in range(3):
        r = call(next, it[1]) if it[0] == "ok" else it
        exp = merge(copy.deepcopy(ctx if i != 1 else {}), copy.deepcopy(static))
        if not (r[0] == "ok" and isinstance(r[1], tuple) and r[1][0] is datas[i] and r[1][1] == exp):
            fid = "UpdateContextFromStatic/wrong-context" if i == 0 else "UpdateContextFromStatic/later-value-sees-mutation"
            out.append((fid, "UpdateContextFromStatic with static %r, value %d of the flow with context %r %s, expected context %r" % (
                static, i, ctx if i != 1 else {}, show(r), exp)))
            break
        mutate_all(r[1][1])
    return out


REPLAY = {"chk_get": chk_get, "chk_law": chk_law, "chk_contains": chk_contains, "chk_fmt": chk_fmt,
          "chk_template_string": chk_template_string, "chk_fuw": chk_fuw, "chk_tostring": chk_tostring,
          "chk_tostring_pair": chk_tostring_pair, "chk_delete": chk_delete, "chk_uc": chk_uc, "chk_meta": chk_meta,
          "chk_get_types": chk_get_types, "chk_law_empty": chk_law_empty, "chk_fmt_types": chk_fmt_types,
          "chk_tostring_bad": chk_tostring_bad, "chk_delete_nocontext": chk_delete_nocontext}


def replayer(name):
    def run(fid, *args):
        return any(f == fid for f, _ in REPLAY[name](*args))
    return run


def report(R, name, args, failures):
    for fid, what in failures:
        R.fail(fid, what, {"checker": name, "args": args}, {"fn": name, "args": [fid] + list(args)})


# --------------------------------------------------------------------------------------------------------------
# scopes
# --------------------------------------------------------------------------------------------------------------
def trees(keys, leaves, depth):
    """every value of nesting depth <= depth: a leaf, or a dictionary over a subset of keys with values of depth <= depth-1"""
    if depth == 0:
        return list(leaves)
    sub = trees(keys, leaves, depth - 1)
    out = list(leaves)
    for choice in itertools.product([ABSENT] + sub, repeat=len(keys)):
        out.append(dict((k, v) for k, v in zip(keys, choice) if v is not ABSENT))
    return out


def clone(o):
    """a copy without any object shared between two positions"""
    if isinstance(o, dict):
        return dict((k, clone(v)) for k, v in o.items())
    if isinstance(o, list):
        return [clone(v) for v in o]
    return o


def contexts(keys, leaves, depth):
    return [clone(t) for t in trees(keys, leaves, depth) if isinstance(t, dict)]


def paths(alphabet, maxlen, minlen=0):
    for n in range(minlen, maxlen + 1):
        for p in itertools.product(alphabet, repeat=n):
            yield list(p)


def rand_ctx(rng, keys, depth, tag):
    d = {}
    for k in keys:
        x = rng.random()
        if x < 0.35:
            continue
        if x < 0.7 and depth > 1:
            d[k] = rand_ctx(rng, keys, depth - 1, tag)
        else:
            tag[0] += 1
            d[k] = rng.choice([tag[0], "v%d" % tag[0], ["t", tag[0]], 0, "", None, "b", {}, [], str(rng.choice("abc")), False])
    return d


CURATED = [
    {},
    {"a": 1},
    {"a": {"b": 2, "c": {"d": 3}}, "b": 0},
    {"a": 5, "b": {"a": None}},
    {"a": {"b": {}}},
    {"a": "str", "b": {"a": {"b": [1, [2]]}}},
    {"a": {"a": {"k": [1]}, "b": {"a": {"b": "deep"}}}, "b": {"b": ""}},
    {"a": {"b": {"z": 0, "k": 9}}, "b": {"a": {"b": {"z": [3]}}}, "": {"a": 1}},
    {"a": [1, 2], "b": {"a": {"b": {"a": {"b": "x"}}}}},
    {"a": {"": {"b": 7}}, "b": False},
]


def body(R):
    rng = R.rng
    T = R.thorough
    P = ["a", "b", ""]
    leaves2 = [0, "b", None] if T else [0, "b"]
    cs2 = contexts(["a", "b"], leaves2, 2)
    if T:
        cs3 = contexts(["a", "b"], [0, "b"], 3)
    else:                   # a sample of the depth-3 contexts without enumerating all 21609 of them
        t2 = [ABSENT] + trees(["a", "b"], [0, "b"], 2)
        cs3 = []
        while len(cs3) < 100:
            c = dict((k, v) for k, v in zip("ab", (rng.choice(t2), rng.choice(t2))) if v is not ABSENT)
            cs3.append(clone(c))
    ps = list(paths(P, 4))
    opts = [{"value": v, "default": d, "skip": s, "rais": r, "rec": rec}
            for v in (False, True) for d in (UNSET, None, {"k": [1]}) for s in (False, True) for r in (False, True) for rec in (True, False)]

    def scope_1():   # get_recursively
        R.scope("get_recursively (three notations, default)",
                "all %d contexts over keys {a,b}, nesting depth <= 2, leaves %r; all %d paths of length 0..4 over "
                "components {a,b,''}; notations list / dotted string / one-key-per-level dict; without default and with default=None; "
                "result must be the very object / LenaKeyError" % (len(cs2), leaves2, len(ps)), True)
        for ctx in cs2:
            before = copy.deepcopy(ctx)
            for ks in ps:
                R.case(lookup(ctx, ks) is not ABSENT or through_scalar(ctx, ks), {"ctx": ctx, "path": ks})
                report(R, "chk_get", [ctx, ks], chk_get(ctx, ks))
            R.check(ctx == before, "get_recursively/context-modified", "get_recursively changed %r to %r" % (before, ctx), {"ctx": before})
        ps3 = [p for p in ps if "" not in p or len(p) <= 2]
        R.scope("get_recursively (three notations, default), depth 3",
                "%s contexts over keys {a,b}, nesting depth <= 3, leaves {0,'b'}; the %d paths of length 0..4 over {a,b} and of length "
                "<= 2 over {a,b,''}; same notations; default=None on every fourth context only"
                % ("all %d" % len(cs3) if T else "%d sampled" % len(cs3), len(ps3)), T)
        for i, ctx in enumerate(cs3):
            dflts = (UNSET, None) if i % 4 == 0 else (UNSET,)
            for ks in ps3:
                R.case(lookup(ctx, ks) is not ABSENT or through_scalar(ctx, ks))
                fails = chk_get(ctx, ks, dflts)
                if fails:
                    report(R, "chk_get", [ctx, ks], fails)
        R.scope("get_recursively argument errors", "8 documented malformed arguments (non-dict d, non-str/list/dict keys, non-str list member, "
                "two keys at a level)", True)
        R.case(True)
        report(R, "chk_get_types", [], chk_get_types())

    def scope_2():   # str_to_dict / str_to_list / law
        vtags = [0, None, "", "b", [1], {}, {"a": 1}, OBJ]
        lp = list(paths(P, 4, 1))
        lp = [p for p in lp if p != [""]]
        R.scope("str_to_dict / str_to_list / law get_recursively(str_to_dict(s, v), s) is v",
                "all %d dotted strings of 1..4 components over {a,b,''} x %d values (falsy, mutable, opaque object); also the "
                "dictionary notation str_to_dict(s) and the list notation" % (len(lp), len(vtags)), True)
        for ks in lp:
            for vt in vtags:
                R.case(True, {"s": ".".join(ks), "v": vt})
                report(R, "chk_law", [ks, vt], chk_law(ks, vt))
        R.case(True)
        report(R, "chk_law_empty", [], chk_law_empty())

    def scope_3():   # contains
        PC = ["a", "b", "", "0"]
        leaves_c = [0, "b", "ab", None, ["b"]] if T else [0, "b", "ab", ["b"]]
        csc = contexts(["a", "b"], leaves_c, 2)
        pc = [p for p in paths(PC, 4 if T else 3, 1)]
        R.scope("contains", "%d contexts over keys {a,b}, depth <= 2, leaves %r (%s); all %d dotted strings of 1..%d "
                "components over {a,b,'','0'}: True iff get_recursively finds the path or the parent is a scalar whose str() is the last component; "
                "no exception" % (len(csc), leaves_c, "all", len(pc), 4 if T else 3), True)
        for ctx in csc:
            for ks in pc:
                R.case(True, {"ctx": ctx, "s": ".".join(ks)})
                report(R, "chk_contains", [ctx, ks], chk_contains(ctx, ks))

    def scope_4():   # format_context, well-formed templates
        fctx = [{}, {"a": 1}, {"a": {"b": 2, "a": ""}, "b": "B"}, {"a": {"b": {"a": 0}}, "b": None},
                {"a": "", "b": {"a": [1], "b": {"x": 1}}}, {"a": {"a": "x", "b": {"a": {"b": "deep"}}}, "b": {"b": {}}}]
        fields = ["a", "b", "a.b", "b.a", "a.b.a", "a.b.a.b", "a.a", "b.b"] if T else ["a", "b.a", "a.b", "a.b.a.b"]
        lits = ["", "x", "a.b ", ":!"] if T else ["", "x", ":!a."]
        tpls = []
        for n in range(0, 4):
            for fs in itertools.product(fields, repeat=n):
                for ls in itertools.product(lits if (T or n < 3) else lits[::2], repeat=n + 1):
                    p = []
                    for i in range(n):
                        if ls[i]:
                            p.append(["L", ls[i]])
                        p.append(["F", fs[i], ""])
                    if ls[n]:
                        p.append(["L", ls[n]])
                    tpls.append(p)
        if T:
            small = [p for p in tpls if sum(1 for x in p if x[0] == "F") <= 2]
            tpls = small + rng.sample([p for p in tpls if sum(1 for x in p if x[0] == "F") == 3], 12000)
        R.scope("format_context (well-formed templates)",
                "%s %d templates of 0..3 fields from %r separated by literals from %r (quick tier: only the first and last literal between 3 fields), x %d contexts (items present, absent, falsy, "
                "through a scalar): renders exactly the addressed items / LenaKeyError" % ("" if not T else "all with <= 2 fields and a sample of the", len(tpls), fields, lits, len(fctx)), not T)
        for p in tpls:
            for ctx in fctx:
                R.case(True, {"template": tpl_text(p), "ctx": ctx})
                report(R, "chk_fmt", [p, ctx], chk_fmt(p, ctx))
        sfx = ["!r", "!s", ":>4", ":<3", "!r:>6", ":", "!a"]
        vctx = [{"a": 5, "b": {"a": "s"}}, {"a": "é", "b": {"a": 12}}, {"b": {"a": 0}}]
        R.scope("format_context (conversions and format specs)", "1..2 fields from {a, b.a} with suffix from %r, literals {'', '-'}, x %d contexts with "
                "int/str items" % (sfx, len(vctx)), True)
        for n in (1, 2):
            for fs in itertools.product(["a", "b.a"], repeat=n):
                for ss in itertools.product(sfx + [""], repeat=n):
                    for lit in ("", "-"):
                        p = []
                        for i in range(n):
                            p.append(["F", fs[i], ss[i]])
                            if lit:
                                p.append(["L", lit])
                        for ctx in vctx:
                            R.case(True)
                            report(R, "chk_fmt", [p, ctx], chk_fmt(p, ctx))
        R.case(True)
        report(R, "chk_fmt_types", [], chk_fmt_types())

    def scope_5():   # arbitrary template strings through format_update_with
        alpha = "{}a.:!x" + ("b " if T else "")
        maxlen = 5
        R.scope("format_update_with / format_context on arbitrary strings",
                "all strings of length 0..%d over the alphabet %r as value of format_update_with('k.j', value, %r): only Lena exceptions, "
                "well-formed ones rendered exactly, the dictionary untouched on error and outside k otherwise" % (maxlen, alpha, TPL_CTX), True)
        for n in range(0, maxlen + 1):
            for chars in itertools.product(alpha, repeat=n):
                t = "".join(chars)
                R.case("{" in t, {"value": t} if "{{" in t else None)
                report(R, "chk_template_string", [t], chk_template_string(t))

    def scope_6():   # format_update_with frame
        values = [0, None, {"b": {"z": 1}}, [1], "lit", "", "{{a}}", "x{{a.b}}_{{b}}", "{{b.a}}{{a}}", {}]
        fkeys = list(paths(P, 3)) + [["a", "b", "a", "b"]]
        fkeys = [k for k in fkeys if k != [""]]
        fcs = CURATED + (rng.sample(cs2, 60) if T else rng.sample(cs2, 12))
        R.scope("format_update_with (frame)", "%d contexts (curated + sampled depth-2) x %d keys of 0..4 components over {a,b,''} x %d values "
                "(simple, falsy, dict to merge, literal, templates with present/absent fields): exactly d[key] changes; LenaKeyError / "
                "LenaValueError leave d unchanged" % (len(fcs), len(fkeys), len(values)), False)
        for ctx in fcs:
            for ks in fkeys:
                for v in values:
                    R.case(True, {"ctx": ctx, "key": ".".join(ks), "value": v})
                    report(R, "chk_fuw", [ctx, ks, v], chk_fuw(ctx, ks, v))

    def scope_7():   # to_string
        tl = [0, "0", None, "null", [0], "[0]", ""]
        tcs = contexts(["a", "b"], tl, 2)
        if not T:
            tcs = tcs[::4]
        tcs = tcs + [c for c in CURATED] + [{"a\":0,\"b": 0}, {"a": 0, "b": 0}, {"a.b": 1}, {"a": {"b": 1}}, {"a": [{"b": 1, "a": 2}]}, {"a": [{"a": 2, "b": 1}, 0]}]
        R.scope("to_string", "%d contexts over keys {a,b}, depth <= 2, leaves {0,'0',None,'null',[0],'[0]',''} (%s) + %d curated (depth 3, quotes in keys, "
                "dicts inside lists): three other key insertion orders give the same string; no two different contexts give the same string "
                "(all pairs, via a table)" % (len(tcs) - len(CURATED) - 6, "all" if T else "every fourth", len(CURATED) + 6), T)
        seen = {}
        for ctx in tcs:
            R.case(True, {"ctx": ctx})
            report(R, "chk_tostring", [ctx], chk_tostring(ctx))
            r = call(to_string, ctx)
            if r[0] == "ok":
                other = seen.setdefault(r[1], ctx)
                if other is not ctx and other != ctx:
                    report(R, "chk_tostring_pair", [other, ctx], chk_tostring_pair(other, ctx))
        R.case(True)
        report(R, "chk_tostring_bad", [], chk_tostring_bad())

    def scope_8():   # DeleteContext
        dcs = cs2 if T else cs2[::2]
        leaves2 = [0, "b", None] if T else [0, "b"]
        dps = list(paths(P, 4))
        R.scope("DeleteContext", "%d contexts over keys {a,b}, depth <= 2, leaves %r (%s) x all %d paths of length 0..4 over {a,b,''} x "
                "notations dotted string / list / tuple: exactly the addressed item disappears, absent or through-a-scalar paths are ignored, data "
                "untouched, no non-Lena exception" % (len(dcs), leaves2, "all" if T else "every second", len(dps)), T)
        for ctx in dcs:
            for ks in dps:
                for notation in ("dotted-string", "list", "tuple"):
                    if notation == "dotted-string" and ks == [""]:
                        continue
                    R.case(True, {"ctx": ctx, "key": ks, "notation": notation})
                    report(R, "chk_delete", [ctx, ks, notation], chk_delete(ctx, ks, notation))
        for ctx in CURATED:
            for ks in dps:
                R.case(True)
                report(R, "chk_delete", [ctx, ks, "list"], chk_delete(ctx, ks, "list"))
        R.case(True)
        report(R, "chk_delete_nocontext", [], chk_delete_nocontext())

    def scope_9():   # UpdateContext
        updates = [7, 0, None, {"k": 1}, {"b": {"z": [1]}}, [1, [2]],
                   "lit", "", "{{a}}", "x{{a.b}}_{{b}}", "{{b.a.b}}{{a}}", "{{c}}-", "{{a.b}}", "{{b.a.b}}", "{{c}}", "{{a.b.a.b}}",
                   "{{a}}{{b}}", "{{a}}x"] + MALFORMED_JINJA
        subs = [".".join(p) for p in paths(["a", "b"], 3, 1)] + ["a..b", ".a", "a.", "a.b.a.b"]
        if not T:
            subs = ["a", "a.b", "b.a", "a.b.a", "a..b", ".a", "a.b.a.b"]
        uctx = CURATED + (rng.sample(cs3, 10) if T else [])
        R.scope("UpdateContext (option matrix, frame, deep copy)",
                "%d updates (simple incl. falsy and mutable, literal, formatting strings of 0..2 fields, context values, malformed templates) x all %d "
                "combinations of value/default{unset,None,dict}/skip_on_missing/raise_on_missing/recursively x subcontexts %r (+ '', non-strings for "
                "construction) x %d contexts of depth <= 3: LenaValueError/LenaTypeError exactly for the documented conflicts; otherwise exactly the "
                "addressed item becomes the value / rendered template / deep copy, missing keys handled as configured, data untouched"
                % (len(updates), len(opts), subs, len(uctx)), False)
        for update in updates:
            for o in opts:
                for sub in ("", 5, None, ["a"]):
                    R.case(True)
                    report(R, "chk_uc", [[], sub, update, o], chk_uc([], sub, update, o))
                kind, errs = ref_uc_init("a", update, o)
                for sub in (subs if not errs else subs[:1]):
                    fails = chk_uc(uctx, sub, update, o)
                    for _ in uctx if not errs else [0]:
                        R.case(True, {"sub": sub, "update": update, "options": o})
                    # report with the single offending context for a short replay
                    for fid, what in fails:
                        if R.fail_counts.get(fid, 0) >= 3:
                            R.fail(fid, what)
                            continue
                        bad = [c for c in uctx if any(f == fid for f, _ in chk_uc([c], sub, update, o))][:1]
                        R.fail(fid, what, {"checker": "chk_uc", "args": [bad, sub, update, o]}, {"fn": "chk_uc", "args": [fid, bad, sub, update, o]})
        o0 = {"value": False, "default": UNSET, "skip": False, "rais": False, "rec": True}
        for update in (7, {"k": 1}, "lit", "{{a}}"):
            R.case(True)
            report(R, "chk_uc", [[{}], "a.b", update, o0, True], chk_uc([{}], "a.b", update, o0, True))

    def scope_10():   # meta elements
        mvals = [0, {"b": {"z": [1]}}, [1], "lit", "{{a}}", "x{{a.b}}_{{b}}"]
        mkeys = [p for p in paths(["a", "b"], 2, 1)] + [["a", "", "b"], ["a", "b", "a", "b"]]
        R.scope("SetContext / UpdateContextFromStatic", "%d contexts x %d keys x %d values: the static context gets exactly the addressed item, "
                "_get_context returns copies, LenaKeyError while a template field is absent; the runtime update merges a deep copy into each value of "
                "a 3-value flow" % (len(CURATED), len(mkeys), len(mvals)), False)
        for ctx in CURATED:
            for ks in mkeys:
                for v in mvals:
                    R.case(True, {"ctx": ctx, "key": ".".join(ks), "value": v})
                    report(R, "chk_meta", [ctx, ks, v], chk_meta(ctx, ks, v))

    def scope_11():   # random breadth
        n = 15000 if T else 1500
        RK = ["a", "b", "c", ""]
        RP = ["a", "b", "c", "", "x", "0"]
        R.scope("all functions, random contexts", "%d random contexts over keys {a,b,c,''}, depth <= 3, uniquely tagged leaves incl. falsy ones, "
                "each with a random path of length 0..4 over {a,b,c,'',x,'0'} (half of them chosen among the present paths): get_recursively, "
                "contains, DeleteContext, format_context (0..3 random fields), format_update_with, to_string, UpdateContext with a random "
                "option combination" % n, False)
        dflt = ["default"]
        for _ in range(n):
            ctx = rand_ctx(rng, RK, 3, [0])
            ks = [rng.choice(RP) for _ in range(rng.randint(0, 4))]
            if rng.random() < 0.5:
                ks, cur = [], ctx
                while isinstance(cur, dict) and cur and rng.random() < 0.8:
                    k = rng.choice(sorted(cur))
                    ks.append(k)
                    cur = cur[k]
                if rng.random() < 0.3:
                    ks.append(rng.choice(RP))
            R.case(True, {"ctx": ctx, "path": ks})
            fails = chk_get(ctx, ks, (UNSET, dflt))
            for fid, what in fails:
                R.fail(fid, what, {"checker": "chk_get", "args": [ctx, ks]}, {"fn": "chk_get", "args": [fid, ctx, ks, [UNSET, ["default"]]]})
            if ks:
                report(R, "chk_contains", [ctx, ks], chk_contains(ctx, ks))
            notation = rng.choice(["dotted-string", "list", "tuple"])
            if not (notation == "dotted-string" and ks == [""]):
                report(R, "chk_delete", [ctx, ks, notation], chk_delete(ctx, ks, notation))
            nice = [k for k in ks if k] or ["a"]
            p = []
            for i in range(rng.randint(0, 3)):
                p.append(["L", rng.choice(["x", "_", "a.b", " "])])
                p.append(["F", ".".join(nice[:rng.randint(1, len(nice))]) if rng.random() < 0.7 else rng.choice(["a", "b.a", "c.c.c", "q"]), ""])
            report(R, "chk_fmt", [p, ctx], chk_fmt(p, ctx))
            v = rng.choice([0, {"a": {"n": 1}}, "lit", tpl_text(p), ["l"]])
            if ks != [""] and not (isinstance(v, str) and has_empty_component(p)):
                report(R, "chk_fuw", [ctx, ks, v], chk_fuw(ctx, ks, v))
            report(R, "chk_tostring", [ctx], chk_tostring(ctx))
            if ks and ks != [""]:
                o = rng.choice(opts)
                jp = [x for x in p if not (x[0] == "F" and not all(c.isidentifier() for c in x[1].split(".")))]
                src = ".".join(nice)
                update = rng.choice([7, {"a": {"n": [1]}}, "lit", tpl_text(jp), "{{%s}}" % src, "{{%s}}" % src, "{{b.a}}"])
                if isinstance(update, str) and "{" in update and jinja_pieces(update) is None and not (o["value"] and is_single_field(update)):
                    update = "lit"
                fails = chk_uc([ctx], ".".join(ks), update, o)
                report(R, "chk_uc", [[ctx], ".".join(ks), update, o], fails)

    # the law first, so that its witnesses are the ones kept for the shared failure id
    for fn in (scope_2, scope_1, scope_3, scope_4, scope_5, scope_6, scope_7, scope_8, scope_9, scope_10, scope_11):
        HANGS[0] = 0
        t0 = time.time()
        try:
            fn()
        except TooManyHangs:
            R.fail("harness/scope-abandoned-after-5-non-terminating-calls", "scope %r abandoned: 5 calls of the real code did not return within 2 s "
                   "(see the .../raises-Timeout failures)" % (R.cur["function"] if R.cur else fn.__name__))
        if os.environ.get("C08_TIMING"):
            sys.stderr.write("%-10s %6.2f s\n" % (fn.__name__, time.time() - t0))


if __name__ == "__main__":
    R = Run("C08", dict((name, replayer(name)) for name in REPLAY))
    sys.exit(R.main(body, "real lena.context / lena.meta functions against the reference lookup/set_path/del_path/render written from the "
                          "property; a case is non-trivial when the real function was executed and its result, the context afterwards and "
                          "the exception class were compared with the reference; cases are distinct by construction of the enumerations"))
