"""C15 bounded stand-in: selectors evaluate compositionally; GroupBy partitions by the selected context.

Real Selector/And/Or/Not/SelectContext/Filter are compared with the three-valued reference evaluator of DESIGN
Appendix A (True / False / Raised, short-circuit left to right; raise_on_error reading of DESIGN section 9: one
flag for the whole specification, Not/And/Or/Selector/SelectContext objects nested as objects are built with the same
flag).  Real GroupBy is compared with the reference partition "two contexts share a group iff they agree on every key
path whose longest prefix listed in group_by or merge is a group_by entry" (agree = both absent, both dictionaries, or
equal scalars), over all key sets accepted by make_include_exclude_tree in a small alphabet.

A string leaf is *defined* by the property as lena.context.contains, so contains (property C08) is the primitive of
the reference for strings; everything else in the reference is written from the property text."""
import copy
import itertools
import json
import os
import sys
sys.path.insert(0, os.path.dirname(os.path.dirname(os.path.abspath(__file__))))
from bounded.common import Run, watchdog, Timeout

import lena.core
import lena.context
import lena.flow
from lena.flow import Selector, And, Or, Not, SelectContext, Filter, GroupBy


# ---------------------------------------------------------------------------------------------------------------------
# values and leaves (referred to by name / index so that witnesses are JSON)
# ---------------------------------------------------------------------------------------------------------------------
class Boom(Exception):
    pass


class Base(object):
    def __repr__(self):
        return "%s()" % type(self).__name__


class Derived(Base):
    pass


class CallableObj(object):
    """a callable instance (not a class): selects values whose data is the integer 1"""

    def __call__(self, v):
        return ref_data(v) == 1 and not isinstance(ref_data(v), bool)

    def __repr__(self):
        return "CallableObj()"


def ref_is_pair(v):
    return isinstance(v, tuple) and len(v) == 2 and isinstance(v[1], dict)


def ref_data(v):
    return v[0] if ref_is_pair(v) else v


def ref_context(v):
    return v[1] if ref_is_pair(v) else {}


def _boom1(v):
    raise Boom("boom1")


def _boom2(v):
    raise Boom("boom2")


def _keyerr(v):            # partial: raises on values without the key
    return v[1]["a"]       # TypeError / IndexError / KeyError when absent; the (possibly falsy) value otherwise


def _lenakeyerr(v):
    raise lena.core.LenaKeyError("from the leaf")


LEAVES = {
    "s:a": "a", "s:a.b": "a.b", "s:a.b.c": "a.b.c", "s:b": "b", "s:a.b.2": "a.b.2", "s:a.x.c": "a.x.c", "s:": "",
    # the value addressed by the last-but-one component is falsy / not a string
    "s:a.0": "a.0", "s:b.0": "b.0", "s:a.b.0": "a.b.0", "s:a.False": "a.False", "s:a.None": "a.None", "s:a.": "a.",
    "s:a.{}": "a.{}", "s:a.b.1": "a.b.1",
    "c:int": int, "c:str": str, "c:bool": bool, "c:tuple": tuple, "c:Base": Base, "c:Derived": Derived,
    "f:true": lambda v: True, "f:false": lambda v: False, "f:yes": lambda v: "yes", "f:zero": lambda v: 0,
    "f:empty": lambda v: [], "f:obj": CallableObj(), "f:haspair": ref_is_pair,
    "r:boom1": _boom1, "r:boom2": _boom2, "r:keyerr": _keyerr, "r:lenakeyerr": _lenakeyerr,
}

VALUES = [
    1, 0, "s", "", True, 2.5, None, (1, 2), Derived(), Base(),
    (1, {}), (0, {"a": 1}), ("s", {"a": {"b": 2}}), (2.5, {"a": "b"}), ((1, 2), {"a": {"b": {"c": 3}}}),
    (Derived(), {"b": 1}), (1, {"a": "xb"}), (True, {"a": {"b": 1}, "b": 0}), ("", {"a": 0}), (None, {"a": {}}),
    (1, {"a": False}), (1, {"a": None}), (1, {"a": ""}), (1, {"a": {"b": 0}}), (1, {"a": 0.0, "b": ""}),
]
QUICK_VALUES = [0, 4, 8, 10, 11, 12, 13, 16, 17, 18, 20, 21, 23]          # indices into VALUES

PREDS = {
    "p:true": lambda sub: True, "p:false": lambda sub: False, "p:isdict": lambda sub: isinstance(sub, dict),
    "p:truthy": lambda sub: sub, "p:eq1": lambda sub: sub == 1, "p:has_b": lambda sub: "b" in sub,
    "p:boom": _boom1, "p:lenakeyerr": _lenakeyerr,
}
CTX_KEYS = ["", "a", "b", "a.b", "a.b.c", ["a", "b"], ["a"], [], {"a": "b"}, {"a": {"b": "c"}}]


# ---------------------------------------------------------------------------------------------------------------------
# reference evaluator (DESIGN Appendix A eval_spec), three-valued
# ---------------------------------------------------------------------------------------------------------------------
class Raised(object):
    def __init__(self, exc):
        self.sig = (type(exc).__name__, str(exc))

    def __repr__(self):
        return "raises %s(%r)" % self.sig


ABSENT = ("<absent>",)


def ref_parse_key(key):
    if isinstance(key, str):
        return [k for k in key.split(".") if k]
    if isinstance(key, list):
        return list(key)
    res = []                      # {"a": {"b": "c"}} addresses a, b, c
    while isinstance(key, dict) and key:
        (k, key), = key.items()
        res.append(k)
    if not isinstance(key, dict):
        res.append(key)
    return res


def ref_sub(ctx, keys):
    cur = ctx
    for k in keys:
        if not isinstance(cur, dict) or k not in cur:
            return ABSENT
        cur = cur[k]
    return cur


def ref_contains(d, s):
    """lena.context.contains as documented: dots mean nested sub-dictionaries, a string without dots a key of d; when
    the last-but-one component reaches a value that is not a dictionary, its str() is compared with the last component"""
    levels = s.split(".")
    if len(levels) < 2:
        return s in d
    cur = d
    for key in levels[:-1]:
        if not isinstance(cur, dict) or key not in cur:
            return False
        cur = cur[key]
    if isinstance(cur, dict):
        return levels[-1] in cur
    return str(cur) == levels[-1]


def eval_leaf(leaf, v, roe):
    try:
        if isinstance(leaf, str):
            r = ref_contains(ref_context(v), leaf)              # "a string tests the context with contains"
        elif isinstance(leaf, type):
            r = isinstance(ref_data(v), leaf)                   # "a class tests the type of the data"
        else:
            r = leaf(v)                                         # "a callable is applied"
    except Exception as e:
        return Raised(e) if roe else False
    return bool(r)


def eval_term(t, v, roe):
    k = t[0]
    if k == "L":
        return eval_leaf(LEAVES[t[1]], v, roe)
    if k == "S":
        return eval_term(t[1], v, roe)
    if k in ("or", "Or"):
        for s in t[1]:
            r = eval_term(s, v, roe)
            if isinstance(r, Raised) or r:
                return r
        return False
    if k in ("and", "And"):
        for s in t[1]:
            r = eval_term(s, v, roe)
            if isinstance(r, Raised) or not r:
                return r
        return True
    if k == "not":
        r = eval_term(t[1], v, roe)
        return r if isinstance(r, Raised) else (not r)
    if k == "ctx":
        sub = ref_sub(ref_context(v), ref_parse_key(t[1]))
        if sub is ABSENT:
            return False
        try:
            return bool(PREDS[t[2]](sub))
        except Exception as e:
            return Raised(e) if roe else False
    raise ValueError(t)


# ---------------------------------------------------------------------------------------------------------------------
# building the real objects
# ---------------------------------------------------------------------------------------------------------------------
def build_raw(t, roe):
    k = t[0]
    if k == "L":
        return LEAVES[t[1]]
    if k == "S":
        return Selector(build_raw(t[1], roe), raise_on_error=roe)
    if k == "or":
        return [build_raw(s, roe) for s in t[1]]
    if k == "Or":
        return Or([build_raw(s, roe) for s in t[1]], raise_on_error=roe)
    if k == "and":
        return tuple(build_raw(s, roe) for s in t[1])
    if k == "And":
        return And(tuple(build_raw(s, roe) for s in t[1]), raise_on_error=roe)
    if k == "not":
        return Not(build_raw(t[1], roe), raise_on_error=roe)
    if k == "ctx":
        return SelectContext(copy.deepcopy(t[1]), PREDS[t[2]], raise_on_error=roe)
    raise ValueError(t)


def build(t, roe):
    raw = build_raw(t, roe)
    return raw if isinstance(raw, Selector) else Selector(raw, raise_on_error=roe)


def run_real(t, v, roe, cache=None):
    """observable outcome of the real selector: True / False / Raised / ('BUILD', exc) / 'NON-TERMINATION'.
    cache (per specification and flag) keeps the built objects of sub-terms so that blame() stays cheap"""
    try:
        with watchdog(2):
            if cache is not None and id(t) in cache:
                sel = cache[id(t)]
            else:
                try:
                    sel = build(t, roe)
                except Timeout:
                    raise
                except Exception as e:
                    sel = ("BUILD", type(e).__name__, str(e)[:80])
                if cache is not None:
                    cache[id(t)] = sel
            if isinstance(sel, tuple):
                return sel
            try:
                return bool(sel(v))
            except Timeout:
                raise
            except Exception as e:
                return Raised(e)
    except Timeout:
        return "NON-TERMINATION"


def same(got, exp):
    if isinstance(exp, Raised):
        return isinstance(got, Raised) and got.sig == exp.sig
    return got is exp


NODE = {"S": "Selector-object", "or": "list-OR", "Or": "Or-object", "and": "tuple-AND", "And": "And-object",
        "not": "Not", "ctx": "SelectContext"}


def node_kind(t):
    if t[0] == "L":
        return {"s": "str-leaf", "c": "class-leaf", "f": "callable-leaf", "r": "raising-callable-leaf"}[t[1][0]]
    return NODE[t[0]]


def children(t):
    if t[0] in ("or", "Or", "and", "And"):
        return list(t[1])
    if t[0] in ("S", "not"):
        return [t[1]]
    return []


def blame(t, v, roe, cache=None):
    """smallest sub-term that disagrees on its own (so that the fid names the construct that is wrong)"""
    for c in children(t):
        if not same(run_real(c, v, roe, cache), eval_term(c, v, roe)):
            return blame(c, v, roe, cache)
    return t


def mismatch_kind(got, exp, roe):
    if got == "NON-TERMINATION":
        return "non-termination"
    if isinstance(got, tuple):
        return "constructor-raises-" + got[1]
    if isinstance(got, Raised) and not isinstance(exp, Raised):
        return ("raises-although-raise_on_error-False" if not roe else "raises-although-no-leaf-evaluated-raises")
    if isinstance(exp, Raised) and not isinstance(got, Raised):
        return "exception-swallowed-although-raise_on_error-True"
    if isinstance(exp, Raised):
        return "other-exception-propagates"
    return "selected-although-reference-not" if got else "not-selected-although-reference-selected"


def check_selector_many(R, t, roe, vis):
    """build once, evaluate on every value; any disagreement is re-examined (and named) by check_selector"""
    sel, cache = None, {}
    try:
        with watchdog(2):
            sel = build(t, roe)
    except Exception:
        pass
    for vi in vis:
        R.case(True, {"term": show(t), "raise_on_error": roe, "value": repr(VALUES[vi])} if R.cases < 2 else None)
        if sel is not None:
            v = VALUES[vi]
            try:
                with watchdog(2):
                    try:
                        got = bool(sel(v))
                    except Timeout:
                        raise
                    except Exception as e:
                        got = Raised(e)
            except Timeout:
                got = "NON-TERMINATION"
            if same(got, eval_term(t, v, roe)):
                continue
        if check_selector(R, t, roe, vi, cache) and sel is not None:
            R.fail("Selector/result-depends-on-previous-calls", "selector %s raise_on_error=%r on value %r differs between a fresh "
                   "and a used object" % (show(t), roe, VALUES[vi]), {"term": t, "raise_on_error": roe, "value_index": vi})


def has_direct_ctx_child(t):
    return any(c[0] == "ctx" for c in children(t))


def check_selector(R, t, roe, vi, cache=None):
    v = VALUES[vi]
    exp = eval_term(t, v, roe)
    got = run_real(t, v, roe)                     # always on a freshly built object
    if same(got, exp):
        return True
    b = blame(t, v, roe, cache)
    gb, eb = run_real(b, v, roe, cache), eval_term(b, v, roe)
    if same(gb, eb):                              # only a used object of the sub-term agrees; name the whole term
        b, gb, eb = t, got, exp
    fid = "%s/%s" % (node_kind(b), mismatch_kind(gb, eb, roe))
    if isinstance(gb, tuple) and has_direct_ctx_child(b):
        # the SelectContext works alone (blame would have descended otherwise) but cannot be nested as an object
        fid = "SelectContext/nested-in-a-specification/" + mismatch_kind(gb, eb, roe)
    R.fail(fid, "selector %s raise_on_error=%r on value %r: got %r, reference %r (smallest disagreeing sub-term %s: %r vs %r)"
           % (show(t), roe, v, got, exp, show(b), gb, eb),
           {"term": t, "raise_on_error": roe, "value_index": vi, "value": repr(v), "blamed": b},
           {"fn": "replay_selector", "args": [t, roe, vi]})
    return False


def show(t):
    k = t[0]
    if k == "L":
        return t[1].split(":", 1)[1] if t[1][0] in "sc" else t[1]
    if k == "ctx":
        return "SelectContext(%r,%s)" % (t[1], t[2])
    if k == "S":
        return "Selector(%s)" % show(t[1])
    if k == "not":
        return "Not(%s)" % show(t[1])
    inner = ", ".join(show(s) for s in t[1])
    return {"or": "[%s]", "Or": "Or([%s])", "and": "(%s,)", "And": "And((%s,))"}[k] % inner


def replay_selector(t, roe, vi):
    return not same(run_real(t, VALUES[vi], roe), eval_term(t, VALUES[vi], roe))


# ---------------------------------------------------------------------------------------------------------------------
# SelectContext alone
# ---------------------------------------------------------------------------------------------------------------------
def check_selctx(R, key, pname, roe, v, vjson):
    seen = []
    pred = PREDS[pname]

    def recording(sub):
        seen.append(sub)
        return pred(sub)
    sub = ref_sub(ref_context(v), ref_parse_key(key))
    if sub is ABSENT:
        exp, exp_seen = False, []
    else:
        exp_seen = [sub]
        try:
            exp = bool(pred(sub))
        except Exception as e:
            exp = Raised(e) if roe else False
    try:
        with watchdog(2):
            sc = SelectContext(copy.deepcopy(key), recording, raise_on_error=roe)
            try:
                got = bool(sc(v))
            except Timeout:
                raise
            except Exception as e:
                got = Raised(e)
    except Timeout:
        got = "NON-TERMINATION"
    bad = None
    if not same(got, exp):
        if sub is ABSENT:
            bad = "absent-subcontext-not-False"
        else:
            bad = "present-subcontext/" + mismatch_kind(got, exp, roe)
    elif len(seen) != len(exp_seen) or any(a is not b and a != b for a, b in zip(seen, exp_seen)):
        bad = "predicate-applied-to-something-else"
    if bad:
        R.fail("SelectContext/" + bad,
               "SelectContext(%r, %s, raise_on_error=%r)(%r): got %r (predicate applied to %r), reference %r (sub-context %r)"
               % (key, pname, roe, v, got, seen, exp, "absent" if sub is ABSENT else sub),
               {"key": key, "pred": pname, "raise_on_error": roe, "value": vjson},
               {"fn": "replay_selctx", "args": [key, pname, roe, vjson]})
    return not bad


def from_json_value(vjson):
    return (vjson[1], vjson[2]) if vjson[0] == "pair" else vjson[1]


class _Quiet(object):
    def __init__(self):
        self.n = 0

    def fail(self, *a):
        self.n += 1


def replay_selctx(key, pname, roe, vjson):
    q = _Quiet()
    check_selctx(q, key, pname, roe, from_json_value(vjson), vjson)
    return q.n > 0


# ---------------------------------------------------------------------------------------------------------------------
# Filter
# ---------------------------------------------------------------------------------------------------------------------
class Sink(object):
    def __init__(self):
        self.got = []

    def fill(self, v):
        self.got.append(v)


def check_filter(R, t, mode, roe, idxs):
    """mode 'raw': Filter(specification) (default raise_on_error=True); 'sel': Filter(Selector(spec, roe))"""
    flow = [VALUES[i] for i in idxs]
    exp, exp_exc = [], None
    for v in flow:
        r = eval_term(t, v, roe)
        if isinstance(r, Raised):
            exp_exc = r
            break
        if r:
            exp.append(v)
    bad = []
    try:
        with watchdog(3):
            f = Filter(build_raw(t, roe)) if mode == "raw" else Filter(build(t, roe))
            # run
            got, got_exc = [], None
            try:
                for v in f.run(iter(flow)):
                    got.append(v)
            except Timeout:
                raise
            except Exception as e:
                got_exc = Raised(e)
            if len(got) != len(exp) or any(a is not b for a, b in zip(got, exp)):
                bad.append(("run-keeps-other-than-the-selected", "run yields %r, reference %r" % (got, exp)))
            elif (got_exc is None) != (exp_exc is None) or (exp_exc is not None and got_exc.sig != exp_exc.sig):
                bad.append(("run-exception", "run ends with %r, reference %r" % (got_exc, exp_exc)))
            # fill_into
            sink, got_exc = Sink(), None
            for v in flow:
                try:
                    f.fill_into(sink, v)
                except Timeout:
                    raise
                except Exception as e:
                    got_exc = Raised(e)
                    break
            if len(sink.got) != len(exp) or any(a is not b for a, b in zip(sink.got, exp)):
                bad.append(("fill_into-fills-other-than-the-selected", "fill_into filled %r, reference %r" % (sink.got, exp)))
            elif (got_exc is None) != (exp_exc is None) or (exp_exc is not None and got_exc.sig != exp_exc.sig):
                bad.append(("fill_into-exception", "fill_into ends with %r, reference %r" % (got_exc, exp_exc)))
    except Timeout:
        bad.append(("non-termination", "did not terminate"))
    except Exception as e:
        if check_selector(R, t, roe, idxs[0] if idxs else 0):      # names the construct that cannot be built
            bad.append(("constructor-raises-" + type(e).__name__, str(e)[:80]))
    for kind, txt in bad:
        R.fail("Filter/" + kind, "Filter(%s) [%s, raise_on_error=%r] on flow %r: %s" % (show(t), mode, roe, flow, txt),
               {"term": t, "mode": mode, "raise_on_error": roe, "flow_indices": idxs},
               {"fn": "replay_filter", "args": [t, mode, roe, idxs]})
    return not bad


def replay_filter(t, mode, roe, idxs):
    q = _Quiet()
    check_filter(q, t, mode, roe, idxs)
    return q.n > 0


# ---------------------------------------------------------------------------------------------------------------------
# GroupBy: reference partition
# ---------------------------------------------------------------------------------------------------------------------
def to_path(key):
    return tuple(key.split(".")) if key else ()


def listed_map(group_by, merge):
    m = {}
    for k in group_by:
        m[to_path(k)] = "g"
    for k in merge:
        m[to_path(k)] = "m"
    return m


def is_selected(listed, p, cache=None):
    """the longest prefix of p listed in group_by or merge is a group_by entry"""
    if cache is not None and p in cache:
        return cache[p]
    r = None
    for n in range(len(p), -1, -1):
        kind = listed.get(p[:n])
        if kind is not None:
            r = kind == "g"
            break
    if cache is not None:
        cache[p] = r
    return r


def scalar_sig(v):
    return json.dumps(v, sort_keys=True)       # 1, "1", None, [1] are distinct JSON scalars


def ctx_entries(ctx, prefix=()):
    """every key path present in ctx with its state: 'D' for a dictionary, the JSON text for anything else"""
    out = []
    for k, v in ctx.items():
        p = prefix + (k,)
        if isinstance(v, dict):
            out.append((p, "D"))
            out.extend(ctx_entries(v, p))
        else:
            out.append((p, scalar_sig(v)))
    return out


def ref_key(listed, entries, cache):
    return frozenset(e for e in entries if is_selected(listed, e[0], cache))


def path_states(c1, c2):
    """(path, state in c1, state in c2) for every path present in either context, shortest first; states are
    'A' absent, 'D' dictionary, or the JSON text of the scalar"""
    m1, m2 = dict(ctx_entries(c1)), dict(ctx_entries(c2))
    return [(p, m1.get(p, "A"), m2.get(p, "A")) for p in sorted(set(m1) | set(m2), key=lambda p: (len(p), p))]


def _kind(state):
    return {"A": "absent", "D": "dict"}.get(state, "scalar")


def parent_kind(listed, p):
    """kind ('g' / 'm') of the longest listed proper prefix of p"""
    for n in range(len(p) - 1, -1, -1):
        if p[:n] in listed:
            return listed[p[:n]]
    return None


def classify_merge(listed, c1, c2):
    """c1, c2 share a real group although they disagree on a selected path: name the clause"""
    for p, s1, s2 in path_states(c1, c2):
        if s1 == s2 or not is_selected(listed, p):
            continue
        k1, k2 = _kind(s1), _kind(s2)
        deeper = any(len(q) > len(p) and q[:len(p)] == p for q in listed)
        where = "group_by-entry-inside-merge" if parent_kind(listed, p) == "m" else "inside-group_by"
        if "scalar" in (k1, k2) and deeper:
            # a scalar found where a deeper listed path expects a dictionary
            return "GroupBy/wrong-merge/scalar-above-listed-key-dropped/" + where, p
        kind = "scalar-values-differ" if k1 == k2 else "-vs-".join(sorted([k1, k2]))
        return "GroupBy/wrong-merge/%s/%s%s" % (kind, where, "/above-listed-key" if deeper else ""), p
    return "GroupBy/wrong-merge/unclassified", None


def classify_split(listed, c1, c2):
    """c1, c2 agree on every selected path but are in different real groups: name the clause"""
    for p, s1, s2 in path_states(c1, c2):
        if (s1 == "D") == (s2 == "D") or is_selected(listed, p):
            continue
        if any(kind == "g" and len(q) > len(p) and q[:len(p)] == p for q, kind in listed.items()):
            where = "merge-entry-inside-group_by" if parent_kind(listed, p) == "g" else "inside-merge"
            return "GroupBy/split/empty-shell-of-unselected-path/" + where, p
    return "GroupBy/split/agree-on-every-selected-path", None


def gb_arg(keys):
    return keys[0] if len(keys) == 1 else tuple(keys)


def make_groupby(group_by, merge):
    return GroupBy(gb_arg(group_by), gb_arg(merge))


def properly_nested(listed):
    """every listed key lies directly inside a key of the other kind (the documented requirement)"""
    for p, kind in listed.items():
        if not p:
            continue
        for n in range(len(p) - 1, -1, -1):
            if p[:n] in listed:
                if listed[p[:n]] == kind:
                    return False
                break
    return True


def partition_check(R, group_by, merge, ctxs, entries, order, replayable_ctxs=True):
    """fill (tag, ctx) in the given order into one GroupBy and compare its groups with the reference partition.
    returns 'rejected' / 'ok' / 'bad'"""
    listed = listed_map(group_by, merge)
    try:
        with watchdog(2):
            G = make_groupby(group_by, merge)
    except lena.core.LenaValueError:
        if properly_nested(listed):
            R.fail("GroupBy/rejects-properly-nested-keys", "GroupBy(group_by=%r, merge=%r) raises LenaValueError although "
                   "every key lies directly inside a key of the other kind" % (group_by, merge),
                   {"group_by": group_by, "merge": merge}, {"fn": "replay_rejects", "args": [group_by, merge]})
            return "bad"
        return "rejected"
    except Timeout:
        R.fail("GroupBy/init-non-termination", "GroupBy(%r, %r) does not terminate" % (group_by, merge),
               {"group_by": group_by, "merge": merge})
        return "bad"
    except Exception as e:
        R.fail("GroupBy/init-raises-" + type(e).__name__, "GroupBy(group_by=%r, merge=%r) raises %s: %s"
               % (gb_arg(group_by), gb_arg(merge), type(e).__name__, str(e)[:100]), {"group_by": group_by, "merge": merge})
        return "bad"
    what = "GroupBy(group_by=%r, merge=%r)" % (gb_arg(group_by), gb_arg(merge))
    values = []
    for tag, i in enumerate(order):
        c = ctxs[i]
        values.append(tag if c is None else (tag, c))        # None stands for a value without context
    before = json.dumps(values)
    try:
        with watchdog(10):
            for v in values:
                G.fill(v)
            groups = [list(g) for g in G.groups.values()]
            computed = [list(g) for g in G.compute()]
    except Timeout:
        R.fail("GroupBy/fill-non-termination", what + ".fill does not terminate", {"group_by": group_by, "merge": merge})
        return "bad"
    except Exception as e:
        R.fail("GroupBy/fill-raises-" + type(e).__name__, "%s.fill raises %s: %s" % (what, type(e).__name__, str(e)[:100]),
               {"group_by": group_by, "merge": merge, "contexts": [ctxs[i] for i in order][:20]},
               {"fn": "replay_partition", "args": [group_by, merge, [ctxs[i] for i in order]]} if replayable_ctxs else None)
        return "bad"
    ok = True
    rp = {"fn": "replay_partition", "args": [group_by, merge, [ctxs[i] for i in order]]} if replayable_ctxs and len(order) <= 40 else None
    if json.dumps(values) != before:
        ok = False
        R.fail("GroupBy/fill-changes-the-filled-values", what + ": the filled values were modified", {"group_by": group_by, "merge": merge}, rp)
    # the groups hold exactly the filled values, each once, in arrival order
    gid = {}
    for g_i, g in enumerate(groups):
        tags = []
        for v in g:
            tag = v[0] if isinstance(v, tuple) else v
            if not isinstance(tag, int) or tag < 0 or tag >= len(values) or values[tag] is not v or tag in gid:
                ok = False
                R.fail("GroupBy/groups-are-not-the-filled-values", "%s: group %d holds %r, which is not one filled value held once"
                       % (what, g_i, v), {"group_by": group_by, "merge": merge}, rp)
                return "bad"
            gid[tag] = g_i
            tags.append(tag)
        if tags != sorted(tags):
            ok = False
            R.fail("GroupBy/arrival-order-inside-group", "%s: a group holds the arrival numbers %r" % (what, tags),
                   {"group_by": group_by, "merge": merge, "tags": tags}, rp)
    if len(gid) != len(values):
        ok = False
        R.fail("GroupBy/filled-value-lost", "%s: %d of %d filled values are in no group" % (what, len(values) - len(gid), len(values)),
               {"group_by": group_by, "merge": merge}, rp)
        return "bad"
    if sorted(map(repr, computed)) != sorted(map(repr, groups)):
        ok = False
        R.fail("GroupBy/compute-differs-from-groups", "%s: compute() yields %d groups, groups has %d" % (what, len(computed), len(groups)),
               {"group_by": group_by, "merge": merge}, rp)
    # reference partition
    cache = {}
    tag_of = {}
    for tag, i in enumerate(order):
        tag_of.setdefault(i, tag)
    rks = {}
    by_ref, by_real = {}, {}
    for i in sorted(tag_of):                                   # contexts are sorted by size: small witnesses first
        rk = ref_key(listed, entries[i], cache)
        rks[i] = rk
        by_ref.setdefault(rk, []).append(i)
        by_real.setdefault(gid[tag_of[i]], []).append(i)
    reported = set()

    def ctx_of(i):
        return {} if ctxs[i] is None else ctxs[i]
    for rk, members in by_ref.items():                         # same reference key, several real groups: split
        first = members[0]
        seen_g = {gid[tag_of[first]]}
        for j in members[1:]:
            g_j = gid[tag_of[j]]
            if g_j in seen_g:
                continue
            seen_g.add(g_j)
            fid, p = classify_split(listed, ctx_of(first), ctx_of(j))
            if fid in reported:
                continue
            reported.add(fid)
            ok = False
            R.fail(fid, "%s puts contexts %r and %r into different groups although they agree on every key path whose longest "
                   "listed prefix is a group_by entry%s" % (what, ctx_of(first), ctx_of(j),
                                                            "" if p is None else " (they differ in the dictionary shell at %r)" % ".".join(p)),
                   {"group_by": group_by, "merge": merge, "context1": ctx_of(first), "context2": ctx_of(j)},
                   {"fn": "replay_pair", "args": [group_by, merge, ctx_of(first), ctx_of(j), True]})
    for g_i, members in by_real.items():                       # one real group, several reference keys: wrong merge
        first = members[0]
        seen_k = {rks[first]}
        for j in members[1:]:
            if rks[j] in seen_k:
                continue
            seen_k.add(rks[j])
            fid, p = classify_merge(listed, ctx_of(first), ctx_of(j))
            if fid in reported:
                continue
            reported.add(fid)
            ok = False
            R.fail(fid, "%s puts contexts %r and %r into one group although they disagree at %r, whose longest listed prefix is a "
                   "group_by entry" % (what, ctx_of(first), ctx_of(j), None if p is None else ".".join(p)),
                   {"group_by": group_by, "merge": merge, "context1": ctx_of(first), "context2": ctx_of(j)},
                   {"fn": "replay_pair", "args": [group_by, merge, ctx_of(first), ctx_of(j), False]})
    return "ok" if ok else "bad"


def replay_pair(group_by, merge, c1, c2, expect_same):
    listed = listed_map(group_by, merge)
    cache = {}
    assert (ref_key(listed, ctx_entries(c1), cache) == ref_key(listed, ctx_entries(c2), cache)) == expect_same
    G = make_groupby(group_by, merge)
    G.fill((0, c1))
    G.fill((1, c2))
    return (len(G.groups) == 1) != expect_same


def replay_partition(group_by, merge, ctxs):
    q = _Quiet()
    res = partition_check(q, group_by, merge, ctxs, [ctx_entries(c or {}) for c in ctxs], list(range(len(ctxs))))
    return q.n > 0


def replay_rejects(group_by, merge):
    try:
        make_groupby(group_by, merge)
    except lena.core.LenaValueError:
        return True
    return False


# ---------------------------------------------------------------------------------------------------------------------
# enumerations
# ---------------------------------------------------------------------------------------------------------------------
def enum_terms(leaves, depth, maxlen):
    """all terms of nesting <= depth: leaves, raw lists / tuples of length 0..maxlen, Not"""
    cur = [["L", n] for n in leaves]
    for _ in range(depth):
        nxt = list(cur)
        for n in range(maxlen + 1):
            for items in itertools.product(cur, repeat=n):
                nxt.append(["or", list(items)])
                nxt.append(["and", list(items)])
        nxt.extend(["not", t] for t in cur)
        cur = nxt
    return cur


def rand_term(rng, depth, leaves, p_ctx=0.0):
    if depth == 0 or rng.random() < 0.25:
        r = rng.random()
        if r < p_ctx:
            return ["ctx", rng.choice(CTX_KEYS), rng.choice(sorted(PREDS))]
        t = ["L", rng.choice(leaves)]
        return ["S", t] if r > 0.9 else t
    k = rng.choice(["or", "or", "Or", "and", "and", "And", "not", "not", "S"])
    if k in ("not", "S"):
        return [k, rand_term(rng, depth - 1, leaves, p_ctx)]
    return [k, [rand_term(rng, depth - 1, leaves, p_ctx) for _ in range(rng.choice([0, 1, 1, 2, 2, 2, 3]))]]


def term_depth(t):
    cs = children(t)
    return 0 if t[0] in ("L", "ctx") else 1 + max([term_depth(c) for c in cs] or [0])


def gen_values(alphabet, depth, scalars):
    """JSON values of dictionary nesting <= depth over the alphabet"""
    if depth == 0:
        return list(scalars) + [{}]
    sub = gen_values(alphabet, depth - 1, scalars)
    out = list(scalars)
    for combo in itertools.product([ABSENT] + sub, repeat=len(alphabet)):
        out.append(copy.deepcopy({k: v for k, v in zip(alphabet, combo) if v is not ABSENT}))
    return out


def reversed_keys(c):
    """an equal dictionary whose keys were inserted in reverse order at every level"""
    return {k: (reversed_keys(v) if isinstance(v, dict) else v) for k, v in reversed(list(c.items()))}


def ctx_size(c):
    return len(json.dumps(c))


def enum_paths(alphabet, depth):
    ps = []
    for n in range(1, depth + 1):
        ps.extend(".".join(p) for p in itertools.product(alphabet, repeat=n))
    return ps


def enum_keysets(paths, maxkeys, minkeys=0):
    """every assignment of group_by / merge to the root and to minkeys..maxkeys other paths"""
    for root in ("g", "m"):
        for n in range(minkeys, maxkeys + 1):
            for chosen in itertools.combinations(paths, n):
                for kinds in itertools.product("gm", repeat=n):
                    gb = ([""] if root == "g" else []) + [p for p, k in zip(chosen, kinds) if k == "g"]
                    mg = ([""] if root == "m" else []) + [p for p, k in zip(chosen, kinds) if k == "m"]
                    yield gb, mg


RICH_SCALARS = [0, 1, 2, "x", "", None, [1], "1"]


def rand_ctx(rng, alphabet, depth, p_dict=0.5):
    c = {}
    for k in alphabet:
        r = rng.random()
        if r < 0.35:
            continue
        if depth > 1 and rng.random() < p_dict:
            c[k] = rand_ctx(rng, alphabet, depth - 1, p_dict)
        else:
            c[k] = rng.choice(RICH_SCALARS + [{}])
    return c


def mutate_ctx(rng, c, alphabet, depth):
    """a copy of c changed at one key path (value changed, removed, scalar <-> dictionary)"""
    c = copy.deepcopy(c)
    cur = c
    for lvl in range(depth):
        k = rng.choice(alphabet)
        if isinstance(cur.get(k), dict) and lvl < depth - 1 and rng.random() < 0.6:
            cur = cur[k]
            continue
        r = rng.random()
        if k in cur and r < 0.3:
            del cur[k]
        elif r < 0.75:
            cur[k] = rng.choice([s for s in RICH_SCALARS if s != cur.get(k, ABSENT) or type(s) != type(cur.get(k))])
        elif lvl < depth - 1:
            cur[k] = rng.choice([{}, {rng.choice(alphabet): rng.choice(RICH_SCALARS)}])
        else:
            cur[k] = {}
        break
    return c


def rand_keyset(rng, alphabet, depth, n):
    """random key set; mostly properly nested (built top-down), sometimes arbitrary"""
    root = rng.choice("gm")
    listed = {(): root}
    tries = 0
    while len(listed) < n + 1 and tries < 50:
        tries += 1
        p = tuple(rng.choice(alphabet) for _ in range(rng.randint(1, depth)))
        if p in listed:
            continue
        if rng.random() < 0.85:
            kind = None
            for m in range(len(p) - 1, -1, -1):
                if p[:m] in listed:
                    kind = "m" if listed[p[:m]] == "g" else "g"
                    break
            # a key inserted above existing ones must keep them alternating too
            if any(len(q) > len(p) and q[:len(p)] == p for q in listed):
                continue
        else:
            kind = rng.choice("gm")
        listed[p] = kind
    gb = sorted(".".join(p) for p, k in listed.items() if k == "g")
    mg = sorted(".".join(p) for p, k in listed.items() if k == "m")
    return gb, mg


# ---------------------------------------------------------------------------------------------------------------------
def body(R):
    rng = R.rng
    th = R.thorough
    vals_idx = list(range(len(VALUES))) if th else QUICK_VALUES

    # ---- 1. selectors, exhaustive to depth 2
    leaves2 = (["s:a.b", "s:a", "s:a.0", "s:a.b.0", "c:int", "f:yes", "f:zero", "r:boom1", "r:keyerr"] if th else
               ["s:a.b", "s:a.0", "c:int", "f:yes", "f:zero", "r:boom1"])
    terms2 = enum_terms(leaves2, 2, 2)
    R.scope("Selector/And/Or/Not vs eval_spec, depth <= 2",
            "all %d specifications of nesting <= 2 (raw lists and tuples of length 0..2, Not) over the leaves %s; "
            "raise_on_error in {True, False}; %d values (plain data, (data, context) pairs, falsy data)"
            % (len(terms2), [l.split(":", 1)[1] or '""' for l in leaves2], len(vals_idx)), True)
    for t in terms2:
        for roe in (True, False):
            check_selector_many(R, t, roe, vals_idx)

    # ---- 2. depth 3 over three-valued constant leaves
    abstract = ["f:true", "f:false", "r:boom1"]
    d2 = enum_terms(abstract, 2, 2)
    d2_only = [t for t in d2 if term_depth(t) == 2]
    lf = [["L", n] for n in abstract]
    terms3 = []
    for x in d2_only:
        terms3.append(["not", x])
        terms3.append(["or", [x]])
        terms3.append(["and", [x]])
        for l in lf:
            terms3.extend([["or", [x, l]], ["or", [l, x]], ["and", [x, l]], ["and", [l, x]]])
    if not th:
        terms3 = terms3[::3]
    R.scope("Selector/And/Or/Not vs eval_spec, depth 3",
            "%s specifications of nesting exactly 3 whose top level is Not(x), [x], (x,), [x, l], [l, x], (x, l), (l, x) with x "
            "any of the %d depth-2 specifications (containers of length 0..2) over the constant leaves true / false / raising "
            "and l such a leaf; both raise_on_error settings; one value: %d specifications"
            % ("all" if th else "every third of the", len(d2_only), len(terms3)), th)
    for t in terms3:
        for roe in (True, False):
            check_selector_many(R, t, roe, [10])

    # ---- 3. random depth <= 3 with every leaf kind and object forms; 3b the same with SelectContext leaves
    all_leaves = sorted(LEAVES)
    for n_rand, p_ctx in ((40000 if th else 2000, 0.0), (10000 if th else 600, 0.15)):
        R.scope("Selector/And/Or/Not vs eval_spec, random" if not p_ctx else "SelectContext nested in specifications vs eval_spec, random",
                "%d random specifications of nesting <= 3 over %d leaves (7 strings incl. one on which contains raises, 6 classes, "
                "7 total and 4 raising callables)%s, containers of length 0..3 given raw or as And / Or / Selector objects built "
                "with the same flag; both raise_on_error settings; %d values"
                % (n_rand, len(all_leaves), " and SelectContext objects (10 keys x 8 predicates)" if p_ctx else "", len(vals_idx)), False)
        for _ in range(n_rand):
            t = rand_term(rng, 3, all_leaves, p_ctx)
            for roe in (True, False):
                check_selector_many(R, t, roe, vals_idx)

    # ---- 4. SelectContext exhaustively
    ctx2 = [c for c in gen_values(["a", "b"], 2, [0, 1]) if isinstance(c, dict)]
    ctx2.sort(key=ctx_size)
    deep = [{"a": {"b": {"c": 1}}}, {"a": {"b": {"c": {}}}}, {"a": {"b": {"c": 0, "d": 1}}, "b": 1}]
    sc_vals = [("pair", i % 3, c) for i, c in enumerate(ctx2 + deep)] + [("data", 5), ("data", "s"), ("data", None)]
    if not th:
        sc_vals = sc_vals[::4] + sc_vals[-6:]
    R.scope("SelectContext.__call__",
            "keys %r x predicates %s x raise_on_error x %d values: %s contexts of nesting <= 2 over {a, b} with scalars {0, 1}, "
            "3 deeper ones, 3 values without context" % (CTX_KEYS, sorted(PREDS), len(sc_vals), "all 361" if th else "every fourth of the 361"), th)
    for key in CTX_KEYS:
        for pname in sorted(PREDS):
            for roe in (True, False):
                for vj in sc_vals:
                    R.case(True)
                    check_selctx(R, key, pname, roe, from_json_value(vj), list(vj))

    # ---- 5. Filter
    n_f = 12000 if th else 1200
    R.scope("Filter.run / Filter.fill_into",
            "%d random specifications of nesting <= 2, flows of 0..7 values drawn with repetition from the %d values; "
            "Filter(specification) and Filter(Selector(specification, raise_on_error)) for both flags; kept values compared by identity"
            % (n_f, len(VALUES)), False)
    for _ in range(n_f):
        t = rand_term(rng, 2, all_leaves, 0.05)
        idxs = [rng.randrange(len(VALUES)) for _ in range(rng.randint(0, 7))]
        for mode, roe in (("raw", True), ("sel", True), ("sel", False)):
            R.case(True)
            check_filter(R, t, mode, roe, idxs)

    # ---- 6. GroupBy, exhaustive key sets over {a, b}, all contexts of nesting <= 2
    n2 = len(ctx2)
    ctxs = ctx2 + [None] + [reversed_keys(c) for c in ctx2[::7]]   # None: a value without context; some contexts arrive
    entries = [ctx_entries(c or {}) for c in ctxs]                 # twice, the second time with the keys inserted in reverse
    order = list(range(len(ctxs)))
    rng.shuffle(order)
    paths = enum_paths(["a", "b"], 3)
    maxkeys = 4 if th else 2
    sc = R.scope("GroupBy.fill / make_include_exclude_tree / IncludeExcludeTree.get vs longest-listed-prefix partition",
                 "every assignment of group_by / merge to the root and to <= %d of the %d key paths of length <= 3 over {a, b} "
                 "(a key in exactly one of the two sets); those accepted by make_include_exclude_tree are filled with all %d "
                 "contexts of nesting <= 2 over {a, b} with scalars {0, 1} (scalars where a listed path expects a dictionary "
                 "included), one value without context and every seventh context once more with reversed key order, %d fills in shuffled "
                 "order" % (maxkeys, len(paths), len(ctx2), len(order)), True)
    acc = 0
    for gb, mg in enum_keysets(paths, maxkeys):
        res = partition_check(R, gb, mg, ctxs, entries, order, replayable_ctxs=False)
        if res != "rejected":
            acc += 1
            R.case(True, {"group_by": gb, "merge": mg})
    sc["bound"] += "; %d key sets accepted" % acc

    if not th:
        # ---- 6b. (quick only; thorough does this exhaustively above) three listed keys, every fourth context
        sub = list(range(0, n2 + 1, 4)) + list(range(n2 + 1, len(ctxs), 3))
        order3 = sub + sub[::5]
        rng.shuffle(order3)
        sc = R.scope("GroupBy.fill / make_include_exclude_tree / IncludeExcludeTree.get vs longest-listed-prefix partition, 3 keys",
                     "every assignment of group_by / merge to the root and to exactly 3 of the %d key paths of length <= 3 over "
                     "{a, b}; accepted ones filled with every fourth of the contexts above (%d fills)" % (len(paths), len(order3)), False)
        acc = 0
        for gb, mg in enum_keysets(paths, 3, 3):
            res = partition_check(R, gb, mg, ctxs, entries, order3, replayable_ctxs=False)
            if res != "rejected":
                acc += 1
                R.case(True, {"group_by": gb, "merge": mg})
        sc["bound"] += "; %d key sets accepted" % acc

    # ---- 6c. chains of alternation (a listed key inside a listed key inside a listed key ...) in EVERY writing order
    subc = list(range(0, n2 + 1, 3)) + list(range(n2 + 1, len(ctxs), 2))
    orderc = subc + subc[::7]
    rng.shuffle(orderc)
    sc = R.scope("GroupBy: chains of 3..4 nested listed keys with alternating kinds, every order of writing them",
                 "all chains '' < p1 < p2 < p3 of key paths over {a, b} (p3 of length 3), kinds alternating from the root "
                 "(group_by first or merge first), chains of 3 (without p3) and of 4 entries, EVERY permutation of the "
                 "group_by tuple and of the merge tuple (the partition must not depend on the order in which the keys are "
                 "listed); filled with every third of the contexts above (%d fills) and compared with the "
                 "longest-listed-prefix partition" % len(orderc), True)
    acc = 0
    for p1 in ("a", "b"):
        for s2 in ("a", "b"):
            for s3 in ("a", "b"):
                chain4 = ["", p1, p1 + "." + s2, p1 + "." + s2 + "." + s3]
                for chain in (chain4, chain4[:3]):
                    for first in ("g", "m"):
                        kinds = [first if i % 2 == 0 else ("m" if first == "g" else "g") for i in range(len(chain))]
                        gb0 = [k for k, kd in zip(chain, kinds) if kd == "g"]
                        mg0 = [k for k, kd in zip(chain, kinds) if kd == "m"]
                        for gb in itertools.permutations(gb0):
                            for mg in itertools.permutations(mg0):
                                res = partition_check(R, list(gb), list(mg), ctxs, entries, orderc, replayable_ctxs=False)
                                if res != "rejected":
                                    acc += 1
                                    R.case(True, {"group_by": list(gb), "merge": list(mg)})
    sc["bound"] += "; %d key sets accepted" % acc

    # ---- 7. GroupBy, random key sets over {a, b, c}, random contexts of nesting <= 3 with one-point variations
    n_ks = 5000 if th else 250
    sc = R.scope("GroupBy.fill vs longest-listed-prefix partition, random",
                 "%d random key sets (1..5 keys of length <= 3 over {a, b, c}, 85%% built properly nested), each accepted one filled "
                 "with 12 random contexts of nesting <= 3 (scalars %r, empty dictionaries) and 3 one-path variations of each"
                 % (n_ks, RICH_SCALARS), False)
    alpha = ["a", "b", "c"]
    acc = 0
    for _ in range(n_ks):
        gb, mg = rand_keyset(rng, alpha, 3, rng.randint(1, 5))
        cs = []
        for _ in range(12):
            c = rand_ctx(rng, alpha, 3)
            cs.append(c)
            for _ in range(3):
                cs.append(mutate_ctx(rng, c, alpha, 3))
        # bias the contexts towards the listed paths: plant values along a listed key
        for k in (gb + mg)[:3]:
            p = to_path(k)
            for cut in range(1, len(p) + 1):
                c = {}
                cur = c
                for s in p[:cut - 1]:
                    cur[s] = {}
                    cur = cur[s]
                for leaf in (rng.choice(RICH_SCALARS), {}, {rng.choice(alpha): rng.choice(RICH_SCALARS)}):
                    cur[p[cut - 1]] = leaf
                    cs.append(copy.deepcopy(c))
        cs.sort(key=ctx_size)
        order = list(range(len(cs)))
        rng.shuffle(order)
        res = partition_check(R, gb, mg, cs, [ctx_entries(c) for c in cs], order, replayable_ctxs=False)
        if res != "rejected":
            acc += 1
            R.case(True, {"group_by": gb, "merge": mg})
    sc["bound"] += "; %d key sets accepted" % acc


if __name__ == "__main__":
    R = Run("C15", {"replay_selector": replay_selector, "replay_selctx": replay_selctx, "replay_filter": replay_filter,
                    "replay_pair": replay_pair, "replay_partition": replay_partition, "replay_rejects": replay_rejects})
    sys.exit(R.main(body, "real selectors against the three-valued reference evaluator, real GroupBy groups against the "
                          "reference partition by longest listed prefix; a case is one (specification, flag, value) evaluation, "
                          "one Filter run, or one accepted key set filled with the whole context scope; enumerations are "
                          "duplicate-free by construction, random cases are not de-duplicated"))
