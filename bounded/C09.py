"""C09 bounded stand-in: every framework accumulator that has a reset() method is driven through histories
fill* (compute | reset | fill)* on the REAL classes and each compute() is compared with

  (1) a reference written from the property text: Count = number of values, Sum = left fold of + (== builtin sum
      on ints; DESIGN section 9: bit-equality with the compensated 3.12 sum() on floats is not demanded), DSum = the
      exact rational sum, Mean = sum/count, VarianceMeanCount = (sample variance, mean, count), Vectorize = the
      component-wise result of its inner accumulators, StoreFilled / GroupBy = the filled values themselves,
      Histogram = the filled histogram (bisect reference of C06), each with the context of the last filled value
      extended only by the element's documented keys; the reference depends only on the fills after the last
      reset (start values such as Sum(5), Count(count=3), DSum(2.5) count only before the first reset);
  (2) a freshly constructed element (default start values) driven through the suffix after the last reset.
      This differential is reported (phase `vs-fresh`) only when (1) found nothing in the same history, i.e. for
      state the reference does not model (e.g. Graph's scale).

fid = "<Class>[<configuration>]/<phase>/<clause>", phase in init | fill-compute | reset | after-reset | vs-fresh;
every clause that fails (value, context, bins, n_out_of_range, raises-<Exception>, ...) is a fid of its own, so the
manifestations of the known Histogram.reset defect (DESIGN section 6 row 7) are told apart.

Not demanded (DESIGN section 9 and docstrings): builtin sum() bit-equality on floats; non-aliasing of yielded objects
(C04); Count.run / fill_into (C05); the variance beyond a tolerance of 1e-11 * mean of squares; GroupBy keys on
nested / missing paths (C15); NumpyHistogram (numpy is not installed); FillRequest.reset (C16)."""
import bisect
import collections
import copy
import itertools
import sys
import os
from decimal import Decimal
from fractions import Fraction

sys.path.insert(0, os.path.dirname(os.path.dirname(os.path.abspath(__file__))))
from bounded.common import Run, watchdog, Timeout

import lena.core
import lena.flow
import lena.math
import lena.structures
from lena.math import Sum, DSum, Mean, VarianceMeanCount, Vectorize
from lena.flow import Count, StoreFilled, GroupBy
from lena.structures import Histogram, histogram, Graph


# ------------------------------------------------------------------ small helpers

Fill = collections.namedtuple("Fill", "data ctx obj")     # ctx: snapshot (deep copy) of the filled context, {} if none


def is_pair(x):
    """the framework's definition of a (data, context) pair"""
    return isinstance(x, tuple) and len(x) == 2 and isinstance(x[1], dict)


def same_num(a, b):
    return type(a) is type(b) and repr(a) == repr(b)


def fold(start, xs):
    """the language-level definition of sum: left fold of + from the start value"""
    acc = start
    for x in xs:
        acc = acc + x
    return acc


def exact_sum(xs):
    return sum((Fraction(x) for x in xs), Fraction(0))


def datas(fills):
    return [f.data for f in fills]


def last_ctx(fills):
    return fills[-1].ctx if fills else {}


def short(x, n=160):
    s = repr(x)
    return s if len(s) <= n else s[:n] + "..."


# ------------------------------------------------------------------ patterns (expected yields) and matching

def mm(p, g):
    """None if the yielded object g matches pattern p, else the name of the clause that failed"""
    k = p[0]
    if k == "lit":
        v = p[1]
        if isinstance(v, (int, float)) and not isinstance(v, bool):
            return None if same_num(v, g) else "value"
        return None if (type(v) is type(g) and v == g) else "value"
    if k == "exact":
        if isinstance(g, bool) or not isinstance(g, (int, float, Decimal, Fraction)):
            return "value"
        try:
            ok = Fraction(g) == p[1]
        except (ValueError, OverflowError):
            ok = False
        return None if ok else "exact-sum"
    if k == "approx":
        if isinstance(g, bool) or not isinstance(g, (int, float, Decimal, Fraction)):
            return "value"
        try:
            ok = abs(Fraction(g) - p[1]) <= p[2]
        except (ValueError, OverflowError):
            ok = False
        return None if ok else "value"
    if k == "same":
        if g is p[1]:
            return None
        try:
            eq = bool(g == p[1]) and type(g) is type(p[1])
        except Exception:
            eq = False
        return "identity" if eq else "value"
    if k == "tuple":
        if not isinstance(g, tuple) or len(g) != len(p[2]):
            return "value"
        if (type(g) is not tuple) if p[1] is None else (type(g).__name__ != p[1]):
            return "value"
        for sp, sg in zip(p[2], g):
            r = mm(sp, sg)
            if r:
                return r
        return None
    if k == "list":
        if type(g) is not list or len(g) != len(p[1]):
            return "value"
        for sp, sg in zip(p[1], g):
            r = mm(sp, sg)
            if r:
                return r
        return None
    if k == "pair":
        if not is_pair(g):
            return "context"
        bad = []
        r = mm(p[1], g[0])
        if r:
            bad.append(r)
        if not (type(g[1]) is dict and g[1] == p[2]):
            bad.append("context")
        return "|".join(bad) or None
    if k == "maybe":
        if p[2]:
            return mm(("pair", p[1], p[2]), g)
        if is_pair(g):
            # a context although the last filled value had none (e.g. a context that survived reset)
            r = mm(p[1], g[0])
            return (r + "|context") if r else "context"
        return mm(p[1], g)
    if k == "vmc":
        if not (isinstance(g, tuple) and len(g) == 3 and hasattr(g, "variance") and hasattr(g, "mean") and hasattr(g, "count")):
            return "value"
        if mm(p[1], g.variance):
            return "variance"
        if mm(p[2], g.mean):
            return "mean"
        return None if same_num(p[3], g.count) else "count"
    if k == "hist":
        if not isinstance(g, histogram):
            return "value"
        bad = []            # every clause is reported: each is a manifestation of its own
        if g.edges != p[1]:
            bad.append("edges")
        if not same_bins(g.bins, p[2]):
            bad.append("bins")
        if not same_num(g.n_out_of_range, p[3]):
            bad.append("n_out_of_range")
        return "|".join(bad) or None
    if k == "graph":
        # ("graph", points, context without scale/dim); the value is a (graph, context) pair
        if not is_pair(g) or not isinstance(g[0], Graph):
            return "value"
        if list(g[0].points) != p[1]:
            return "points"
        c = dict((kk, vv) for kk, vv in g[1].items() if kk not in ("scale", "dim"))
        return None if c == p[2] else "context"
    raise AssertionError(k)


def same_bins(a, b):
    if isinstance(a, list) or isinstance(b, list):
        return (isinstance(a, list) and isinstance(b, list) and len(a) == len(b)
                and all(same_bins(x, y) for x, y in zip(a, b)))
    return same_num(a, b)


# ------------------------------------------------------------------ reference specifications (from the property text)
# spec(pre, fills, env) -> ("raise", exception name) | ("yield", [pattern, ...])
# pre: no reset happened yet (constructor start values count); fills: the values filled since then / since the reset

def spec_sum(start=0):
    def s(pre, fills, env=None):
        xs = datas(fills)
        st = start if pre else 0
        if all(type(x) is int for x in xs) and type(st) is int:
            tot = sum(xs, st)           # "Sum [yields] Python's sum" - exact on ints
        else:
            tot = fold(st, xs)          # DESIGN section 9: same operator, same order
        return ("yield", [("maybe", ("lit", tot), last_ctx(fills))])
    return s


def spec_dsum(start=0):
    def s(pre, fills, env=None):
        tot = exact_sum(datas(fills)) + (Fraction(start) if pre else 0)
        return ("yield", [("maybe", ("exact", tot), last_ctx(fills))])
    return s


def spec_mean(mode="plain", pass_on_empty=False):
    def s(pre, fills, env=None):
        xs = datas(fills)
        n = len(xs)
        if n == 0:
            return ("yield", []) if pass_on_empty else ("raise", "LenaZeroDivisionError")
        if mode == "dsum":
            mean = float(exact_sum(xs)) / n
        else:
            mean = fold(0, xs) / n
        items = [("maybe", ("lit", mean), last_ctx(fills))]
        if mode == "multi":
            # documented: further values of sum_seq are yielded as they are, with the current context
            # updated by their own
            c = dict(last_ctx(fills))
            c["m"] = "max"
            items.append(("maybe", ("lit", max(xs)), c))
        return ("yield", items)
    return s


def spec_vmc(corrected=True, pass_on_empty=False):
    def s(pre, fills, env=None):
        xs = datas(fills)
        n = len(xs)
        if n == 0:
            return ("yield", []) if pass_on_empty else ("raise", "LenaZeroDivisionError")
        if corrected and n == 1:
            return ("raise", "LenaZeroDivisionError")
        fx = [Fraction(x) for x in xs]
        m = sum(fx) / n
        msq = sum(x * x for x in fx) / n
        var = sum((x - m) ** 2 for x in fx) / ((n - 1) if corrected else n)     # textbook (sample) variance
        tol = Fraction(1, 10 ** 11) * (msq + Fraction(1, 10 ** 200)) * (n + 2)
        return ("yield", [("maybe", ("vmc", ("approx", var, tol), ("lit", fold(0, xs) / n), n), last_ctx(fills))])
    return s


def spec_count(name="count", start=0):
    def s(pre, fills, env=None):
        c = (start if pre else 0) + len(fills)
        ctx = dict(last_ctx(fills))
        ctx[name] = c
        return ("yield", [("pair", ("lit", c), ctx)])
    return s


def spec_store(group=True):
    def s(pre, fills, env=None):
        items = [("same", f.obj) for f in fills]
        return ("yield", [("list", items)] if group else items)
    return s


def spec_groupby(keyfn):
    def s(pre, fills, env=None):
        groups = collections.OrderedDict()
        for f in fills:
            groups.setdefault(keyfn(f.ctx), []).append(("same", f.obj))
        return ("yield", [("list", g) for g in groups.values()])
    return s


def spec_vec(inner, typename=None, premap=None):
    def s(pre, fills, env=None):
        outs = []
        for i, isp in enumerate(inner):
            ifills = [Fill(premap(f.data[i]) if premap else f.data[i], {}, f.data[i]) for f in fills]
            o = isp(pre, ifills)
            if o[0] == "raise":
                return o
            outs.append(o[1])
        rows = max(len(o) for o in outs)
        items = []
        for j in range(rows):
            row = [o[j] if j < len(o) else ("lit", None) for o in outs]     # documented: padded with None
            items.append(("maybe", ("tuple", typename, row), last_ctx(fills)))
        return ("yield", items)
    return s


def hist_ref(edges, start_bins, coords):
    """C06 reference: number of edges <= value, minus one, per axis; one cell += 1 or n_out_of_range += 1"""
    md = isinstance(edges[0], list)
    axes = edges if md else [edges]
    bins = copy.deepcopy(start_bins)
    noor = 0
    for c in coords:
        cs = list(c) if md else [c]
        idx = [bisect.bisect_right(a, x) - 1 for a, x in zip(axes, cs)]
        if all(0 <= i < len(a) - 1 for i, a in zip(idx, axes)):
            sub = bins
            for i in idx[:-1]:
                sub = sub[i]
            sub[idx[-1]] += 1
        else:
            noor += 1
    return bins, noor


def spec_hist(edges, documented_start):
    def s(pre, fills, env=None):
        start = documented_start()
        if pre and env is not None and "start_bins" in env:
            start = env["start_bins"]       # the constructor defect is reported once under init/, not again here
        bins, noor = hist_ref(edges, start, datas(fills))
        return ("yield", [("pair", ("hist", edges, bins, noor), last_ctx(fills))])
    return s


def spec_graph(sort=True):
    def s(pre, fills, env=None):
        pts = datas(fills)
        if sort:
            pts = sorted(pts)
        c = dict((k, v) for k, v in last_ctx(fills).items() if k not in ("scale", "dim"))
        return ("yield", [("graph", pts, c)])
    return s


# ------------------------------------------------------------------ canonical form for the fresh-element differential

def canon(x):
    if x is None or isinstance(x, (bool, str)):
        return x
    if isinstance(x, int):
        return ["int", x]
    if isinstance(x, float):
        return ["float", repr(x)]
    if isinstance(x, Decimal):
        return ["Decimal", str(Fraction(x)) if x.is_finite() else str(x)]
    if isinstance(x, histogram):
        return {"hist": {"edges": canon(x.edges), "bins": canon(x.bins), "n_out_of_range": canon(x.n_out_of_range)}}
    if isinstance(x, Graph):
        try:
            sc = x.scale()
        except lena.core.LenaAttributeError:
            sc = None
        return {"graph": {"points": canon(list(x.points)), "scale": canon(sc)}}
    if isinstance(x, tuple):
        return ["tuple", type(x).__name__] + [canon(y) for y in x]
    if isinstance(x, list):
        return ["list"] + [canon(y) for y in x]
    if isinstance(x, dict):
        return dict((str(k), canon(v)) for k, v in x.items())
    return ["repr", repr(x)]


def canon_item(x):
    if is_pair(x):
        return {"value": canon(x[0]), "context": canon(x[1])}
    return {"value": canon(x), "context": None}


def first_diff(a, b):
    """dotted path of dict keys to the first difference (list positions are left out so that the path is stable)"""
    if isinstance(a, dict) and isinstance(b, dict) and sorted(a) == sorted(b):
        for k in sorted(a):
            if a[k] != b[k]:
                sub = first_diff(a[k], b[k])
                return k + ("." + sub if sub else "")
        return ""
    if isinstance(a, list) and isinstance(b, list) and len(a) == len(b):
        for x, y in zip(a, b):
            if x != y:
                return first_diff(x, y)
    return ""


# ------------------------------------------------------------------ a sum_seq yielding several values (for Mean)

class SumAndMax(object):
    """FillCompute element yielding the sum and then (maximum, {"m": "max"}); used as Mean's sum_seq"""

    def __init__(self):
        self.reset()

    def fill(self, value):
        self._xs.append(lena.flow.get_data(value))

    def compute(self):
        yield fold(0, self._xs)
        yield (max(self._xs), {"m": "max"})

    def reset(self):
        self._xs = []


def double(x):
    return x * 2


P2 = collections.namedtuple("P2", "x,y")


# ------------------------------------------------------------------ configurations

NUM = [0.5, 1e16, 3, -1e16, 0.1, 7, 2.5e-3, -2, 1e300, 1, -1e300, 2 ** 40]
NUM_SQ = [0.5, 1e8, 3, -1e8, 0.1, 7, 2.5e-3, -2, 1e-3, 1, 12.25, -40]       # squares stay far from overflow
HCOORD = [0.5, 3, 0, -1, 2.5, 1, 1.999, 7, 2, 1e-300]
EDGES1 = [0, 1, 2, 3]
EDGES2 = [[0, 1, 2], [0, 2, 4]]


class Cfg(object):
    def __init__(self, label, make, spec, kind, fresh=None, alphabet="fFcr", pool=None, need_a=False, hist=None):
        self.label = label
        self.make = make
        self.fresh = fresh or make
        self.spec = spec
        self.kind = kind            # shape of the data: num | vec2 | vec3 | any | h1 | h2 | point
        self.alphabet = alphabet
        self.pool = pool or NUM
        self.need_a = need_a        # every filled value must have context key "a"
        self.hist = hist            # (edges, documented start bins maker, name of the ignored argument) for Histogram

    def data(self, i, rng=None):
        pool = self.pool
        pick = (lambda j: pool[(i + j) % len(pool)]) if rng is None else (lambda j: rng.choice(pool))
        k = self.kind
        if k == "num":
            return pick(0)
        if k == "vec2":
            return (pick(0), pick(1))
        if k == "vec3":
            return (pick(0), pick(1), pick(2))
        if k == "any":
            return "v%d" % i if i % 3 else i
        if k == "h1":
            return pick(0)
        if k == "h2":
            return (pick(0), pick(3))
        if k == "point":
            return (10 - i, i) if rng is None else (rng.randint(-5, 5), i)
        raise AssertionError(k)

    def concretize(self, letters):
        """letters over f (bare value, or (value, {}) at odd positions), F (value with a tagged context),
        S (Graph: context carrying a scale), c, r  ->  replayable ops"""
        ops = []
        nres = 0
        for i, ch in enumerate(letters):
            if ch == "c":
                ops.append(["c"])
            elif ch == "r":
                ops.append(["r"])
                nres += 1
            else:
                d = self.data(i)
                if ch == "F":
                    ctx = {"a": i % 2, "k": i, "n": {"d": i}}
                elif ch == "S":
                    ctx = {"scale": 5 + 2 * nres, "k": i}
                else:
                    ctx = {"a": 2} if self.need_a else ({} if i % 2 else None)
                ops.append(["f", d, ctx])
        return ops

    def random_ops(self, rng, maxlen):
        ops = []
        nres = 0
        for i in range(rng.randint(0, maxlen)):
            u = rng.random()
            if u < 0.55:
                d = self.data(i, rng)
                v = rng.random()
                if "S" in self.alphabet and v < 0.3:
                    ctx = {"scale": 5 + 2 * nres, "k": i}
                elif v < 0.55:
                    ctx = {"a": rng.randint(0, 2), "k": i}
                    if rng.random() < 0.5:
                        ctx["n"] = {"d": rng.randint(0, 3), "e": {"x": "y"}}
                    if rng.random() < 0.2:
                        ctx["count"] = 99          # collides with Count's own key: the element's key wins
                elif self.need_a:
                    ctx = {"a": rng.randint(0, 2)}
                else:
                    ctx = {} if v < 0.7 else None
                ops.append(["f", d, ctx])
            elif u < 0.8:
                ops.append(["c"])
            else:
                ops.append(["r"])
                nres += 1
        return ops


def _hist_cfgs():
    out = []

    def add(label, edges, kind, ctor_kwargs, start, ignored=None):
        def make():
            kw = dict((k, (copy.deepcopy(v) if isinstance(v, list) else v)) for k, v in ctor_kwargs.items())
            return Histogram(copy.deepcopy(edges), **kw)
        out.append(Cfg("Histogram[%s]" % label, make, spec_hist(edges, start), kind, pool=HCOORD,
                       hist=(edges, start, ignored)))
    add("default", EDGES1, "h1", {}, lambda: [0, 0, 0])
    add("default-2d", EDGES2, "h2", {}, lambda: [[0, 0], [0, 0]])
    add("bins", EDGES1, "h1", {"bins": [2, 0, 1]}, lambda: [2, 0, 1])
    add("bins-2d", EDGES2, "h2", {"bins": [[1, 0], [0, 4]]}, lambda: [[1, 0], [0, 4]])
    add("make_bins", EDGES1, "h1", {"make_bins": lambda: [5, 6, 7]}, lambda: [5, 6, 7], "make_bins")
    add("initial_value", EDGES1, "h1", {"initial_value": 3}, lambda: [3, 3, 3], "initial_value")
    return out


def key_all(ctx):
    return 0


def key_a(ctx):
    return repr(ctx.get("a"))


def key_without_k(ctx):
    return repr(sorted((k, repr(v)) for k, v in ctx.items() if k != "k"))


CONFIGS = collections.OrderedDict()
for _c in [
    Cfg("Sum[default]", lambda: Sum(), spec_sum(), "num"),
    Cfg("Sum[start=5]", lambda: Sum(5), spec_sum(5), "num", fresh=lambda: Sum()),
    Cfg("DSum[default]", lambda: DSum(), spec_dsum(), "num", pool=NUM[:8]),
    Cfg("DSum[start=2.5]", lambda: DSum(2.5), spec_dsum(2.5), "num", fresh=lambda: DSum(), pool=NUM[:8]),
    Cfg("Mean[default]", lambda: Mean(), spec_mean(), "num"),
    Cfg("Mean[pass_on_empty]", lambda: Mean(pass_on_empty=True), spec_mean(pass_on_empty=True), "num"),
    Cfg("Mean[sum_seq=Sum]", lambda: Mean(sum_seq=Sum()), spec_mean("sum"), "num"),
    Cfg("Mean[sum_seq=DSum]", lambda: Mean(sum_seq=DSum()), spec_mean("dsum"), "num", pool=NUM[:8]),
    Cfg("Mean[sum_seq=several]", lambda: Mean(sum_seq=SumAndMax()), spec_mean("multi"), "num"),
    Cfg("VarianceMeanCount[default]", lambda: VarianceMeanCount(), spec_vmc(), "num", pool=NUM_SQ),
    Cfg("VarianceMeanCount[uncorrected]", lambda: VarianceMeanCount(corrected=False), spec_vmc(False), "num", pool=NUM_SQ),
    Cfg("VarianceMeanCount[pass_on_empty]", lambda: VarianceMeanCount(pass_on_empty=True), spec_vmc(True, True), "num",
        pool=NUM_SQ),
    Cfg("VarianceMeanCount[own-sums]", lambda: VarianceMeanCount(sum_sq=Sum(), sum_=Sum(), corrected=False),
        spec_vmc(False), "num", pool=NUM_SQ),
    Cfg("Count[default]", lambda: Count(), spec_count(), "num"),
    Cfg("Count[name=n,start=3]", lambda: Count("n", count=3), spec_count("n", 3), "num", fresh=lambda: Count("n")),
    Cfg("Vectorize[Sum,dim=2]", lambda: Vectorize(Sum(), dim=2), spec_vec([spec_sum()] * 2), "vec2"),
    Cfg("Vectorize[Sum,dim=3]", lambda: Vectorize(Sum(), dim=3), spec_vec([spec_sum()] * 3), "vec3"),
    Cfg("Vectorize[list:Sum(5),Mean-poe]", lambda: Vectorize([Sum(5), Mean(pass_on_empty=True)]),
        spec_vec([spec_sum(5), spec_mean(pass_on_empty=True)]), "vec2",
        fresh=lambda: Vectorize([Sum(), Mean(pass_on_empty=True)])),
    Cfg("Vectorize[list:DSum,Count]", lambda: Vectorize([DSum(), Count()]), spec_vec([spec_dsum(), spec_count()]), "vec2",
        pool=NUM[:8]),
    Cfg("Vectorize[list:Sum,Mean]", lambda: Vectorize([Sum(), Mean()]), spec_vec([spec_sum(), spec_mean()]), "vec2"),
    Cfg("Vectorize[FillComputeSeq,dim=2]", lambda: Vectorize(lena.core.FillComputeSeq(double, Sum()), dim=2),
        spec_vec([spec_sum()] * 2, premap=double), "vec2"),
    Cfg("Vectorize[Sum,dim=2,construct]", lambda: Vectorize(Sum(), dim=2, construct=P2),
        spec_vec([spec_sum()] * 2, typename="P2"), "vec2"),
    Cfg("Vectorize[StoreFilled,dim=2]", lambda: Vectorize(StoreFilled(), dim=2), spec_vec([spec_store()] * 2), "vec2"),
    Cfg("StoreFilled[group]", lambda: StoreFilled(), spec_store(True), "any"),
    Cfg("StoreFilled[one-by-one]", lambda: StoreFilled(yield_as_a_group=False), spec_store(False), "any"),
    Cfg("GroupBy[default]", lambda: GroupBy(), spec_groupby(key_all), "any"),
    Cfg("GroupBy[a]", lambda: GroupBy("a"), spec_groupby(key_a), "any", need_a=True),
    Cfg("GroupBy[all-but-k]", lambda: GroupBy("", merge="k"), spec_groupby(key_without_k), "any"),
] + _hist_cfgs() + [
    Cfg("Graph[default]", lambda: Graph(), spec_graph(True), "point", alphabet="fScr"),
    Cfg("Graph[sort=False]", lambda: Graph(sort=False), spec_graph(False), "point"),
    Cfg("Graph[scale=2]", lambda: Graph(scale=2), spec_graph(True), "point"),
]:
    CONFIGS[_c.label] = _c


# ------------------------------------------------------------------ running one history

def tup(x):
    """JSON round trip: every sequence in the data of this harness is a tuple"""
    return tuple(tup(y) for y in x) if isinstance(x, (list, tuple)) else x


def mkval(op):
    d = tup(op[1])
    return d if op[2] is None else (d, copy.deepcopy(op[2]))


HANGS = collections.Counter()     # configuration -> number of 2 s time-outs; after 3 its remaining histories are skipped


def outcome(el, label=None):
    """("yield", [values]) | ("raise", exception name) of list(el.compute())"""
    try:
        with watchdog(2):
            return ("yield", list(el.compute()))
    except Timeout:
        HANGS[label] += 1
        return ("raise", "NON-TERMINATION")
    except Exception as e:
        return ("raise", type(e).__name__)


def compare(exp, got):
    """[(clause, detail)] - empty when the outcome of compute() is the expected one"""
    if exp[0] == "raise":
        if got[0] == "raise":
            return [] if got[1] == exp[1] else [("raises-%s-instead-of-%s" % (got[1], exp[1]), "raised %s" % got[1])]
        return [("no-%s" % exp[1], "yielded %s instead of raising %s" % (short(got[1]), exp[1]))]
    if got[0] == "raise":
        return [("raises-%s" % got[1], "compute() raised %s" % got[1])]
    if len(got[1]) != len(exp[1]):
        return [("n-yields", "yielded %d values %s, expected %d" % (len(got[1]), short(got[1]), len(exp[1])))]
    for p, g in zip(exp[1], got[1]):
        r = mm(p, g)
        if r:
            return [(c, "yielded %s, expected %s" % (short(g), describe(p))) for c in r.split("|")]
    return []


def describe(p):
    k = p[0]
    if k in ("lit", "same"):
        return short(p[1], 60)
    if k == "exact":
        return "exactly %s" % short(float(p[1]) if abs(p[1]) < 10 ** 300 else p[1], 60)
    if k == "approx":
        return "about %r" % float(p[1])
    if k == "tuple":
        return "%s(%s)" % (p[1] or "", ", ".join(describe(q) for q in p[2]))
    if k == "list":
        return "[%s]" % ", ".join(describe(q) for q in p[1])
    if k == "pair":
        return "(%s, %r)" % (describe(p[1]), p[2])
    if k == "maybe":
        return describe(("pair", p[1], p[2])) if p[2] else describe(p[1])
    if k == "vmc":
        return "variance_mean_count(%s, %s, %r)" % (describe(p[1]), describe(p[2]), p[3])
    if k == "hist":
        return "histogram(%r, bins=%r) with n_out_of_range=%r" % (p[1], p[2], p[3])
    if k == "graph":
        return "(Graph(points=%r), context %r + scale/dim)" % (p[1], p[2])
    return repr(p)


def ops_text(ops):
    out = []
    for op in ops:
        if op[0] == "f":
            out.append("fill(%r)" % (tup(op[1]) if op[2] is None else (tup(op[1]), op[2]),))
        else:
            out.append("compute" if op[0] == "c" else "reset")
    return "; ".join(out)


def run_history(label, ops):
    """drive a new element of configuration `label` through ops; a final compute is implied.
    Returns [(fid, detail)], at most one entry per fid."""
    cfg = CONFIGS[label]
    fails = []

    def fail(phase, clause, detail):
        fid = "%s/%s/%s" % (label, phase, clause)
        if all(f[0] != fid for f in fails):
            fails.append((fid, detail))

    ops = [list(o) for o in ops]
    if not ops or ops[-1][0] != "c":
        ops.append(["c"])
    env = {}
    try:
        el = cfg.make()
    except Exception as e:
        fail("init", "raises-%s" % type(e).__name__, "constructor raised %s: %s" % (type(e).__name__, e))
        return fails
    if not callable(getattr(el, "reset", None)):
        fail("init", "no-reset-method", "the element has no reset method")
        return fails
    if cfg.hist:
        # the constructor's documented start bins (DESIGN section 6 row 7: make_bins / initial_value are ignored)
        edges, start, ignored = cfg.hist
        got = outcome(el)
        if got[0] == "yield" and len(got[1]) == 1 and is_pair(got[1][0]) and isinstance(got[1][0][0], histogram):
            b = got[1][0][0].bins
            if not same_bins(b, start()):
                fail("init", "%s-ignored" % (ignored or "start-bins"),
                     "a new element holds bins %r, documented start %r" % (b, start()))
                env["start_bins"] = copy.deepcopy(b)
    pre = True
    fills = []
    last_reset = None
    after = []          # canonical outcomes of the computes after the last reset
    for i, op in enumerate(ops):
        phase = "fill-compute" if pre else "after-reset"
        if op[0] == "f":
            v = mkval(op)
            fills.append(Fill(v[0] if op[2] is not None else v, copy.deepcopy(op[2]) if op[2] else {}, v))
            try:
                with watchdog(2):
                    el.fill(v)
            except Timeout:
                HANGS[label] += 1
                fail(phase, "fill-non-termination", "fill(%r) did not return within 2 s" % (v,))
                return fails
            except Exception as e:
                fail(phase, "fill-raises-%s" % type(e).__name__, "fill(%r) raised %s: %s" % (v, type(e).__name__, e))
                return fails
        elif op[0] == "c":
            got = outcome(el, label)
            for clause, detail in compare(cfg.spec(pre, fills, env), got):
                fail(phase, clause, "compute #%d %s" % (i, detail))
            after.append(("raise", got[1]) if got[0] == "raise" else ("yield", [canon_item(x) for x in got[1]]))
        else:
            try:
                with watchdog(2):
                    el.reset()
            except Timeout:
                HANGS[label] += 1
                fail("reset", "non-termination", "reset() did not return within 2 s")
                return fails
            except Exception as e:
                nm = type(e).__name__
                if isinstance(e, AttributeError) and getattr(e, "name", None):
                    nm += "-" + str(e.name)
                fail("reset", "raises-" + nm, "reset() raised %s: %s" % (type(e).__name__, e))
                return fails
            pre = False
            fills = []
            last_reset = i
            after = []
    if last_reset is not None and not fails:
        # the literal statement of the property: equal to a newly constructed element on the suffix
        fresh = cfg.fresh()
        j = 0
        for op in ops[last_reset + 1:]:
            if op[0] == "f":
                try:
                    fresh.fill(mkval(op))
                except Exception as e:
                    fail("vs-fresh", "fresh-fill-raises-%s" % type(e).__name__, "the new element raised in fill")
                    break
            else:
                got = outcome(fresh)
                fr = ("raise", got[1]) if got[0] == "raise" else ("yield", [canon_item(x) for x in got[1]])
                mine = after[j]
                j += 1
                if mine != fr:
                    if mine[0] != fr[0] or mine[0] == "raise":
                        clause = "raises-%s" % mine[1] if mine[0] == "raise" else "yields-where-new-raises-%s" % fr[1]
                    elif len(mine[1]) != len(fr[1]):
                        clause = "n-yields"
                    else:
                        clause = first_diff({"y": mine[1]}, {"y": fr[1]})[2:] or "value"
                    fail("vs-fresh", clause, "after reset compute gives %s, a new element %s" % (short(mine), short(fr)))
                    break
    return fails


def replay_history(label, ops, fid):
    return any(f[0] == fid for f in run_history(label, ops))


def replay_ctor(which, fid):
    return any(f[0] == fid for f in check_ctor(which))


class NoReset(object):
    """a FillCompute accumulator without a reset method (sums what it is filled with)"""

    def __init__(self):
        self.total = 0

    def fill(self, value):
        self.total += lena.flow.get_data(value)

    def compute(self):
        yield self.total


def check_ctor(which):
    """documented constructor clauses that decide whether reset exists; returns [(fid, detail)]"""
    fails = []
    if which == "Histogram[bins+make_bins]":
        try:
            Histogram([0, 1, 2], bins=[0, 0], make_bins=lambda: [0, 0])
            fails.append((which + "/init/no-LenaTypeError", "no LenaTypeError when both bins and make_bins are given"))
        except lena.core.LenaTypeError:
            pass
        except Exception as e:
            fails.append((which + "/init/raises-%s-instead-of-LenaTypeError" % type(e).__name__, "raised %s" % e))
        return fails
    # a wrapper over an accumulator without reset: still the component-wise / documented aggregate, but no reset
    if which == "Vectorize[inner-without-reset]":
        make = lambda: Vectorize([Sum(), NoReset()])
        fill = [(1, 10), ((2, 20), {"k": 1})]
        exp = [((3, 30), {"k": 1})]
    elif which == "Vectorize[inner-without-reset,dim=2]":
        make = lambda: Vectorize(NoReset(), dim=2)
        fill = [(1, 10), ((2, 20), {"k": 1})]
        exp = [((3, 30), {"k": 1})]
    elif which == "VarianceMeanCount[sum-without-reset]":
        make = lambda: VarianceMeanCount(sum_sq=NoReset(), sum_=Sum(), corrected=False)
        fill = [1, (3, {"k": 1})]
        exp = [((1.0, 2.0, 2), {"k": 1})]
    elif which == "Mean[sum_seq-without-reset]":
        make = lambda: Mean(sum_seq=NoReset())
        fill = [1, (4, {"k": 1})]
        exp = [(2.5, {"k": 1})]
    else:
        raise AssertionError(which)
    try:
        el = make()
    except Exception as e:
        return [(which + "/init/raises-%s" % type(e).__name__, "the constructor raised %s: %s" % (type(e).__name__, e))]
    for v in fill:
        el.fill(copy.deepcopy(v))
    got = outcome(el)
    if got != ("yield", exp):
        fails.append((which + "/fill-compute/value", "after fills %r compute gives %s, expected %r" % (fill, short(got), exp)))
    if which.startswith("Mean"):
        # documented in the code: reset raises LenaAttributeError
        try:
            el.reset()
            fails.append((which + "/reset/no-LenaAttributeError", "reset() of a Mean whose sum_seq has no reset succeeded"))
        except lena.core.LenaAttributeError:
            pass
        except Exception as e:
            fails.append((which + "/reset/raises-%s" % type(e).__name__, "reset() raised %s" % e))
    elif hasattr(el, "reset"):
        fails.append((which + "/init/offers-reset", "offers reset although an inner element has none"))
    return fails


# ------------------------------------------------------------------ scopes

def report(R, label, ops, fails):
    for fid, detail in fails:
        R.fail(fid, "%s: %s -> %s" % (label, ops_text(ops), detail), {"config": label, "ops": ops},
               {"fn": "replay_history", "args": [label, ops, fid]})


# ------------------------------------------------------------------------------------------------ GroupBy keys
def _od(*items):
    """a dictionary with exactly this insertion order"""
    d = {}
    for k, v in items:
        d[k] = v
    return d


GB_VALUES = [
    (1, _od(("variable", _od(("name", "x"), ("unit", "cm"))), ("detector", "far"))),
    (2, _od(("detector", "far"), ("variable", _od(("unit", "cm"), ("name", "x"))))),          # == value 1, other orders
    (3, _od(("variable", _od(("name", "y"), ("unit", "cm"))), ("detector", "far"))),
    (4, _od(("variable", _od(("unit", "cm"), ("name", "x"))), ("detector", "far"))),          # == value 1, nested order
    (5, _od(("variable", _od(("name", "x"), ("unit", "cm"), ("range", _od(("lo", 0), ("hi", 1))))), ("detector", "far"))),
    (6, _od(("detector", "far"), ("variable", _od(("range", _od(("hi", 1), ("lo", 0))), ("unit", "cm"), ("name", "x"))))),  # == 5
]
GB_CONFIGS = [
    ("GroupBy('', merge=())", lambda: GroupBy("", merge=()), lambda c: c),
    ("GroupBy('variable')", lambda: GroupBy("variable"), lambda c: c.get("variable")),
    ("GroupBy(('variable', 'detector'))", lambda: GroupBy(("variable", "detector")), lambda c: (c.get("variable"), c.get("detector"))),
    ("GroupBy('variable.range')", lambda: GroupBy("variable.range"), lambda c: c.get("variable", {}).get("range")),
]


def groupby_order_case(ci, order, with_reset):
    """"GroupBy the filled values themselves", grouped by the selected context: contexts that are EQUAL dictionaries are
    the same key, however their items were inserted (at any depth).  Returns None or a description."""
    label, make, proj = GB_CONFIGS[ci]
    el = make()
    vals = [copy.deepcopy(GB_VALUES[i]) for i in order]
    if with_reset:
        el.fill(copy.deepcopy(GB_VALUES[2]))
        el.reset()
    for v in vals:
        el.fill(v)
    got = [[v[0] for v in g] for g in el.compute()]
    exp, keys = [], []
    for v in vals:
        k = proj(v[1])
        for j, k2 in enumerate(keys):
            if k2 == k:
                exp[j].append(v[0])
                break
        else:
            keys.append(k)
            exp.append([v[0]])
    if got != exp:
        return "%s filled with values %r (contexts equal up to insertion order)%s: groups %r, expected %r" % (
            label, [v[0] for v in vals], " after a reset" if with_reset else "", got, exp)
    return None


def replay_groupby_order(ci, order, with_reset):
    return groupby_order_case(ci, order, with_reset) is not None


def body(R):
    rng = R.rng
    R.scope("GroupBy: equal contexts are one key whatever the insertion order of their items",
            "%d GroupBy configurations x all orders of 3 out of %d tagged values whose contexts are pairwise equal or "
            "different as dictionaries but inserted in different orders (top level and nested), with and without a "
            "preceding fill + reset" % (len(GB_CONFIGS), len(GB_VALUES)), True)
    for ci in range(len(GB_CONFIGS)):
        for order in itertools.permutations(range(len(GB_VALUES)), 3):
            for wr in (False, True):
                R.case(True, {"config": GB_CONFIGS[ci][0], "values": list(order), "reset": wr} if order == (0, 1, 2) else None)
                try:
                    bad = groupby_order_case(ci, list(order), wr)
                except Exception as e:
                    bad = "%s raised %s: %s" % (GB_CONFIGS[ci][0], type(e).__name__, e)
                if bad:
                    R.fail("GroupBy/key-depends-on-insertion-order", bad, {"config": GB_CONFIGS[ci][0], "values": list(order), "reset": wr},
                           {"fn": "replay_groupby_order", "args": [ci, list(order), wr]})
    # 1. all histories over the alphabet, up to a length
    lmax = 7 if R.thorough else 5
    R.scope("fill/compute/reset histories of %d element configurations (Sum, DSum, Mean, VarianceMeanCount, Vectorize, "
            "Count, StoreFilled, GroupBy, Histogram, Graph)" % len(CONFIGS),
            "every history of length 0..%d over {fill bare value | (value, {}), fill (value, tagged nested context), "
            "compute, reset} (Graph[default]: also a context carrying a scale), plus a final compute; the i-th operation "
            "fills the i-th entry of a fixed pool of ints and floats of mixed magnitude (0.5, 1e16, 3, -1e16, 0.1, 7, ...) "
            "or tagged vectors / coordinates / points; compared with the reference on the fills since the last reset "
            "and with a new element on the suffix" % lmax, True)
    for label, cfg in CONFIGS.items():
        for ln in range(lmax + 1):
            for letters in itertools.product(cfg.alphabet, repeat=ln):
                if HANGS[label] >= 3:
                    break
                ops = cfg.concretize(letters)
                fails = run_history(label, ops)
                R.case(any(o[0] == "f" for o in ops), {"config": label, "ops": ops} if ln == 3 else None)
                report(R, label, ops, fails)
    # 2. all short sequences of numbers, no reset (the aggregate clause alone)
    alpha = [-1, 0, 2, 0.5, 1e16, -1e16] if R.thorough else [-1, 0, 2, 0.5, 1e16]
    nmax = 5 if R.thorough else 4
    numeric = [l for l, c in CONFIGS.items() if c.kind == "num"]
    R.scope("aggregate of Sum, DSum, Mean, VarianceMeanCount, Count (%d configurations)" % len(numeric),
            "all sequences of length 0..%d over %r (|x| <= 1e8 for VarianceMeanCount), the last value carrying a "
            "context when the length is odd; compute after the last fill" % (nmax, alpha), True)
    for label in numeric:
        vals = [1e8 if x == 1e16 else -1e8 if x == -1e16 else x for x in alpha] if label.startswith("Variance") else alpha
        for ln in range(nmax + 1):
            for seq in itertools.product(vals, repeat=ln):
                if HANGS[label] >= 3:
                    break
                ops = [["f", x, None] for x in seq]
                if ln % 2:
                    ops[-1][2] = {"k": ln}
                fails = run_history(label, ops)
                R.case(ln > 0)
                report(R, label, ops, fails)
    # 3. random long histories
    nrand = 400 if R.thorough else 40
    maxlen = 30
    R.scope("random histories of the same %d configurations" % len(CONFIGS),
            "%d histories per configuration, length 0..%d, fill 55%% / compute 25%% / reset 20%%, values drawn from the "
            "pools (incl. 1e300, 2**40, 1e-300), contexts absent / {} / nested / colliding with the element's own key"
            % (nrand, maxlen), False)
    for label, cfg in CONFIGS.items():
        for _ in range(nrand):
            ops = cfg.random_ops(rng, maxlen)      # drawn even when skipped: the later cases stay the same
            if HANGS[label] >= 3:
                continue
            fails = run_history(label, ops)
            R.case(any(o[0] == "f" for o in ops))
            report(R, label, ops, fails)
    # 4. DSum exactness on hard float multisets
    nd = 2500 if R.thorough else 250
    R.scope("DSum exactness (and Mean over DSum)",
            "%d random multisets of 0..12 floats/ints: cancellation pairs, 1e300, 5e-324, 2**60, 0.1, random mantissas "
            "with binary exponents in [-1000, 1000]; a compute and sometimes a reset in the middle; reference: "
            "fractions.Fraction" % nd, False)
    hard = [1e16, -1e16, 1.0, 1e-16, 3.3, 0.1, 2 ** 60, -2 ** 60, 1e300, -1e300, 5e-324, -5e-324, 1e-300, 7, -0.1, 2.0 ** -1074]
    for t in range(nd):
        xs = []
        for _ in range(rng.randint(0, 12)):
            if rng.random() < 0.7:
                x = rng.choice(hard)
            else:
                x = rng.uniform(-1, 1) * 2.0 ** rng.randint(-1000, 1000)
            xs.append(x)
            if rng.random() < 0.25:
                xs.append(-x)
        rng.shuffle(xs)
        ops = [["f", x, ({"k": i} if i % 3 == 0 else None)] for i, x in enumerate(xs)]
        if ops:
            ops.insert(rng.randint(0, len(ops)), ["c"])
            if rng.random() < 0.3:
                ops.insert(rng.randint(0, len(ops)), ["r"])
        label = "DSum[default]" if t % 4 else ("Mean[sum_seq=DSum]" if t % 8 else "DSum[start=2.5]")
        if HANGS[label] >= 3:
            continue
        fails = run_history(label, ops)
        R.case(bool(xs))
        report(R, label, ops, fails)
    # 5. documented constructor clauses about reset
    R.scope("constructors of wrappers over an accumulator without reset",
            "Histogram(bins and make_bins) raises LenaTypeError; Vectorize (list and dim forms), VarianceMeanCount and "
            "Mean over an inner accumulator without reset: constructible, documented aggregate after 2 fills, and no "
            "usable reset", True)
    for which in ["Histogram[bins+make_bins]", "Vectorize[inner-without-reset]", "Vectorize[inner-without-reset,dim=2]",
                  "VarianceMeanCount[sum-without-reset]", "Mean[sum_seq-without-reset]"]:
        try:
            fails = check_ctor(which)
        except Exception as e:
            fails = [(which + "/harness-exception-%s" % type(e).__name__, str(e))]
        R.case(True)
        for fid, detail in fails:
            R.fail(fid, "%s: %s" % (which, detail), {"which": which}, {"fn": "replay_ctor", "args": [which, fid]})


if __name__ == "__main__":
    R = Run("C09", {"replay_history": replay_history, "replay_ctor": replay_ctor, "replay_groupby_order": replay_groupby_order})
    sys.exit(R.main(body, "every history over the operation alphabet up to the stated length and every short number "
                          "sequence is enumerated (distinct by construction); random histories add length and value "
                          "breadth; a case is non-trivial when at least one value was filled and a compute of the real "
                          "element was compared with the reference"))
