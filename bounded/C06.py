"""C06 bounded stand-in: real get_bin_on_value*/histogram.fill/Histogram.fill against the property's reference
(number of edges <= value, minus one; exactly one cell += weight or n_out_of_range += weight) on float corner cases.
This exercises the one abstraction of the proof (the interpolation guess) and int()/float() escapes."""
import bisect
import copy
import math
import sys
import os
sys.path.insert(0, os.path.dirname(os.path.dirname(os.path.abspath(__file__))))
from bounded.common import Run, watchdog, Timeout

import lena.core
from lena.structures import get_bin_on_value_1d, get_bin_on_value, histogram, Histogram
from lena.structures.hist_functions import check_edges_increasing


def ref(val, arr):
    return bisect.bisect_right(arr, val) - 1


def gen_edges(rng):
    k = rng.randint(2, 12)
    mode = rng.choice(["int", "uniform", "nonuni", "tiny", "huge", "mixed", "huge-span"])
    if mode == "int":
        xs = sorted(rng.sample(range(-50, 50), k))
    elif mode == "uniform":
        a = rng.uniform(-10, 10)
        h = rng.uniform(1e-3, 5)
        xs = [a + i * h for i in range(k)]
    elif mode == "nonuni":
        xs = sorted(set(rng.choice([1e-9, 1e-3, 1, 1e3, 1e9]) * rng.random() * rng.choice([-1, 1]) for _ in range(k)))
    elif mode == "tiny":
        xs = sorted(set(rng.uniform(-1, 1) * 1e-300 for _ in range(k)))
    elif mode == "huge":
        xs = sorted(set(rng.uniform(-1, 1) * 1e300 for _ in range(k)))
    elif mode == "huge-span":
        xs = sorted(set([-1e16, -1.0, 0, 0.5, 1, 2, 1e16][:k]))
    else:
        xs = sorted(set([0, 1, 1.0000000001, 2, 1e9, 1e9 + 1][:k]))
    xs = sorted(set(xs))
    return xs if len(xs) >= 2 else [0, 1]


def candidates(arr, rng):
    c = set()
    for e in arr:
        c.update([e, math.nextafter(e, math.inf), math.nextafter(e, -math.inf)])
    c.update([arr[0] - 1e6, arr[-1] + 1e6, (arr[0] + arr[-1]) / 2, rng.uniform(arr[0], arr[-1])])
    return sorted(c)


_HANGS = [0]


def guarded(fn, *args):
    """run the real function under a watchdog: a hang becomes the value "NON-TERMINATION" (after 10 hangs the limit drops
    to 0.25 s so that a tree where many inputs hang is still reported within the time of a quick check)"""
    try:
        with watchdog(2 if _HANGS[0] < 10 else 0.25):
            return fn(*args)
    except Timeout:
        _HANGS[0] += 1
        return "NON-TERMINATION"


def replay_1d(val, arr):
    try:
        with watchdog(2):
            return get_bin_on_value_1d(val, arr) != ref(val, arr)
    except Timeout:
        return True


def replay_fill(edges, fills):
    return bool(check_fill(edges, fills))


def check_fill(edges, fills):
    """returns a description of the first disagreement or None"""
    dim = len(edges)
    h = histogram(copy.deepcopy(edges) if dim > 1 else list(edges[0]))
    total = 0
    for coord, w in fills:
        before = copy.deepcopy(h.bins)
        noor = h.n_out_of_range
        edges_before = copy.deepcopy(h.edges)
        if guarded(h.fill, coord if dim > 1 else coord[0], w) == "NON-TERMINATION":
            return "fill(%r, %r) does not terminate" % (coord, w)
        idx = [ref(c, e) for c, e in zip(coord, edges)]
        inr = all(0 <= i < len(e) - 1 for i, e in zip(idx, edges))
        exp = copy.deepcopy(before)
        if inr:
            sub = exp
            for i in idx[:-1]:
                sub = sub[i]
            sub[idx[-1]] += w
            ok = h.bins == exp and h.n_out_of_range == noor
        else:
            ok = h.bins == before and h.n_out_of_range == noor + w
        if not ok:
            return "fill(%r, %r): bins %r -> %r, n_out_of_range %r -> %r, expected cell %r" % (
                coord, w, before, h.bins, noor, h.n_out_of_range, idx if inr else "out of range")
        if h.edges != edges_before:
            return "fill changed the edges"
        total += w
    return None


def _shape_bins(edges, value):
    def mk(k):
        if k == len(edges):
            return value
        return [mk(k + 1) for _ in range(len(edges[k]) - 1)]
    return mk(0)


def check_element_history(edges, how, rounds):
    """the Histogram ELEMENT reused as FillCompute / FillRequest sequences reuse it: fills, compute, reset, fills ...;
    after every compute the yielded structure must hold exactly the weight filled since the last reset (on top of the
    initial content), cell by cell, and n_out_of_range the fills that fell outside.  Returns a description or None"""
    dim = len(edges)
    e_arg = copy.deepcopy(edges) if dim > 1 else list(edges[0])
    init = 0
    try:
        if how == "bins":
            init = 2
            el = Histogram(e_arg, bins=_shape_bins(edges, 2))
        elif how == "make_bins":
            init = 3
            el = Histogram(e_arg, make_bins=lambda: _shape_bins(edges, 3))
        elif how == "initial_value":
            init = 5
            el = Histogram(e_arg, initial_value=5)
        else:
            el = Histogram(e_arg)
    except Exception as e:
        return "constructor raised %s: %s" % (type(e).__name__, e)
    exp = _shape_bins(edges, init)
    if dim == 1:
        exp = list(exp)
    noor = 0
    k = 0
    for coords, do_reset in rounds:
        for coord in coords:
            data = tuple(coord) if dim > 1 else coord[0]
            k += 1
            try:
                if guarded(el.fill, (data, {"k": k}) if k % 2 else data) == "NON-TERMINATION":
                    return "fill(%r) does not terminate" % (data,)
            except Exception as e:
                return "fill(%r) raised %s: %s" % (data, type(e).__name__, e)
            idx = [ref(c, e) for c, e in zip(coord, edges)]
            if all(0 <= i < len(e) - 1 for i, e in zip(idx, edges)):
                sub = exp
                for i in idx[:-1]:
                    sub = sub[i]
                sub[idx[-1]] += 1
            else:
                noor += 1
        try:
            res = list(el.compute())
        except Exception as e:
            return "compute raised %s: %s" % (type(e).__name__, e)
        if len(res) != 1:
            return "compute yielded %d values" % len(res)
        hist = res[0][0] if isinstance(res[0], tuple) else res[0]
        if hist.bins != exp or hist.n_out_of_range != noor:
            return ("after %d fills (since the last reset) bins = %r, n_out_of_range = %r; expected %r and %r"
                    % (len(coords), hist.bins, hist.n_out_of_range, exp, noor))
        if do_reset:
            try:
                el.reset()
            except Exception as e:
                return "reset raised %s: %s" % (type(e).__name__, e)
            exp = _shape_bins(edges, init)
            noor = 0
    return None


def replay_element(edges, how, rounds):
    return bool(check_element_history(edges, how, rounds))


def flat_sum(b):
    return sum(flat_sum(x) for x in b) if isinstance(b, list) else b


def body(R):
    rng = R.rng
    n_arr = 20000 if R.thorough else 1500
    R.scope("hist_functions.get_bin_on_value_1d",
            "%d random strictly increasing edge arrays (2..12 edges; int/uniform/non-uniform/1e-300/1e300/1e16-span), "
            "each edge, its nextafter neighbours, far outside values; reference bisect_right-1" % n_arr, False)
    for _ in range(n_arr):
        arr = gen_edges(rng)
        for v in candidates(arr, rng):
            try:
                got = guarded(get_bin_on_value_1d, v, arr)
            except Exception as e:
                got = "EXC %s" % type(e).__name__
            exp = ref(v, arr)
            R.case(True, {"val": v, "arr": arr, "expected": exp})
            R.check(got == exp, "get_bin_on_value_1d", "get_bin_on_value_1d(%r, %r) = %r, expected %r" % (v, arr, got, exp),
                    {"val": v, "arr": arr}, {"fn": "replay_1d", "args": [v, arr]})
    # exhaustive small integer scope
    R.scope("hist_functions.get_bin_on_value_1d", "all strictly increasing integer arrays over {0..6} of length 1..5, all values k/2 in [-1, 7]", True)
    import itertools
    for ln in range(1, 6):
        for arr in itertools.combinations(range(7), ln):
            arr = list(arr)
            for v2 in range(-2, 15):
                v = v2 / 2
                try:
                    got = guarded(get_bin_on_value_1d, v, arr)
                except Exception as e:
                    got = "EXC %s" % type(e).__name__
                R.case(True)
                R.check(got == ref(v, arr), "get_bin_on_value_1d", "get_bin_on_value_1d(%r, %r) = %r, expected %r" % (v, arr, got, ref(v, arr)),
                        {"val": v, "arr": arr}, {"fn": "replay_1d", "args": [v, arr]})
    # exact python integers beyond 2**53 (e.g. nanosecond time stamps) with bins narrower than the float spacing there
    R.scope("hist_functions.get_bin_on_value_1d",
            "integer edges B + w*i (B in {2**53, 17*10**17, 10**30}, w in {1, 3, 100}, 2..8 edges) and integer values at every "
            "edge, edge-1, edge+1 and mid-bin: compared exactly (python ints), reference bisect_right-1", True)
    for B in (2 ** 53, 17 * 10 ** 17, 10 ** 30):
        for w in (1, 3, 100):
            for ne in range(2, 9):
                arr = [B + w * i for i in range(ne)]
                vals = set()
                for e in arr:
                    vals.update([e - 1, e, e + 1, e + w // 2])
                for v in sorted(vals):
                    try:
                        got = guarded(get_bin_on_value_1d, v, arr)
                    except Exception as e:
                        got = "EXC %s" % type(e).__name__
                    exp = ref(v, arr)
                    R.case(True)
                    R.check(got == exp, "get_bin_on_value_1d", "get_bin_on_value_1d(%r, %r) = %r, expected %r" % (v, arr, got, exp),
                            {"val": v, "arr": arr}, {"fn": "replay_1d", "args": [v, arr]})
    n_h = 3000 if R.thorough else 400
    R.scope("histogram.fill / get_bin_on_value (dims 1..3)",
            "%d random histograms (2..5 edges per axis), 10 fills each at edges/outside/inside, weights {1,2,0.5,-1}" % n_h, False)
    for _ in range(n_h):
        dim = rng.randint(1, 3)
        edges = [gen_edges(rng)[:rng.randint(2, 5)] for _ in range(dim)]
        edges = [e if len(e) >= 2 else [0, 1] for e in edges]
        fills = []
        for _ in range(10):
            coord = [rng.choice(e + [e[0] - 1, e[-1] + 1, (e[0] + e[-1]) / 2, math.nextafter(e[-1], -math.inf)]) for e in edges]
            fills.append((coord, rng.choice([1, 2, 0.5, -1])))
        try:
            bad = check_fill(edges, fills)
        except Exception as e:
            bad = "exception %s: %s" % (type(e).__name__, e)
        R.case(True, {"edges": edges, "fills": fills[:2]})
        R.check(not bad, "histogram.fill", "histogram.fill: %s" % bad, {"edges": edges, "fills": fills},
                {"fn": "replay_fill", "args": [edges, fills]})
        # get_bin_on_value agrees pointwise with the 1-d reference
        coord = fills[0][0]
        try:
            got = guarded(get_bin_on_value, coord if dim > 1 else coord[0], edges if dim > 1 else edges[0])
        except Exception as e:
            got = "EXC %s" % type(e).__name__
        R.check(not isinstance(got, str) and list(got) == [ref(c, e) for c, e in zip(coord, edges)], "get_bin_on_value",
                "get_bin_on_value(%r, %r) = %r" % (coord, edges, got), {"coord": coord, "edges": edges})
    R.scope("Histogram element: fill / compute / reset histories",
            "%d histories of 2..3 rounds (each: 0..6 fills with and without context incl. under / overflows, compute, then "
            "reset or not), constructed from edges alone, with initial bins and with make_bins; after every compute: "
            "sum(bins) + n_out_of_range == weight filled since the last reset (+ the initial content), per-cell reference" % n_h, False)
    for _ in range(n_h):
        dim = rng.randint(1, 2)
        edges = [gen_edges(rng)[:rng.randint(2, 5)] for _ in range(dim)]
        how = rng.choice(["edges", "edges", "bins", "make_bins", "initial_value"])
        rounds = []
        for _r in range(rng.randint(2, 3)):
            coords = []
            for k in range(rng.randint(0, 6)):
                coords.append([rng.choice(e + [e[0] - 1, e[-1] + 1, (e[0] + e[-1]) / 2]) for e in edges])
            rounds.append((coords, rng.random() < 0.7))
        bad = check_element_history(edges, how, rounds)
        R.case(True, {"edges": edges, "how": how})
        R.check(not bad, "Histogram.weight", "Histogram element (%s) over %r: %s" % (how, edges, bad),
                {"edges": edges, "how": how, "rounds": rounds}, {"fn": "replay_element", "args": [edges, how, rounds]})
    R.scope("check_edges_increasing", "edge arrays of length 0..4 over {0,1,2} in 1 and 2 dimensions: LenaValueError iff not strictly increasing or too short", True)
    for ln in range(0, 5):
        for arr in itertools.product([0, 1, 2], repeat=ln):
            arr = list(arr)
            good = len(arr) >= 2 and all(a < b for a, b in zip(arr, arr[1:]))
            for edges in ([arr] if False else [arr, [arr, [0, 1]], [[0, 1], arr]]):
                if not edges:
                    continue
                try:
                    check_edges_increasing(edges)
                    raised = None
                except lena.core.LenaValueError:
                    raised = "LenaValueError"
                except Exception as e:
                    raised = type(e).__name__
                R.case(True)
                R.check(raised == (None if good else "LenaValueError"), "check_edges_increasing",
                        "check_edges_increasing(%r): %s, expected %s" % (edges, raised, None if good else "LenaValueError"), {"edges": edges})


if __name__ == "__main__":
    R = Run("C06", {"replay_1d": replay_1d, "replay_fill": replay_fill, "replay_element": replay_element})
    sys.exit(R.main(body, "random and exhaustive edge arrays with float corner coordinates; a case is non-trivial when the "
                          "real function was executed and compared with the reference; distinct by construction of the enumeration"))
