"""C19 bounded stand-in: "output files always match the current data and nothing unchanged is redone".

The REAL elements ToCSV, MakeFilename, Write, RenderLaTeX, Write, LaTeXToPDF, PDFToPNG (and group_plots / MapGroup in
front of them) are run over histories of runs on a temporary directory.  pdflatex / pdftoppm are never launched: a
recording shell stub is passed through create_command and a stub `pdftoppm` (and a guard `pdflatex`) is first on PATH
inside the temporary directory.  The stub "pdf" embeds the content of the tex file and of every csv the tex names, the
stub "png" embeds the pdf, so that staleness of a derived artefact is visible in its content.  Between runs all output
files are aged by 1000 s (time passes between runs), so that a rewrite is visible as a fresh mtime.

Reference (from the property text, the docstrings where the property is silent, DESIGN section 5/9):
  * after a run each csv / tex exists at output_directory/dirname/filename.fileext with the content produced from the
    current data / template (except files kept on purpose by existing_unchanged);
  * a file is written iff it was missing, overwrite is set, or its content differs;
  * output.changed is True after an element that wrote / launched, keeps True downstream, is not True otherwise;
  * a converter is launched iff overwrite, its product is missing, or output.changed is true (mtime rule when absent);
  * pdf == stub(tex on disk, csv on disk), png == stub(pdf on disk)  (the chain consequence);
  * a tex/csv re-created with the content the pdf was rendered from need not trigger a regeneration (DESIGN section 9).
"""
import atexit
import collections
import copy
import itertools
import os
import re
import shutil
import sys
import tempfile
import time

sys.path.insert(0, os.path.dirname(os.path.dirname(os.path.abspath(__file__))))
from bounded.common import Run, watchdog, Timeout

import lena.core
import lena.flow
import lena.output
from lena.core import Sequence
from lena.flow import group_plots, MapGroup
from lena.output import ToCSV, MakeFilename, Write, RenderLaTeX, LaTeXToPDF, PDFToPNG
from lena.structures import histogram

ROW10 = "Write.run/created-file-changed-not-set"       # DESIGN section 6 row 10
AGE = 1000 * 10 ** 9                                   # ns by which files are aged between runs
MODES = ("default", "write_existing_unchanged", "write_overwrite", "latex_overwrite", "png_overwrite")
_WORLDS = []


# ---------------------------------------------------------------------------------------------- reference texts
def csv_text(bins, edges=(0, 1, 2)):
    """ToCSV docstring: one row per bin 'edge,content' with %f formatting, the last bin written twice (at the last
    edge), rows joined by a newline, nothing after the last row"""
    rows = ["%f,%f" % (float(e), float(b)) for e, b in zip(edges[:-1], bins)]
    rows.append("%f,%f" % (float(edges[-1]), float(bins[-1])))
    return "\n".join(rows)


def bins_of(i, v):
    """data of plot i in version v"""
    return [v, i + 1]


def tpl_source(kind, t):
    if kind == "group":
        return "G%d\n\\BLOCK{for item in group}\nCSV \\VAR{item.output.filepath}\n\\BLOCK{endfor}\nEND" % t
    return "T%d\nCSV \\VAR{output.filepath}\nEND" % t


def tex_text(kind, t, csv_paths):
    return ("G%d\n" if kind == "group" else "T%d\n") % t + "".join("CSV %s\n" % p for p in csv_paths) + "END"


def enc(s):
    lines = s.split("\n")
    if lines and lines[-1] == "":
        lines.pop()
    return "".join(l + "~" for l in lines)


def pdf_text(tex, csvs):
    return "PDF[" + enc(tex) + "".join("|" + ("MISSING" if c is None else enc(c)) for c in csvs) + "]"


def png_text(pdf):
    return "PNG[" + pdf + "]"


def pdf_parts(pdf):
    if not (pdf.startswith("PDF[") and pdf.endswith("]")):
        return None
    return pdf[4:-1].split("|")


TEX_STUB = """#!/bin/sh
# $1 tex  $2 pdf  $3 log ; builtins only (cheap to spawn)
out='PDF['
while IFS= read -r l || [ -n "$l" ]; do out="$out$l~"; done < "$1"
while IFS= read -r l || [ -n "$l" ]; do
  case "$l" in
    "CSV "*) out="$out|"; p="${l#CSV }"
      if [ -r "$p" ]; then while IFS= read -r c || [ -n "$c" ]; do out="$out$c~"; done < "$p"; else out="${out}MISSING"; fi;;
  esac
done < "$1"
printf '%s]' "$out" > "$2"
echo "latex $1" >> "$3"
"""

PNG_STUB = """#!/bin/sh
c=''
[ -r "$1" ] && IFS= read -r c < "$1"
ext=png
[ -n "$3" ] && ext="${3#-}"
printf 'PNG[%%s]' "$c" > "$2.$ext"
echo "png $*" >> %s
"""

GUARD_STUB = """#!/bin/sh
echo "REAL-PDFLATEX-REQUESTED $*" >> %s
exit 1
"""


# ---------------------------------------------------------------------------------------------- the world
class Tap(object):
    """records what the previous element yields (data, context.output, content of the named file at that moment)"""

    def __init__(self, stage, store):
        self.stage, self.store = stage, store

    def run(self, flow):
        for val in flow:
            data, ctx = (val[0], val[1]) if (isinstance(val, tuple) and len(val) == 2 and isinstance(val[1], dict)) else (val, {})
            content = None
            if isinstance(data, str) and os.path.isfile(data):
                with open(data) as f:
                    content = f.read()
            self.store.append({"stage": self.stage, "key": ctx.get("name", "combined"), "data": data,
                               "output": copy.deepcopy(ctx.get("output")), "file": content})
            yield val


class World(object):
    def __init__(self):
        self.root = tempfile.mkdtemp(prefix="C19-", dir="/var/tmp")
        _WORLDS.append(self)
        self.out = os.path.join(self.root, "out")
        self.tpl = os.path.join(self.root, "tpl")
        self.bin = os.path.join(self.root, "bin")
        self.log = os.path.join(self.root, "log")
        os.makedirs(self.tpl)
        os.makedirs(self.bin)
        self.texstub = os.path.join(self.bin, "texstub")
        for path, text in ((self.texstub, TEX_STUB), (os.path.join(self.bin, "pdftoppm"), PNG_STUB % self.log),
                           (os.path.join(self.bin, "pdflatex"), GUARD_STUB % self.log)):
            with open(path, "w") as f:
                f.write(text)
            os.chmod(path, 0o755)
        self.old_path = os.environ.get("PATH", "")
        os.environ["PATH"] = self.bin + ":" + self.old_path
        self.calls = []
        self.closed = False

    def close(self):
        if self.closed:
            return
        self.closed = True
        os.environ["PATH"] = self.old_path
        shutil.rmtree(self.root, ignore_errors=True)

    # --- stub converter command
    def create_command(self, texfile, outfile, outdir, context):
        self.calls.append((texfile, outfile, outdir))
        return [self.texstub, texfile, outfile, self.log]

    # --- file system
    def snapshot(self, base=None):
        base = base or self.out
        snap = {}
        for d, _, files in os.walk(base):
            for fn in files:
                p = os.path.join(d, fn)
                with open(p) as f:
                    snap[os.path.relpath(p, base)] = (f.read(), os.stat(p).st_mtime_ns)
        return snap

    def restore(self, snap):
        shutil.rmtree(self.out, ignore_errors=True)
        for rel, (content, mt) in snap.items():
            p = os.path.join(self.out, rel)
            d = os.path.dirname(p)
            if not os.path.isdir(d):
                os.makedirs(d)
            with open(p, "w") as f:
                f.write(content)
            os.utime(p, ns=(mt, mt))

    def age(self):
        for d, _, files in os.walk(self.out):
            for fn in files:
                p = os.path.join(d, fn)
                mt = os.stat(p).st_mtime_ns - AGE
                os.utime(p, ns=(mt, mt))

    def read_log(self):
        if not os.path.exists(self.log):
            return []
        with open(self.log) as f:
            return [l for l in f.read().split("\n") if l]

    def clear_log(self):
        open(self.log, "w").close()
        self.calls = []


@atexit.register
def _cleanup():
    for w in _WORLDS:
        w.close()


# ---------------------------------------------------------------------------------------------- pipelines
def units_of(cfg):
    sub = "sub/" if cfg.get("dirname") else ""
    n = cfg["n"]
    if cfg["kind"] == "group":
        return [{"key": "combined", "base": sub + "combined",
                 "members": [("p%d" % i, sub + "p%d.csv" % i, i) for i in range(n)]}]
    return [{"key": "p%d" % i, "base": sub + "p%d" % i, "members": [("p%d" % i, sub + "p%d.csv" % i, i)]}
            for i in range(n)]


def all_files(cfg):
    res = []
    for u in units_of(cfg):
        res.extend(m[1] for m in u["members"])
        res.extend(u["base"] + e for e in (".tex", ".pdf", ".png"))
    return res


def build(world, cfg, taps):
    mode = cfg["mode"]
    w = Write(world.out, verbose=False, existing_unchanged=(mode == "write_existing_unchanged"),
              overwrite=(mode == "write_overwrite"))
    if cfg.get("dirname"):
        mf = MakeFilename("{{name}}", dirname="sub")
    else:
        mf = MakeFilename("{{name}}")
    l2p = LaTeXToPDF(overwrite=(mode == "latex_overwrite"), verbose=0, create_command=world.create_command)
    p2p = PDFToPNG(overwrite=(mode == "png_overwrite"), verbose=False)
    if cfg["kind"] == "group":
        return Sequence(MapGroup(ToCSV(), mf, Tap("C", taps), w, Tap("W1", taps)), Tap("G", taps), MakeFilename("combined"),
                        RenderLaTeX("g.tex", template_dir=world.tpl), Tap("R", taps), w, Tap("W2", taps), l2p, Tap("L", taps), p2p)
    return Sequence(ToCSV(), mf, Tap("C", taps), w, Tap("W1", taps), RenderLaTeX("t.tex", template_dir=world.tpl), Tap("R", taps),
                    w, Tap("W2", taps), l2p, Tap("L", taps), p2p)


def make_flow(cfg, data):
    vals = [(histogram([0, 1, 2], bins_of(i, v)), {"name": "p%d" % i}) for i, v in enumerate(data)]
    if cfg["kind"] == "group":
        return [group_plots(vals)]
    return vals


def truthy(x):
    return bool(x)


_TPL_CLOCK = [0]


def do_step(world, cfg, step, prev, pipe=None):
    """applies one step of a history (data/template versions, deletions), runs the pipeline once, checks it.
    prev is the previous step (or None).  pipe = {} makes the elements be built once and reused by later calls
    (cfg['reuse']), otherwise every run gets fresh elements (a new process).  Returns the list of (fid, text)."""
    _TPL_CLOCK[0] += 1
    for k in ("t", "g"):
        tp = os.path.join(world.tpl, k + ".tex")
        with open(tp, "w") as f:
            f.write(tpl_source("group" if k == "g" else "single", step["tpl"]))
        # a strictly increasing mtime: the template loader of a reused RenderLaTeX must see every edit
        mt = time.time_ns() - 10 * AGE + _TPL_CLOCK[0] * 10 ** 9
        os.utime(tp, ns=(mt, mt))
    for rel in step["delete"]:
        p = os.path.join(world.out, rel)
        if os.path.exists(p):
            os.remove(p)
    pre = world.snapshot()
    world.clear_log()
    taps = []
    results = None
    exc = None
    try:
        with watchdog(20):
            if pipe is None:
                seq = build(world, cfg, taps)
            else:
                if "seq" not in pipe:
                    pipe["taps"] = []
                    pipe["seq"] = build(world, cfg, pipe["taps"])
                taps = pipe["taps"]
                del taps[:]
                seq = pipe["seq"]
            results = list(seq.run(iter(make_flow(cfg, step["data"]))))
    except Timeout:
        exc = "Timeout"
    except Exception as e:
        exc = "%s: %s" % (type(e).__name__, str(e)[:200])
    post = world.snapshot()
    log = world.read_log()
    calls = list(world.calls)
    problems = check(world, cfg, step, prev, pre, post, taps, results, log, calls, exc)
    world.age()
    return [(fid, text.replace(world.root, "<tmp>")) for fid, text in problems]


# ---------------------------------------------------------------------------------------------- the oracle
def check(world, cfg, step, prev, pre, post, taps, results, log, calls, exc):
    P = []

    def bad(fid, text):
        P.append((fid, text))

    if exc is not None:
        bad("pipeline/" + ("timeout" if exc == "Timeout" else "exception:" + exc.split(":")[0]), "the run raised " + exc)
        return P
    kind, mode = cfg["kind"], cfg["mode"]
    w_over, w_keep = mode == "write_overwrite", mode == "write_existing_unchanged"
    l_over, p_over = mode == "latex_overwrite", mode == "png_overwrite"
    out = world.out

    def A(rel):
        return os.path.join(out, rel)

    def written(rel):
        return rel in post and (rel not in pre or post[rel][1] != pre[rel][1])

    latex_lines, png_lines = collections.Counter(), collections.Counter()
    for line in log:
        if line.startswith("latex "):
            latex_lines[line[6:]] += 1
        elif line.startswith("png "):
            png_lines[line[4:]] += 1
    tapd = collections.defaultdict(list)
    for t in taps:
        tapd[(t["stage"], t["key"])].append(t)
    finals = collections.defaultdict(list)
    for r in results:
        if isinstance(r, tuple) and len(r) == 2 and isinstance(r[1], dict):
            finals[r[1].get("name", "combined")].append(r)
        else:
            bad("flow/foreign-value-yielded", "the pipeline yielded %r" % (r,))

    def one(lst, stage, key):
        if len(lst) != 1:
            bad("flow/value-lost-or-duplicated:" + stage, "%d values for %s at stage %s (expected exactly 1)" % (len(lst), key, stage))
            return None
        return lst[0]

    def flag(outp):
        return None if not isinstance(outp, dict) else outp.get("changed")

    all_consistent_before = True
    anything_redone = []
    for u in units_of(cfg):
        key, base = u["key"], u["base"]
        tex, pdf, png = base + ".tex", base + ".pdf", base + ".png"
        csv_rels = [m[1] for m in u["members"]]
        exp_csv = [csv_text(bins_of(m[2], step["data"][m[2]])) for m in u["members"]]
        exp_tex = tex_text(kind, step["tpl"], [A(c) for c in csv_rels])

        # consistency of the state the run started from (used only to recognise inherited staleness)
        def consistent(snap):
            if pdf not in snap or tex not in snap:
                return False
            if snap[pdf][0] != pdf_text(snap[tex][0], [snap[c][0] if c in snap else None for c in csv_rels]):
                return False
            return png in snap and snap[png][0] == png_text(snap[pdf][0])
        if not consistent(pre) or any(c not in pre or pre[c][0] != e for c, e in zip(csv_rels, exp_csv)) \
                or pre[tex][0] != exp_tex:
            all_consistent_before = False

        # ---------------- Write, once per source file
        def write_stage(rel, exp, what, tin, tap, flag_in, part):
            # what arrives at Write is judged against the current data, Write itself against what arrived
            if tin is not None:
                if tin["data"] != exp:
                    bad(("ToCSV.run/csv-text-wrong" if what == "csv" else "RenderLaTeX.run/tex-text-wrong"),
                        "text for %s is %r, the current data/template give %r" % (rel, tin["data"], exp))
                    if isinstance(tin["data"], str):
                        exp = tin["data"]
                ti = tin["output"] or {}
                if ti.get("filetype") != what or (what == "csv" and ti.get("filename") != os.path.basename(rel)[:-4]) \
                        or (cfg.get("dirname") and ti.get("dirname") != "sub"):
                    bad("pipeline/context-before-Write", "context.output before Write(%s) is %r" % (rel, ti))
            existed = rel in pre
            same = existed and pre[rel][0] == exp
            must_write = (not existed) or w_over or (not w_keep and not same)
            wr = written(rel)
            if rel not in post:
                bad("Write.run/file-missing:" + what, "%s does not exist after the run" % rel)
            else:
                want = pre[rel][0] if (w_keep and existed) else exp
                if post[rel][0] != want:
                    bad("Write.run/wrong-content:" + what, "%s holds %r after the run, the current data give %r (before the run: %s)"
                        % (rel, post[rel][0], want, ("%r" % pre[rel][0]) if existed else "missing"))
                if must_write and not wr and w_over:
                    bad("Write.run/overwrite-did-not-write", "%s was not rewritten although overwrite=True" % rel)
                if wr and not must_write:
                    bad("Write.run/existing_unchanged-rewrote-file" if w_keep else "Write.run/rewrote-identical-file",
                        "%s existed%s and was rewritten" % (rel, "" if w_keep else " with identical content"))
            if wr:
                anything_redone.append("wrote " + rel)
            if tap is None:
                return None
            if tap["data"] != A(rel):
                bad("Write.run/yielded-path", "Write yielded %r for %s, expected output_directory/dirname/filename.fileext = %r"
                    % (tap["data"], what, A(rel)))
            else:
                want = pre[rel][0] if (w_keep and existed) else exp
                if tap["file"] != want:
                    bad("Write.run/file-not-final-at-yield", "when Write yielded %s the file held %r, expected %r" % (rel, tap["file"], want))
            o = tap["output"] or {}
            fn, fe = os.path.basename(rel).rsplit(".", 1)
            if o.get("filepath") != A(rel) or o.get("filename") != fn or o.get("fileext") != fe:
                bad("Write.run/context-output-fields", "after writing %s context.output is %r" % (rel, o))
            f_out = flag(o)
            if wr:
                if f_out is not True:
                    if not existed:
                        # reported here only where it matters (an existing pdf was rendered from other content);
                        # the bare flag is judged in the Write.run decision table
                        have = pdf_parts(pre[pdf][0]) if pdf in pre else None
                        if have is not None and (part >= len(have) or have[part] != enc(exp)):
                            bad(ROW10, "%s was missing and had to be created with content %s was not rendered from, Write left "
                                       "output.changed = %r%s" % (rel, pdf, f_out, " (absent)" if "changed" not in o else ""))
                    else:
                        bad("Write.run/changed-not-set-on-overwrite" if w_over else "Write.run/changed-not-set-on-rewrite",
                            "%s was rewritten with new content, output.changed = %r" % (rel, f_out))
            elif truthy(flag_in):
                if f_out is not True:
                    bad("Write.run/changed-not-kept-downstream", "output.changed was %r before Write(%s) and %r after" % (flag_in, rel, f_out))
            elif truthy(f_out):
                bad("Write.run/changed-set-without-write", "%s was not written, yet output.changed = %r (was %r)" % (rel, f_out, flag_in))
            return f_out

        f1 = []
        for k, ((mname, rel, i), exp) in enumerate(zip(u["members"], exp_csv)):
            tin = one(tapd[("C", mname)], "ToCSV", mname)
            tap = one(tapd[("W1", mname)], "Write#1", mname)
            f1.append(write_stage(rel, exp, "csv", tin, tap, None, 1 + k))
        if kind == "group":
            g = one(tapd[("G", key)], "MapGroup", key)
            fg = flag(g["output"]) if g else None
            if any(truthy(x) for x in f1):
                if g and fg is not True:
                    bad("MapGroup/changed-not-combined", "members have output.changed %r, the group got %r" % (f1, fg))
            elif g and truthy(fg):
                bad("MapGroup/changed-set-without-member-change", "members have output.changed %r, the group got %r" % (f1, fg))
            if g and g["data"] != [A(c) for c in csv_rels]:
                bad("MapGroup/group-data", "MapGroup yielded data %r" % (g["data"],))
        else:
            fg = f1[0]
        tap2 = one(tapd[("W2", key)], "Write#2", key)
        f2 = write_stage(tex, exp_tex, "tex", one(tapd[("R", key)], "RenderLaTeX", key), tap2, fg, 0)

        # ---------------- LaTeXToPDF
        n_tex = latex_lines.pop(A(tex), 0)
        pdf_existed = pdf in pre
        if l_over:
            must, why = True, "overwrite-did-not-launch"
        elif not pdf_existed:
            must, why = True, "missing-pdf-not-created"
        elif truthy(f2):
            must, why = True, "not-regenerated-although-changed"
        elif f2 is None and tap2 is not None and "changed" not in (tap2["output"] or {}) and written(tex):
            must, why = True, "mtime-rule-newer-tex-not-reprocessed"
        else:
            must, why = False, None
        if tap2 is not None:
            if must and n_tex == 0:
                bad("LaTeXToPDF.run/" + why, "%s: converter not launched (pdf existed: %s, output.changed in: %r, overwrite: %s)"
                    % (tex, pdf_existed, f2, l_over))
            if not must and n_tex > 0:
                bad("LaTeXToPDF.run/launched-without-change", "%s: converter launched although %s exists and output.changed is %r" % (tex, pdf, f2))
        if n_tex > 1:
            bad("LaTeXToPDF.run/launched-twice", "%s: converter launched %d times in one run" % (tex, n_tex))
        if n_tex:
            anything_redone.append("launched latex for " + tex)
        for c in [c for c in calls if c[0] == A(tex)]:
            if c != (A(tex), A(pdf), os.path.dirname(A(tex))):
                bad("LaTeXToPDF.run/create_command-arguments", "create_command called with %r" % (c,))
        tapl = one(tapd[("L", key)], "LaTeXToPDF", key)
        f3 = None
        if tapl:
            o = tapl["output"] or {}
            f3 = flag(o)
            if tapl["data"] != A(pdf) or o.get("filetype") != "pdf":
                bad("LaTeXToPDF.run/yielded-value", "LaTeXToPDF yielded %r with output %r, expected %r / filetype pdf" % (tapl["data"], o, A(pdf)))
            elif tapl["file"] is None:
                bad("LaTeXToPDF.run/yielded-before-pdf-exists", "%s did not exist when it was yielded" % pdf)
            if n_tex > 0 and f3 is not True:
                bad("LaTeXToPDF.run/changed-not-set-after-launch", "%s regenerated, output.changed = %r" % (pdf, f3))
            elif n_tex == 0 and truthy(f2) and f3 is not True:
                bad("LaTeXToPDF.run/changed-not-kept-downstream", "output.changed %r before LaTeXToPDF, %r after" % (f2, f3))
            elif n_tex == 0 and not truthy(f2) and truthy(f3):
                bad("LaTeXToPDF.run/changed-set-without-launch", "%s not regenerated, output.changed = %r" % (pdf, f3))
        if pdf not in post:
            bad("LaTeXToPDF.run/pdf-missing-after-run", "%s does not exist after the run" % pdf)
        elif tex in post:
            srcs = [tex] + csv_rels
            want_parts = [enc(post[tex][0])] + [enc(post[c][0]) if c in post else "MISSING" for c in csv_rels]
            if post[pdf][0] != pdf_text(post[tex][0], [post[c][0] if c in post else None for c in csv_rels]):
                have = pdf_parts(post[pdf][0]) or []
                mism = [s for k, s in enumerate(srcs) if k >= len(have) or have[k] != want_parts[k]]
                causes = [s for s in mism if written(s)]
                if n_tex > 0:
                    bad("LaTeXToPDF.run/pdf-inconsistent-after-launch", "%s was regenerated but holds %r, sources give %r"
                        % (pdf, post[pdf][0], "|".join(want_parts)))
                elif causes:
                    created = [s for s in causes if s not in pre]
                    if len(created) == len(causes) and not truthy(f2):
                        bad(ROW10, "%s had to be created with content the pdf was not rendered from, output.changed stayed %r "
                                   "=> %s is stale: it still holds %r" % (", ".join(created), f2, pdf, post[pdf][0]))
                    else:
                        bad("chain/stale-pdf", "%s rewritten in this run (output.changed into LaTeXToPDF: %r) but %s still holds %r"
                            % (", ".join(causes), f2, pdf, post[pdf][0]))
                # else: inherited from an earlier run of this history (reported there)

        # ---------------- PDFToPNG
        n_png = png_lines.pop("%s %s -png -singlefile" % (A(pdf), A(base)), 0)
        png_existed = png in pre
        if p_over:
            must, why = True, "overwrite-did-not-launch"
        elif not png_existed:
            must, why = True, "missing-png-not-created"
        elif truthy(f3):
            must, why = True, "not-regenerated-although-changed"
        else:
            must, why = False, None
        if tapl is not None:
            if must and n_png == 0:
                bad("PDFToPNG.run/" + why, "%s: pdftoppm not launched (png existed: %s, output.changed in: %r, overwrite: %s)"
                    % (pdf, png_existed, f3, p_over))
            if not must and n_png > 0:
                bad("PDFToPNG.run/launched-without-change", "%s: pdftoppm launched although %s exists and output.changed is %r" % (pdf, png, f3))
        if n_png > 1:
            bad("PDFToPNG.run/launched-twice", "%s: pdftoppm launched %d times in one run" % (pdf, n_png))
        if n_png:
            anything_redone.append("launched pdftoppm for " + pdf)
        fin = one(finals[key], "PDFToPNG", key)
        if fin:
            o = fin[1].get("output") or {}
            f4 = flag(o)
            if fin[0] != A(png) or o.get("filetype") != "png":
                bad("PDFToPNG.run/yielded-value", "PDFToPNG yielded %r with output %r, expected %r / filetype png" % (fin[0], o, A(png)))
            if n_png > 0 and f4 is not True:
                bad("PDFToPNG.run/changed-not-set-after-launch", "%s regenerated, output.changed = %r" % (png, f4))
            elif n_png == 0 and truthy(f4):
                bad("PDFToPNG.run/changed-set-without-launch", "%s not regenerated, output.changed = %r" % (png, f4))
        if png not in post:
            bad("PDFToPNG.run/png-missing-after-run", "%s does not exist after the run" % png)
        elif pdf in post and post[png][0] != png_text(post[pdf][0]):
            if n_png > 0:
                bad("PDFToPNG.run/png-inconsistent-after-launch", "%s was regenerated but holds %r" % (png, post[png][0]))
            elif written(pdf):
                bad("chain/stale-png", "%s rewritten in this run (output.changed into PDFToPNG: %r) but %s still holds %r" % (pdf, f3, png, post[png][0]))

    # ---------------- frame
    for line in list(latex_lines) + list(png_lines) + [l for l in log if not (l.startswith("latex ") or l.startswith("png "))]:
        bad("converter/unexpected-command", "unexpected converter invocation %r" % line)
    known = set(all_files(cfg))
    for rel in post:
        if rel not in known:
            bad("fs/unexpected-file", "unexpected file %s in the output directory" % rel)
    for rel in pre:
        if rel not in post:
            bad("fs/file-removed", "%s existed before the run and is gone" % rel)
    # ---------------- the property's sentence verbatim
    if prev is not None and mode in ("default", "write_existing_unchanged") and all_consistent_before \
            and prev["data"] == step["data"] and prev["tpl"] == step["tpl"] and anything_redone:
        bad("run/unchanged-inputs-redone", "inputs unchanged and every file in place, yet: " + "; ".join(anything_redone))
    return P


# ---------------------------------------------------------------------------------------------- histories
def describe(cfg, history):
    txt = ["%s pipeline, %d plot(s), mode %s%s%s" % (cfg["kind"], cfg["n"], cfg["mode"], ", dirname" if cfg.get("dirname") else "",
                                                      ", same element objects in every run" if cfg.get("reuse") else "")]
    prev = None
    for k, s in enumerate(history):
        if prev is None:
            txt.append("run1 data=%r tpl=%r" % (s["data"], s["tpl"]))
        else:
            d = ["p%d:%r->%r" % (i, a, b) for i, (a, b) in enumerate(zip(prev["data"], s["data"])) if a != b]
            txt.append("run%d %s%s%s" % (k + 1, "data " + ",".join(d) if d else "data kept",
                                         ", tpl %r->%r" % (prev["tpl"], s["tpl"]) if prev["tpl"] != s["tpl"] else "",
                                         ", deleted " + ",".join(s["delete"]) if s["delete"] else ""))
        prev = s
    return "; ".join(txt)


def run_history(cfg, history, world=None):
    """runs a whole history in a fresh output directory; returns the problems of each run"""
    own = world is None
    if own:
        world = World()
    try:
        world.restore({})
        res, prev = [], None
        pipe = {} if cfg.get("reuse") else None
        for s in history:
            res.append(do_step(world, cfg, s, prev, pipe))
            prev = s
        return res
    finally:
        if own:
            world.close()


def replay_history(cfg, history, fid):
    res = run_history(cfg, history)
    return any(f == fid for f, _ in res[-1])


def report(R, cfg, history, problems):
    merged = collections.OrderedDict()
    for fid, text in problems:
        merged.setdefault(fid, []).append(text)
    for fid, texts in merged.items():
        R.fail(fid, "%s  [%s]" % (" || ".join(texts[:3]), describe(cfg, history)), {"cfg": cfg, "history": history},
               {"fn": "replay_history", "args": [cfg, history, fid]})


def subsets(xs):
    for k in range(len(xs) + 1):
        for c in itertools.combinations(xs, k):
            yield list(c)


def per_plot_files(cfg, i):
    u = units_of(cfg)[i]
    return [u["members"][0][1]] + [u["base"] + e for e in (".tex", ".pdf", ".png")]


def step_options(cfg, prev, counter, restrict=None):
    """all steps after prev: each plot keeps or changes (to a fresh version) its data, the template is kept or
    changed, any subset of the files is deleted.  restrict(step) may filter."""
    n = cfg["n"]
    files = all_files(cfg)
    for chg in itertools.product((1, 0), repeat=n):
        for tchg in (0, 1):
            for dele in subsets(files):
                s = {"data": [counter if c else v for c, v in zip(chg, prev["data"])],
                     "tpl": counter if tchg else prev["tpl"], "delete": dele}
                if restrict is None or restrict(s, prev):
                    yield s


def dfs(R, world, cfg, depth, restrict=None, sampler=None):
    """exhaustive walk over all histories of 1..depth runs (every node of the tree is one history = one case)"""
    first = {"data": [0] * cfg["n"], "tpl": 0, "delete": []}

    def rec(history, snap):
        if len(history) >= depth:
            return
        opts = list(step_options(cfg, history[-1], len(history), restrict))
        if sampler is not None:
            opts = sampler(opts)
        kids = []
        for s in opts:
            world.restore(snap)
            problems = do_step(world, cfg, s, history[-1])
            h = history + [s]
            R.case(True, {"cfg": cfg, "history": h} if len(h) == 2 else None)
            report(R, cfg, h, problems)
            if len(h) < depth:
                kids.append((h, world.snapshot()))
        for h, sn in kids:
            rec(h, sn)

    world.restore({})
    problems = do_step(world, cfg, first, None)
    R.case(True)
    report(R, cfg, [first], problems)
    rec([first], world.snapshot())


def random_history(rng, lo, hi):
    kind = "group" if rng.random() < 0.25 else "single"
    n = rng.randint(2, 3) if kind == "group" else rng.randint(1, 3)
    cfg = {"kind": kind, "n": n, "mode": "default" if rng.random() < 0.5 else rng.choice(MODES[1:]),
           "dirname": kind == "single" and rng.random() < 0.3, "reuse": rng.random() < 0.35}
    files = all_files(cfg)
    hist = [{"data": [rng.randint(0, 2) for _ in range(n)], "tpl": rng.randint(0, 1), "delete": []}]
    for _ in range(rng.randint(lo, hi) - 1):
        p = hist[-1]
        quiet = rng.random() < 0.2
        hist.append({"data": [v if (quiet or rng.random() < 0.5) else rng.randint(0, 2) for v in p["data"]],
                     "tpl": p["tpl"] if (quiet or rng.random() < 0.6) else rng.randint(0, 1),
                     "delete": [] if quiet else [f for f in files if rng.random() < 0.25]})
    return cfg, hist


# ---------------------------------------------------------------------------------------------- unit scopes
def aged_write(path, content, age_s=1000):
    d = os.path.dirname(path)
    if not os.path.isdir(d):
        os.makedirs(d)
    with open(path, "w") as f:
        f.write(content)
    mt = time.time_ns() - age_s * 10 ** 9
    os.utime(path, ns=(mt, mt))
    return mt


def write_case(root, case):
    """one value through Write.run; returns a description of the first disagreement with the reference or None.
    case: mode, state(missing/same/diff), changed_in('absent'/False/True), dirname, filename, ext('none'/'fileext'/'filetype'/'both')"""
    out = os.path.join(root, "wout")
    shutil.rmtree(out, ignore_errors=True)
    mode, state, ch_in = case["mode"], case["state"], case["changed"]
    o = {}
    if case["dirname"] is not None:
        o["dirname"] = case["dirname"]
    if case["filename"] is not None:
        o["filename"] = case["filename"]
    if case["ext"] in ("fileext", "both"):
        o["fileext"] = "dat" if case["ext"] == "both" else "csv"
    if case["ext"] in ("filetype", "both"):
        o["filetype"] = "tex"
    if ch_in != "absent":
        o["changed"] = ch_in
    ext = {"none": "txt", "fileext": "csv", "filetype": "tex", "both": "dat"}[case["ext"]]
    fname = case["filename"] if case["filename"] is not None else "dflt"
    path = os.path.join(out, case["dirname"] or "", fname + "." + ext)
    data = "DATA-%s" % case["tag"]
    mt = None
    if state != "missing":
        mt = aged_write(path, data if state == "same" else "OLD")
    ctx = {"output": copy.deepcopy(o), "k": 1} if (o or case.get("with_output", True)) else {"k": 1}
    w = Write(out, "dflt", verbose=False, existing_unchanged=(mode == "existing_unchanged"), overwrite=(mode == "overwrite"))
    val = (data, ctx)
    res = list(w.run(iter([val])))
    if len(res) != 1:
        return "yielded", "yielded %d values" % len(res)
    r = res[0]
    if not (isinstance(r, tuple) and len(r) == 2 and r[0] == path):
        return "yielded-path", "yielded %r, expected the path %r" % (r, path)
    ro = r[1].get("output", {})
    if ro.get("filepath") != path or ro.get("filename") != fname or ro.get("fileext") != ext or ro.get("dirname") != o.get("dirname"):
        return "context-output-fields", "context.output = %r, expected filename %r fileext %r filepath %r" % (ro, fname, ext, path)
    if r[1].get("k") != 1 or ro.get("filetype") != o.get("filetype"):
        return "context-damaged", "context %r" % (r[1],)
    if not os.path.isfile(path):
        return "file-missing", "%s does not exist" % path
    with open(path) as f:
        content = f.read()
    wr = mt is None or os.stat(path).st_mtime_ns != mt
    must = state == "missing" or mode == "overwrite" or (mode != "existing_unchanged" and state == "diff")
    want = "OLD" if (state == "diff" and mode == "existing_unchanged") else data
    if content != want:
        return "wrong-content", "file holds %r, expected %r" % (content, want)
    if wr and not must:
        return ("existing_unchanged-rewrote-file" if mode == "existing_unchanged" else "rewrote-identical-file"), "file rewritten"
    if must and not wr:
        return "overwrite-did-not-write", "file not rewritten"
    ch = ro.get("changed")
    if wr:
        if ch is not True:
            if state == "missing":
                return "ROW10", "file had to be created, output.changed = %r%s" % (ch, "" if "changed" in ro else " (absent)")
            return ("changed-not-set-on-overwrite" if mode == "overwrite" else "changed-not-set-on-rewrite"), "output.changed = %r after a rewrite" % (ch,)
    elif ch_in is True:
        if ch is not True:
            return "changed-not-kept-downstream", "output.changed was True, is %r" % (ch,)
    elif ch:
        return "changed-set-without-write", "output.changed = %r without a write (was %r)" % (ch, ch_in)
    return None


def replay_write(case):
    root = tempfile.mkdtemp(prefix="C19-", dir="/var/tmp")
    try:
        return write_case(root, case) is not None
    finally:
        shutil.rmtree(root, ignore_errors=True)


def scope_write(R, root):
    R.scope("Write.run / Write._make_filename (one value)",
            "3 modes (default, existing_unchanged, overwrite) x file missing/identical/different x output.changed absent/False/True "
            "x dirname absent/'sub'/'a/b' x filename absent/'f'/'x/y' x extension from default/fileext/filetype/both: "
            "path = output_directory/dirname/filename.fileext, written iff missing|overwrite|differs, changed' rule", True)
    tag = 0
    for mode, state, ch, dn, fn, ext in itertools.product(("default", "existing_unchanged", "overwrite"), ("missing", "same", "diff"),
                                                          ("absent", False, True), (None, "sub", "a/b"), (None, "f", "x/y"),
                                                          ("none", "fileext", "filetype", "both")):
        tag += 1
        case = {"mode": mode, "state": state, "changed": ch, "dirname": dn, "filename": fn, "ext": ext, "tag": tag}
        try:
            bad = write_case(root, case)
        except Exception as e:
            bad = ("exception:" + type(e).__name__, str(e)[:200])
        R.case(True, case)
        if bad:
            fid = ROW10 if bad[0] == "ROW10" else "Write.run/" + bad[0]
            R.fail(fid, "Write(%s).run on one value %r: %s" % (mode, case, bad[1].replace(root, "<tmp>")), case, {"fn": "replay_write", "args": [case]})
    # special values
    R.scope("Write.run special values", "empty filename raises LenaRuntimeError; output.write False, data == filepath, non-string data "
            "pass unchanged and touch nothing; plain string without context goes to output_filename.txt; objects with write(); "
            "two values in one flow are independent (3x3 file states); existing_unchanged+overwrite rejected", True)
    out = os.path.join(root, "wout2")

    def fresh():
        shutil.rmtree(out, ignore_errors=True)
        return Write(out, "dflt", verbose=False)
    specials = []
    w = fresh()
    try:
        list(w.run(iter([("x", {"output": {"filename": ""}})])))
        specials.append(("empty-filename-accepted", "filename '' did not raise"))
    except lena.core.LenaRuntimeError:
        pass
    except Exception as e:
        specials.append(("empty-filename-accepted", "filename '' raised %s" % type(e).__name__))
    def probe(name, fn):
        try:
            fn()
        except Exception as e:
            specials.append(("special-exception:" + name, "%s raised %s: %s" % (name, type(e).__name__, str(e)[:150])))
    for name, val in (("write-false", ("txt", {"output": {"write": False, "filename": "nw"}})), ("non-string", (5, {"output": {"filename": "ns"}})),
                      ("non-string", ([1, 2], {"a": 1})), ("non-string", 7),
                      ("data-is-filepath", (os.path.join(out, "s", "q.csv"), {"output": {"filename": "q", "dirname": "s", "fileext": "csv"}}))):
        def passes(name=name, val=val):
            w = fresh()
            before = copy.deepcopy(val)
            res = list(w.run(iter([val])))
            if not (len(res) == 1 and res[0] is val and val == before) or os.path.exists(out) and os.listdir(out):
                specials.append(("not-passed-unchanged:" + name, "%r became %r, files %r" % (before, res, os.path.exists(out) and os.listdir(out))))
        probe(name, passes)

    def plain():
        w = fresh()
        res = list(w.run(iter(["plain text"])))
        p = os.path.join(out, "dflt.txt")
        if not (len(res) == 1 and isinstance(res[0], tuple) and res[0][0] == p and os.path.isfile(p) and open(p).read() == "plain text"):
            specials.append(("plain-string-default-file", "plain string gave %r" % (res,)))
    probe("plain-string", plain)

    class Obj(object):
        def __init__(self):
            self.paths = []

        def write(self, path):
            self.paths.append(path)
            with open(path, "w") as f:
                f.write("obj")

    def objw():
        w = fresh()
        os.makedirs(out)
        ob = Obj()
        res = list(w.run(iter([(ob, {"output": {"filename": "o", "fileext": "bin"}})])))
        p = os.path.join(out, "o.bin")
        if not (len(res) == 1 and res[0][0] == p and ob.paths == [p] and res[0][1]["output"].get("changed") is True):
            specials.append(("object-with-write", "object with write(): %r, write called with %r" % (res, ob.paths)))
    probe("object-with-write", objw)
    try:
        Write(out, existing_unchanged=True, overwrite=True)
        specials.append(("exclusive-options-accepted", "existing_unchanged and overwrite accepted together"))
    except lena.core.LenaValueError:
        pass
    for a in ((5, "x"), ("x", 5)):
        try:
            Write(*a)
            specials.append(("non-string-arguments-accepted", "Write%r accepted" % (a,)))
        except lena.core.LenaTypeError:
            pass
    R.case(True)
    for fid, text in specials:
        R.fail("Write.run/" + fid, text.replace(root, "<tmp>"), None)
    # two values in one flow: states are independent
    for s1, s2 in itertools.product(("missing", "same", "diff"), repeat=2):
        R.case(True, {"two values": [s1, s2]})
        try:
            two_values(R, fresh, out, s1, s2)
        except Exception as e:
            R.fail("Write.run/two-values-exception:" + type(e).__name__, "flow of two values with file states %s,%s: %s" % (s1, s2, str(e)[:150]), [s1, s2])


def two_values(R, fresh, out, s1, s2):
    w = fresh()
    mts = {}
    for nm, st in (("a", s1), ("b", s2)):
        if st != "missing":
            mts[nm] = aged_write(os.path.join(out, nm + ".txt"), "D" + nm if st == "same" else "OLD")
    res = list(w.run(iter([("Da", {"output": {"filename": "a"}}), ("Db", {"output": {"filename": "b"}})])))
    if len(res) != 2:
        R.fail("Write.run/two-values-interfere", "flow of two values with file states %s,%s yielded %d values" % (s1, s2, len(res)), [s1, s2])
    for (nm, st), r in zip((("a", s1), ("b", s2)), res):
        p = os.path.join(out, nm + ".txt")
        if not os.path.isfile(p):
            R.fail("Write.run/two-values-interfere", "flow of two values with file states %s,%s: %s.txt does not exist" % (s1, s2, nm), [s1, s2])
            continue
        wr = nm not in mts or os.stat(p).st_mtime_ns != mts[nm]
        ch = r[1]["output"].get("changed")
        with open(p) as f:
            content = f.read()
        if content != "D" + nm or wr != (st != "same"):
            R.fail("Write.run/two-values-interfere", "flow of two values with file states %s,%s: %s written=%s content %r" % (s1, s2, nm, wr, content), [s1, s2])
        if st == "diff" and ch is not True:
            R.fail("Write.run/changed-not-set-on-rewrite", "two values %s,%s: %s rewritten, changed=%r" % (s1, s2, nm, ch), [s1, s2])
        if st == "same" and ch:
            R.fail("Write.run/changed-leaks-between-values", "two values %s,%s: %s untouched but changed=%r" % (s1, s2, nm, ch), [s1, s2])
        if st == "missing" and ch is not True:
            R.fail(ROW10, "flow of two values (file states %s,%s): %s.txt had to be created, output.changed = %r" % (s1, s2, nm, ch), [s1, s2])


def converter_case(world, case):
    """LaTeXToPDF / PDFToPNG decision on a flow of values; returns (fid-suffix, text) or None"""
    world.restore({})
    world.clear_log()
    el = case["el"]
    flow, expect = [], []
    for k, (st, ch) in enumerate(case["vals"]):
        base = os.path.join(world.out, "v%d" % k)
        csvc, texc = "1,2\n3,%d" % k, "T\nCSV %s.csv\nEND" % base
        aged_write(base + ".csv", csvc, 3000)
        aged_write(base + ".tex", texc, 2000)
        pdfc = pdf_text(texc, [csvc])
        o = {"filetype": "tex" if el == "latex" else "pdf"}
        if ch != "absent":
            o["changed"] = ch
        if el == "latex":
            if st == "older":
                aged_write(base + ".pdf", "OLDPDF", 2500)
            elif st == "newer":
                aged_write(base + ".pdf", "OLDPDF", 1500)
            launch = case["overwrite"] or st == "missing" or ch is True or (ch == "absent" and st == "older")
            flow.append((base + ".tex", {"output": o, "k": k}))
            expect.append((base + ".pdf", launch, pdfc if launch else "OLDPDF", "latex %s.tex" % base, "pdf"))
        else:
            fmt = case.get("format", "png")         # the image format option: the image is <stem>.<format>
            aged_write(base + ".pdf", pdfc, 1500)
            if st == "present":
                aged_write(base + "." + fmt, "OLDPNG", 1000)
            launch = case["overwrite"] or st == "missing" or ch is True
            flow.append((base + ".pdf", {"output": o, "k": k}))
            expect.append((base + "." + fmt, launch, png_text(pdfc) if launch else "OLDPNG",
                           "png %s.pdf %s -%s -singlefile" % (base, base, fmt), "png"))
    other = ("other.csv", {"output": {"filetype": "csv", "changed": True}})
    flow.insert(1, other)
    if el == "latex":
        elem = LaTeXToPDF(overwrite=case["overwrite"], verbose=0, create_command=world.create_command)
    else:
        elem = PDFToPNG(overwrite=case["overwrite"], verbose=False, **({"format": case["format"]} if "format" in case else {}))
    with watchdog(20):
        res = list(elem.run(iter(flow)))
    log = collections.Counter(world.read_log())
    if sum(1 for r in res if r is other) != 1:
        return "foreign-value-not-passed", "a csv value did not pass unchanged: %r" % (res,)
    res = [r for r in res if r is not other]
    if len(res) != len(expect):
        return "value-lost-or-duplicated", "%d values in, %d out" % (len(expect), len(res))
    for k, (path, launch, content, line, ft) in enumerate(expect):
        rs = [r for r in res if r[1].get("k") == k]
        if len(rs) != 1:
            return "value-lost-or-duplicated", "value %d yielded %d times" % (k, len(rs))
        r = rs[0]
        n = log.pop(line, 0)
        st, ch = case["vals"][k]
        if n != (1 if launch else 0):
            if launch:
                why = "overwrite-did-not-launch" if case["overwrite"] else ("missing-%s-not-created" % ft) if st == "missing" else \
                    "not-regenerated-although-changed" if ch is True else "mtime-rule-newer-tex-not-reprocessed"
            else:
                why = "launched-twice" if n > 1 else "launched-without-change" if ch is False or el == "png" else "mtime-rule-older-tex-reprocessed"
            return why, "value %d (%s %s, changed %r, overwrite %s): launched %d times, expected %d" % (k, ft, st, ch, case["overwrite"], n, 1 if launch else 0)
        if r[0] != path or r[1]["output"].get("filetype") != ft:
            return "yielded-value", "value %d yielded as %r" % (k, r)
        if not os.path.isfile(path) or open(path).read() != content:
            return ("%s-inconsistent-after-launch" % ft) if launch else "product-damaged", "%s holds %r, expected %r" % (path, os.path.isfile(path) and open(path).read(), content)
        if r[1]["output"].get("changed") is not launch and not (not launch and not r[1]["output"].get("changed")):
            return ("changed-not-set-after-launch" if launch else "changed-set-without-launch"), "value %d: launched=%s, output.changed=%r" % (k, launch, r[1]["output"].get("changed"))
    if log:
        return "unexpected-command", "unexpected invocations %r" % (dict(log),)
    return None


def replay_converter(case):
    world = World()
    try:
        return converter_case(world, case) is not None
    finally:
        world.close()


def scope_converters(R, world):
    def go(case):
        try:
            bad = converter_case(world, case)
        except Timeout:
            bad = ("timeout", "did not finish in 20 s")
        except Exception as e:
            bad = ("exception:" + type(e).__name__, str(e)[:200])
        R.case(True, case)
        if bad:
            pre = "LaTeXToPDF.run/" if case["el"] == "latex" else "PDFToPNG.run/"
            fid = "converter/unexpected-command" if bad[0] == "unexpected-command" else pre + bad[0]
            R.fail(fid, "%s on %r: %s" % (pre[:-5], case, bad[1].replace(world.root, "<tmp>")), case, {"fn": "replay_converter", "args": [case]})
    lstates = [(s, c) for s in ("missing", "older", "newer") for c in ("absent", False, True)]
    R.scope("LaTeXToPDF.run decision (stub create_command)", "overwrite x pdf missing/older/newer than tex x output.changed absent/False/True for one value, "
            "and all 81 two-value flows without overwrite, a csv value in between: launch iff overwrite|missing|changed|(absent and tex newer)", True)
    for ow in (False, True):
        for v in lstates:
            go({"el": "latex", "overwrite": ow, "vals": [v]})
    for v1, v2 in itertools.product(lstates, repeat=2):
        go({"el": "latex", "overwrite": False, "vals": [v1, v2]})
    pstates = [(s, c) for s in ("missing", "present") for c in ("absent", False, True)]
    R.scope("PDFToPNG.run decision (stub pdftoppm on PATH)", "overwrite x png missing/present x output.changed absent/False/True, one and two values: "
            "launch iff overwrite|missing|changed", True)
    for ow in (False, True):
        for v in pstates:
            go({"el": "png", "overwrite": ow, "vals": [v]})
        for v1, v2 in itertools.product(pstates, repeat=2):
            go({"el": "png", "overwrite": ow, "vals": [v1, v2]})
    R.scope("PDFToPNG.run decision with another image format", "format in {jpeg, tiff} x overwrite x image missing/present x "
            "output.changed absent/False/True, one value and all two-value flows: the image is <stem>.<format>; launch iff "
            "overwrite|missing|changed; the yielded name is the image that exists", True)
    for fmt in ("jpeg", "tiff"):
        for ow in (False, True):
            for v in pstates:
                go({"el": "png", "overwrite": ow, "vals": [v], "format": fmt})
        for v1, v2 in itertools.product(pstates, repeat=2):
            go({"el": "png", "overwrite": False, "vals": [v1, v2], "format": fmt})


# ---- MakeFilename
def fmt_ref(template, ctx):
    """double-brace formatting: None when a key is missing"""
    missing = []

    def sub(m):
        cur = ctx
        for part in m.group(1).split("."):
            if isinstance(cur, dict) and part in cur:
                cur = cur[part]
            else:
                missing.append(m.group(1))
                return ""
        return str(cur)
    res = re.sub(r"\{\{([^{}]+)\}\}", sub, template)
    return None if missing else res


def mf_ref(args, ow, ctx):
    """expected context after MakeFilename(**args, overwrite=ow) (property: an existing name is never replaced unless
    overwrite; prefix/suffix are joined to existing ones, consumed exactly once when the file name is made)"""
    new = copy.deepcopy(ctx)
    old = ctx.get("output", {})
    res = dict(new.get("output", {}))
    for key in ("prefix", "suffix"):
        if args.get(key) is not None:
            r = fmt_ref(args[key], ctx)
            if r is not None:
                if old.get(key) and not ow:
                    r = r + old[key] if key == "prefix" else old[key] + r
                res[key] = r
    if args.get("filename") is not None and ("filename" not in old or ow):
        r = fmt_ref(args["filename"], ctx)
        if r is not None:
            res["filename"] = old.get("prefix", "") + r + old.get("suffix", "")
            res.pop("prefix", None)
            res.pop("suffix", None)
    for key in ("dirname", "fileext"):
        if args.get(key) is not None and (key not in old or ow):
            r = fmt_ref(args[key], ctx)
            if r is not None:
                res[key] = r
    if res or "output" in ctx:
        new["output"] = res
    return new


def mf_case(args, ow, ctx, with_context=True):
    el = MakeFilename(overwrite=ow, **{k: v for k, v in args.items() if v is not None})
    data = ["payload"]
    val = (data, copy.deepcopy(ctx)) if with_context else data
    got = el(val)
    exp = mf_ref(args, ow, ctx if with_context else {})
    gd, gc = (got[0], got[1]) if (isinstance(got, tuple) and len(got) == 2 and isinstance(got[1], dict)) else (got, {})
    if gd is not data:
        return "data-replaced", "data part became %r" % (gd,)
    if gc != exp:
        eo, go_ = exp.get("output", {}), gc.get("output", {})
        old = ctx.get("output", {}) if with_context else {}
        for k in ("filename", "dirname", "fileext"):
            if k in old and not ow and go_.get(k) != old[k]:
                return "existing-%s-replaced" % k, "existing output.%s %r became %r without overwrite" % (k, old[k], go_.get(k))
        for k in ("filename", "dirname", "fileext", "prefix", "suffix"):
            if go_.get(k) != eo.get(k):
                return "wrong-%s" % k, "output.%s = %r, expected %r" % (k, go_.get(k), eo.get(k))
        return "context-damaged", "context %r, expected %r" % (gc, exp)
    return None


def replay_mf(args, ow, ctx, with_context):
    return mf_case(args, ow, ctx, with_context) is not None


def replay_mf_chain(chain, ctx):
    return mf_chain(chain, ctx) is not None


def mf_chain(chain, ctx):
    got, exp = (["d"], copy.deepcopy(ctx)), copy.deepcopy(ctx)
    for args, ow in chain:
        got = MakeFilename(overwrite=ow, **args)(got)
        exp = mf_ref(args, ow, exp)
    if got[1] != exp:
        return "chain %r on %r gave output %r, expected %r" % (chain, ctx, got[1].get("output"), exp.get("output"))
    return None


def scope_makefilename(R):
    R.scope("MakeFilename.__call__ (one element)", "filename in {None, literal, {{name}}, {{missing}}, {{output.filename}}_x}; without filename: prefix in "
            "{None,'P_','{{name}}_'} x suffix {None,'_S'}; dirname {None,'d','{{name}}dir'}; fileext {None,'ext'}; overwrite F/T; "
            "context.output with/without filename, prefix, suffix, dirname, fileext (32) x name present/absent, and a value "
            "without context", True)
    arglist = []
    for fn in ("lit", "{{name}}", "{{missing}}", "{{output.filename}}_x"):
        for dn, fe in itertools.product((None, "d", "{{name}}dir"), (None, "ext")):
            arglist.append({"filename": fn, "dirname": dn, "fileext": fe})
    for pf, sf, dn, fe in itertools.product((None, "P_", "{{name}}_"), (None, "_S"), (None, "d", "{{name}}dir"), (None, "ext")):
        if pf is None and sf is None and dn is None and fe is None:
            continue
        arglist.append({"prefix": pf, "suffix": sf, "dirname": dn, "fileext": fe})
    ctxs = []
    for bits in itertools.product((0, 1), repeat=6):
        o = {}
        for b, (k, v) in zip(bits, (("filename", "old"), ("prefix", "Q_"), ("suffix", "_T"), ("dirname", "olddir"), ("fileext", "oe"))):
            if b:
                o[k] = v
        c = {"name": "nm"} if bits[5] else {"other": 1}
        if o:
            c["output"] = o
        ctxs.append(c)
    for args in arglist:
        for ow in (False, True):
            for ctx, wc in [(c, True) for c in ctxs] + [({}, False)]:
                try:
                    bad = mf_case(args, ow, ctx, wc)
                except Exception as e:
                    bad = ("exception:" + type(e).__name__, str(e)[:200])
                R.case(True, {"args": args, "overwrite": ow, "context": ctx})
                if bad:
                    R.fail("MakeFilename/" + bad[0], "MakeFilename(%r, overwrite=%s) on context %r: %s" % (args, ow, ctx if wc else "(no context)", bad[1]),
                           {"args": args, "overwrite": ow, "context": ctx}, {"fn": "replay_mf", "args": [args, ow, ctx, wc]})
    R.scope("MakeFilename chains", "all 512 chains of 3 elements out of 8 (prefix A_, prefix B_, suffix _S, suffix _Z overwrite, filename {{name}}, "
            "filename other, filename other overwrite, {{output.filename}}_x overwrite) on two contexts: prefix/suffix applied exactly once", True)
    pool = [({"prefix": "A_"}, False), ({"prefix": "B_"}, False), ({"suffix": "_S"}, False), ({"suffix": "_Z"}, True), ({"filename": "{{name}}"}, False),
            ({"filename": "other"}, False), ({"filename": "other"}, True), ({"filename": "{{output.filename}}_x"}, True)]
    for chain in itertools.product(pool, repeat=3):
        for ctx in ({"name": "nm"}, {"name": "nm", "output": {"prefix": "Q_", "filename": "old"}}):
            chain_l = [[a, o] for a, o in chain]
            try:
                bad = mf_chain(chain_l, ctx)
            except Exception as e:
                bad = "exception %s: %s" % (type(e).__name__, e)
            R.case(True)
            if bad:
                R.fail("MakeFilename/chain-prefix-suffix-not-exactly-once", bad, {"chain": chain_l, "context": ctx}, {"fn": "replay_mf_chain", "args": [chain_l, ctx]})
    R.scope("MakeFilename.__init__", "no argument, non-string argument, filename together with prefix or suffix: LenaTypeError", True)
    for kw in ({}, {"filename": 5}, {"dirname": 1.5}, {"filename": "a", "prefix": "p"}, {"filename": "a", "suffix": "s"}, {"prefix": ["x"]}):
        try:
            MakeFilename(**kw)
            raised = None
        except lena.core.LenaTypeError:
            raised = "LenaTypeError"
        except Exception as e:
            raised = type(e).__name__
        R.case(True)
        R.check(raised == "LenaTypeError", "MakeFilename/init-accepts-bad-arguments", "MakeFilename(**%r): %s" % (kw, raised), kw)


# ---- group_plots / MapGroup flags
class SetFlag(object):
    """yields, for every value, one value per entry of context['set'] with output.changed set to it ('absent' = removed)"""

    def run(self, flow):
        for val in flow:
            data, ctx = val
            for j, fl in enumerate(ctx["set"]):
                c = copy.deepcopy(ctx)
                c["j"] = j
                c.setdefault("output", {})
                if fl == "absent":
                    c["output"].pop("changed", None)
                else:
                    c["output"]["changed"] = fl
                yield ((data, j), c)


def group_case(case):
    """case: {'fn': 'group_plots'|'MapGroup', 'ctx': flag of the group context, 'members': [[flags per result]...]}"""
    if case["fn"] == "group_plots":
        vals = []
        for k, fl in enumerate(case["members"]):
            c = {"name": "m%d" % k, "common": 1}
            if fl[0] != "absent":
                c["output"] = {"changed": fl[0]}
            vals.append(("d%d" % k, c))
        ctxs = [v[1] for v in vals]
        data, ctx = group_plots(vals)
        exp = any(f[0] is True for f in case["members"])
        if data != ["d%d" % k for k in range(len(vals))] or ctx.get("group") != ctxs or ctx.get("common") != 1:
            return "group_plots/group-structure", "group_plots gave data %r context %r" % (data, ctx)
        got = ctx.get("output", {}).get("changed")
        if bool(got) != exp:
            return "group_plots/changed-not-disjunction", "members changed %r -> group output.changed %r" % ([f[0] for f in case["members"]], got)
        return None
    members = case["members"]
    grp = [{"name": "m%d" % k, "set": fl} for k, fl in enumerate(members)]
    ctx = {"group": grp, "output": {}}
    if case["ctx"] != "absent":
        ctx["output"]["changed"] = case["ctx"]
    res = list(MapGroup(SetFlag()).run(iter([(["d%d" % k for k in range(len(members))], ctx)])))
    nres = len(members[0])
    if len(res) != nres:
        return "MapGroup/group-structure", "%d groups out, expected %d" % (len(res), nres)
    for j, (data, c) in enumerate(res):
        if data != [("d%d" % k, j) for k in range(len(members))] or [g.get("name") for g in c.get("group", [])] != ["m%d" % k for k in range(len(members))] \
                or any(g.get("j") != j for g in c["group"]):
            return "MapGroup/group-structure", "group %d is %r" % (j, (data, c))
        flags = [m[j] for m in members]
        exp = case["ctx"] is True or any(f is True for f in flags)
        got = c.get("output", {}).get("changed")
        if exp and got is not True:
            if case["ctx"] is True and not any(f is True for f in flags):
                return "MapGroup/changed-true-not-kept", "group context had output.changed True, members then %r -> %r" % (flags, got)
            return "MapGroup/changed-not-combined", "group %d: context %r, members %r -> output.changed %r" % (j, case["ctx"], flags, got)
        if not exp and got:
            return "MapGroup/changed-set-without-member-change", "group %d: context %r, members %r -> output.changed %r" % (j, case["ctx"], flags, got)
    return None


def replay_group(case):
    return group_case(case) is not None


def scope_groups(R):
    F = ("absent", False, True)
    R.scope("group_plots / MapGroup output.changed", "group_plots on 1..3 members with output.changed absent/False/True; MapGroup with group context "
            "absent/False/True x 1..3 members whose results carry absent/False/True, and 2 members x 2 results each (81): "
            "changed of the group is the disjunction, True is kept", True)
    cases = []
    for n in (1, 2, 3):
        for fl in itertools.product(F, repeat=n):
            cases.append({"fn": "group_plots", "ctx": "absent", "members": [[f] for f in fl]})
            for cf in F:
                cases.append({"fn": "MapGroup", "ctx": cf, "members": [[f] for f in fl]})
    for fl in itertools.product(F, repeat=4):
        for cf in F:
            cases.append({"fn": "MapGroup", "ctx": cf, "members": [[fl[0], fl[1]], [fl[2], fl[3]]]})
    for case in cases:
        try:
            bad = group_case(case)
        except Exception as e:
            bad = (case["fn"] + "/exception:" + type(e).__name__, str(e)[:200])
        R.case(True, case)
        if bad:
            R.fail(bad[0], "%s %r: %s" % (case["fn"], case, bad[1]), case, {"fn": "replay_group", "args": [case]})


# ---------------------------------------------------------------------------------------------- body
def body(R):
    rng = R.rng
    th = R.thorough
    world = World()
    try:
        # 1. one plot, every history
        d1 = 3 if th else 2
        cfg = {"kind": "single", "n": 1, "mode": "default", "dirname": False}
        R.scope("pipeline ToCSV,MakeFilename,Write,RenderLaTeX,Write,LaTeXToPDF,PDFToPNG: 1 plot, default settings",
                "ALL histories of 1..%d runs: each later run keeps/changes the data, keeps/changes the template, deletes any of the 16 subsets of "
                "{csv,tex,pdf,png}; files aged 1000 s between runs; stub converters" % d1, True)
        dfs(R, world, cfg, d1)
        cfg = {"kind": "single", "n": 1, "mode": "default", "dirname": True}
        R.scope("same pipeline with MakeFilename(dirname='sub')", "ALL histories of 1..2 runs, 1 plot (64 second runs)", True)
        dfs(R, world, cfg, 2)
        # 2. settings
        dm = 2
        R.scope("same pipeline, 1 plot, each of Write(existing_unchanged), Write(overwrite), LaTeXToPDF(overwrite), PDFToPNG(overwrite)",
                "ALL histories of 1..%d runs per setting (data keep/change x template keep/change x 16 deletion subsets per step)" % dm, True)
        for mode in MODES[1:]:
            dfs(R, world, {"kind": "single", "n": 1, "mode": mode, "dirname": False}, dm)
        if th:
            R.scope("same pipeline, 1 plot, Write(existing_unchanged)", "ALL histories of 1..3 runs", True)
            dfs(R, world, {"kind": "single", "n": 1, "mode": "write_existing_unchanged", "dirname": False}, 3)
        # 3. two plots
        cfg = {"kind": "single", "n": 2, "mode": "default", "dirname": False}
        if th:
            R.scope("same pipeline, 2 plots, default settings", "ALL histories of 1..2 runs: 2x2 data keep/change x template x 256 deletion subsets (2048 second runs)", True)
            dfs(R, world, cfg, 2)
        else:
            mine = set(per_plot_files(cfg, 1))
            R.scope("same pipeline, 2 plots, default settings", "ALL histories of 2 runs in which plot p1 takes each of its 32 options (data x 16 deletions), "
                    "plot p0 keeps/changes its data and loses none or all of its files, template kept/changed (256 second runs)", True)
            p0files = per_plot_files(cfg, 0)
            dfs(R, world, cfg, 2, restrict=lambda s, prev: [f for f in s["delete"] if f not in mine] in ([], p0files))
        # 4. group pipeline
        cfg = {"kind": "group", "n": 2, "mode": "default", "dirname": False}
        if th:
            R.scope("group pipeline group_plots,MapGroup(ToCSV,MakeFilename,Write),MakeFilename,RenderLaTeX,Write,LaTeXToPDF,PDFToPNG, 2 members",
                    "ALL histories of 1..2 runs: each member keeps/changes data, template kept/changed, any subset of {p0.csv,p1.csv,combined.tex,.pdf,.png} deleted (256 second runs)", True)
            dfs(R, world, cfg, 2)
            R.scope("group pipeline, 3 members", "ALL histories of 1..2 runs: 2^3 data keep/change x template x 2^6 deletion subsets (1024 second runs)", True)
            dfs(R, world, {"kind": "group", "n": 3, "mode": "default", "dirname": False}, 2)
        else:
            R.scope("group pipeline group_plots,MapGroup(ToCSV,MakeFilename,Write),MakeFilename,RenderLaTeX,Write,LaTeXToPDF,PDFToPNG, 2 members",
                    "ALL histories of 1..2 runs with the template kept and combined.png kept: members keep/change data, any subset of {p0.csv,p1.csv,combined.tex,combined.pdf} deleted (64 second runs)", True)
            dfs(R, world, cfg, 2, restrict=lambda s, prev: s["tpl"] == prev["tpl"] and "combined.png" not in s["delete"])
        # 5. random longer histories
        nrand = 1500 if th else 90
        R.scope("random histories (single and group pipelines)", "%d seeded histories of 3..4 runs: 1..3 plots (groups of 2..3), data versions from {0,1,2} (returns to earlier "
                "data possible), template from {0,1}, each file deleted with p=1/4, 20%% untouched reruns, all 5 settings, dirname on/off, "
                "35%% with the same element objects reused by every run (else fresh elements per run)" % nrand, False)
        for _ in range(nrand):
            cfg, hist = random_history(rng, 3, 4)
            for k, problems in enumerate(run_history(cfg, hist, world)):
                report(R, cfg, hist[:k + 1], problems)
            R.case(True, {"cfg": cfg, "history": hist})
        if th:
            R.scope("1 plot, default settings, 4 runs", "1200 seeded histories of exactly 4 runs drawn from the exhaustive step alphabet "
                    "(keep/change data, keep/change template, 16 deletion subsets)", False)
            cfg = {"kind": "single", "n": 1, "mode": "default", "dirname": False}
            files = all_files(cfg)
            for _ in range(1200):
                hist = [{"data": [0], "tpl": 0, "delete": []}]
                for k in range(1, 4):
                    p = hist[-1]
                    hist.append({"data": [k if rng.random() < 0.5 else p["data"][0]], "tpl": k if rng.random() < 0.5 else p["tpl"],
                                 "delete": [f for f in files if rng.random() < 0.5]})
                for k, problems in enumerate(run_history(cfg, hist, world)):
                    report(R, cfg, hist[:k + 1], problems)
                R.case(True)
        # 6. element decision tables
        scope_converters(R, world)
        scope_write(R, world.root)
    finally:
        world.close()
    scope_makefilename(R)
    scope_groups(R)


if __name__ == "__main__":
    R = Run("C19", {"replay_history": replay_history, "replay_write": replay_write, "replay_converter": replay_converter,
                    "replay_mf": replay_mf, "replay_mf_chain": replay_mf_chain, "replay_group": replay_group})
    sys.exit(R.main(body, "a case is one history of runs of the real pipeline on a temporary directory (or one decision-table entry of an element), "
                          "executed and compared with the reference; every history of the stated alphabet is enumerated once (tree walk), "
                          "random histories are seeded; non-trivial = the real elements ran and file system, converter log and contexts were compared"))
